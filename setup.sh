#!/bin/bash
# Build the whole Coq development from clean (full .vo build), offline.
set -e
cd "$(dirname "$0")/coq"
rm -f Makefile Makefile.conf .Makefile.d
find theories -name '*.vo' -o -name '*.vok' -o -name '*.vos' -o -name '*.glob' -o -name '.*.aux' | xargs -r rm -f
coq_makefile -f _CoqProject -o Makefile > /dev/null
timeout 3400 make -j16 2>&1 | tail -5
# no Admitted / axioms anywhere in the development
if grep -rnE '\b(Admitted|admit|Axiom|Parameter|Conjecture|Admit Obligations)\b|Unset Guard|bypass_check|Unset Positivity|Unset Universe' theories --include='*.v' | grep -v '^\S*:\s*[0-9]*:\s*(\*' ; then
  echo "forbidden token in the development"; exit 1
fi
echo "setup ok"
