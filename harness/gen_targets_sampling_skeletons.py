"""Whole-function skeletons (harness/genarith.py, BUILDING_skeletons.md) for the sampling glue of shangrla/core/Audit.py
that C07 and C10 are anchored in.  Every statement of each function is listed with its exact `ast.unparse` text; if any
of them changes the translator refuses and every lemma of coq/gen/GenProofs_sampling_skeletons.v counts as broken.  The
`tail`s are the line-by-line Gallina reading of those texts; the lemma file proves them equal to the functions of the hand
model (coq/theories/Sampling.v) that the C07 / C10 theorems are about, and restates the property facts on them."""

GROUP = "sampling_skeletons"
HEADER = "From SV Require Import Sampling.\n"
F = "shangrla/core/Audit.py"

# ---------------------------------------------------------------- CVR.consistent_sampling
TAIL_CS = """(* state of the loop: the contests paired with current_sizes[c.id], and sampled_cvr_indices so far (in append order) *)
Definition gen_cs_step {V : Type} (already : list nat) (i : nat) (cd : card V)
    (st : list (contest * nat)) (acc : list nat) : list (contest * nat) * list nat :=
  (* i = sorted_cvr_indices[inx], cd = cvr_list[i] *)
  if existsb (fun s => Nat.ltb (snd s) (k_size (fst s)) && has_contest cd (k_id (fst s))) st
     (* if any([contest_in_progress(con) and cvr_list[sorted_cvr_indices[inx]].has_contest(con.id) for c, con in contests.items()]): *)
  then (map (fun s =>                                             (* for c, con in contests.items(): *)
              if has_contest cd (k_id (fst s)) && Nat.ltb (snd s) (k_size (fst s))
                 (* if cvr_list[sorted_cvr_indices[inx]].has_contest(con.id) and contest_in_progress(con): *)
              then (mkcon (k_id (fst s)) (k_size (fst s)) (Some (c_num cd)),
                     (* con.sample_threshold = cvr_list[sorted_cvr_indices[inx]].sample_num *)
                    S (snd s))                                    (* current_sizes[c] += 1 *)
              else s) st,
        (acc ++ [i])%list)                                        (* sampled_cvr_indices.append(sorted_cvr_indices[inx]) *)
  else if existsb (Nat.eqb i) already                             (* elif sorted_cvr_indices[inx] in already_sampled: *)
  then (st, (acc ++ [i])%list)                                    (* sampled_cvr_indices.append(sorted_cvr_indices[inx]) *)
  else (st, acc).
(* l = sorted_cvr_indices[inx:] with the cards they point to; `inx += 1` is the recursive call on the rest *)
Fixpoint gen_cs_loop {V : Type} (already : list nat) (st : list (contest * nat)) (l : list (nat * card V))
    (acc : list nat) : res (list nat) * list (contest * nat) :=
  if negb (existsb (fun s => Nat.ltb (snd s) (k_size (fst s))) st)
     (* while any([contest_in_progress(con) for c, con in contests.items()]): -- false: leave the loop *)
  then (Ok (acc ++ filter (fun i => existsb (Nat.eqb i) already) (map fst l))%list, st)
     (* sampled_cvr_indices.extend([i for i in sorted_cvr_indices[inx:] if i in already_sampled]) *)
  else match l with
       | nil => (Err IndexError, st)                              (* sorted_cvr_indices[inx] past the end *)
       | (i, cd) :: rest => let r := gen_cs_step already i cd st acc in gen_cs_loop already (fst r) rest (snd r)
       end.
Definition gen_cs_tail {V : Type} (cvr_list : list (card V)) (contests : list contest) (sampled_cvr_indices : option (list nat))
    : res (list nat) * list contest :=
  let current_sizes := map (fun k => (k, 0%nat)) contests in      (* current_sizes = defaultdict(int) *)
  let already_sampled := match sampled_cvr_indices with None => nil | Some p => p end in
     (* already_sampled = set() if sampled_cvr_indices is None else set(sampled_cvr_indices) *)
  let sorted_cvr_indices := sort_by (fun ic => c_num (snd ic)) (enumerate cvr_list) in
     (* sorted_cvr_indices = [i for i, cv in sorted(enumerate(cvr_list), key=lambda x: x[1].sample_num)] *)
  let r := gen_cs_loop already_sampled current_sizes sorted_cvr_indices nil in   (* sampled_cvr_indices = []; inx = 0; while ... *)
  (fst r, map fst (snd r)).                                       (* return sampled_cvr_indices  (+ the contests' thresholds) *)
(* for i in sampled_cvr_indices: cvr_list[i].sampled = True *)
Definition gen_cs_flags (flags : list bool) (sel : list nat) : list bool :=
  map (fun x => orb (snd x) (existsb (Nat.eqb (fst x)) sel)) (combine (seq 0 (length flags)) flags).
"""
CS = dict(
    name="cs", kind="skeleton", file=F, func="CVR.consistent_sampling",
    skeleton=[
        ("text", "current_sizes = defaultdict(int)"),
        ("text", "contest_in_progress = lambda c: current_sizes[c.id] < c.sample_size"),
        ("text", "already_sampled = set() if sampled_cvr_indices is None else set(sampled_cvr_indices)"),
        ("text", "sampled_cvr_indices = []"),
        ("text", "sorted_cvr_indices = [i for i, cv in sorted(enumerate(cvr_list), key=lambda x: x[1].sample_num)]"),
        ("text", "inx = 0"),
        ("text", "while any([contest_in_progress(con) for c, con in contests.items()]):\n"
                 "    if any([contest_in_progress(con) and cvr_list[sorted_cvr_indices[inx]].has_contest(con.id) for c, con in contests.items()]):\n"
                 "        sampled_cvr_indices.append(sorted_cvr_indices[inx])\n"
                 "        for c, con in contests.items():\n"
                 "            if cvr_list[sorted_cvr_indices[inx]].has_contest(con.id) and contest_in_progress(con):\n"
                 "                con.sample_threshold = cvr_list[sorted_cvr_indices[inx]].sample_num\n"
                 "                current_sizes[c] += 1\n"
                 "    elif sorted_cvr_indices[inx] in already_sampled:\n"
                 "        sampled_cvr_indices.append(sorted_cvr_indices[inx])\n"
                 "    inx += 1"),
        ("text", "sampled_cvr_indices.extend([i for i in sorted_cvr_indices[inx:] if i in already_sampled])"),
        ("for", "i in sampled_cvr_indices"),
        ("text", "cvr_list[i].sampled = True"),
        ("endfor",),
        ("text", "return sampled_cvr_indices"),
    ],
    tail=TAIL_CS)

# ---------------------------------------------------------------- CVR.assign_sample_nums
TAIL_ASN = """(* rnd k = int_from_hash of the k-th output of the generator; k = its counter, advanced by each prng.nextRandom() *)
Fixpoint gen_asn_tail {V : Type} (rnd : nat -> Z) (k : nat) (cvr_list : list (card V)) : list (card V) * nat :=
  match cvr_list with
  | nil => (nil, k)                                               (* return True *)
  | cvr :: rest =>                                                (* for cvr in cvr_list: *)
      let cvr' := mkcard (rnd k) (c_votes cvr) (c_extra cvr) in   (* cvr.sample_num = int_from_hash(prng.nextRandom()) *)
      let r := gen_asn_tail rnd (S k) rest in
      (cvr' :: fst r, snd r)
  end.
"""
ASN = dict(name="asn", kind="skeleton", file=F, func="CVR.assign_sample_nums",
           skeleton=[("for", "cvr in cvr_list"),
                     ("text", "cvr.sample_num = int_from_hash(prng.nextRandom())"),
                     ("endfor",),
                     ("text", "return True")],
           tail=TAIL_ASN)

# ---------------------------------------------------------------- CVR.has_contest
TAIL_HAS = """Definition gen_has_tail {V : Type} (self : card V) (contest_id : Z) : bool :=
  existsb (fun kv => Z.eqb contest_id (fst kv)) (c_votes self).  (* return contest_id in self.votes *)
"""
HAS = dict(name="has", kind="skeleton", file=F, func="CVR.has_contest",
           skeleton=[("text", "return contest_id in self.votes")], tail=TAIL_HAS)

# ---------------------------------------------------------------- Assertion.mvrs_to_data (the filter; the values are abstract)
TAIL_M2D = """(* the condition of the comprehension, for one i; a threshold that was never set (None) makes `<=` raise TypeError *)
Definition gen_m2d_keep {V : Type} (use_style use_all : bool) (cid : Z) (thr : option Z) (c : card V) : res bool :=
  if negb use_style then Ok true                                  (* not use_style or ( *)
  else if negb (has_contest c cid) then Ok false                  (*   cvr_sample[i].has_contest(con.id) and ( *)
  else if use_all then Ok true                                    (*     use_all or *)
  else match thr with
       | None => Err TypeError
       | Some t => Ok (Z.leb (c_num c) t)                         (*     cvr_sample[i].sample_num <= con.sample_threshold)) *)
       end.
(* [self.overstatement_assorter(mvr_sample[i], cvr_sample[i], use_style=use_style) for i in range(len(mvr_sample)) if <keep>] *)
Fixpoint gen_m2d_comprehension {M V D : Type} (f : M -> card V -> D) (use_style use_all : bool) (cid : Z) (thr : option Z)
    (mvr_sample : list M) (cvr_sample : list (card V)) : res (list D) :=
  match mvr_sample with
  | nil => Ok nil
  | m :: ms =>
      match cvr_sample with
      | nil => Err IndexError                                     (* cvr_sample[i] past the end *)
      | c :: cs =>
          match gen_m2d_keep use_style use_all cid thr c with
          | Err e => Err e
          | Ok true => match gen_m2d_comprehension f use_style use_all cid thr ms cs with
                       | Ok d => Ok (f m c :: d) | Err e => Err e end
          | Ok false => gen_m2d_comprehension f use_style use_all cid thr ms cs
          end
      end
  end.
Definition gen_m2d_tail {M V D : Type} (f : M -> card V -> D) (g : M -> D) (audit_type : atype) (use_style use_all : bool)
    (cid : Z) (thr : option Z) (mvr_sample : list M) (cvr_sample : list (card V)) : res (list D) :=
  match audit_type with
  | Comparison | OneAudit =>                                      (* if con.audit_type in [CARD_COMPARISON, ONEAUDIT]: *)
      gen_m2d_comprehension f use_style use_all cid thr mvr_sample cvr_sample
  | Polling => Ok (map g mvr_sample)                              (* elif POLLING: d = np.array([self.assorter.assort(mvr_sample[i]) ...]) *)
  | OtherType => Err NotImplementedError                          (* else: raise NotImplementedError(...) *)
  end.
"""
M2D = dict(
    name="m2d", kind="skeleton", file=F, func="Assertion.mvrs_to_data",
    skeleton=[
        ("text", "margin = self.margin"),
        ("text", "upper_bound = self.assorter.upper_bound"),
        ("text", "con = self.contest"),
        ("text", "use_style = con.use_style"),
        ("if", "con.audit_type in [Audit.AUDIT_TYPE.CARD_COMPARISON, Audit.AUDIT_TYPE.ONEAUDIT]"),
        ("text", "d = np.array([self.overstatement_assorter(mvr_sample[i], cvr_sample[i], use_style=use_style) "
                 "for i in range(len(mvr_sample)) if not use_style or (cvr_sample[i].has_contest(con.id) and "
                 "(use_all or cvr_sample[i].sample_num <= con.sample_threshold))])"),
        ("text", "u = 2 / (2 - margin / upper_bound)"),      # its arithmetic is tied in group "audit" (u_mvrs_to_data)
        ("else",),
        ("if", "con.audit_type == Audit.AUDIT_TYPE.POLLING"),
        ("text", "d = np.array([self.assorter.assort(mvr_sample[i]) for i in range(len(mvr_sample))])"),
        ("text", "u = upper_bound"),
        ("else",),
        ("text", "raise NotImplementedError(f'audit type {con.audit_type} not implemented')"),
        ("endif",), ("endif",),
        ("text", "return (d, u)"),
    ],
    tail=TAIL_M2D)

# ---------------------------------------------------------------- Assertion.set_p_values (the sticky flag)
TAIL_SPV = """(* per assertion, inside the two loops: the flag after this call, from the p-value the test returned *)
Definition gen_spv_proved (risk_limit : Q) (p_value : Xq) (proved : bool) : bool :=
  xle p_value (Fin risk_limit) || proved.                         (* asn.proved = asn.p_value <= con.risk_limit or asn.proved *)
(* the flag after a sequence of calls (one p-value per round) *)
Definition gen_spv_rounds (risk_limit : Q) (ps : list Xq) (proved0 : bool) : bool :=
  fold_left (fun b p => gen_spv_proved risk_limit p b) ps proved0.
"""
SPV = dict(
    name="spv", kind="skeleton", file=F, func="Assertion.set_p_values",
    skeleton=[
        ("text", "if cvr_sample is not None:\n    assert len(mvr_sample) == len(cvr_sample), 'unequal numbers of cvrs and mvrs'"),
        ("text", "p_max = 0"),
        ("for", "(c, con) in contests.items()"),
        ("text", "con.p_values = {}"),
        ("text", "con.proved = {}"),
        ("text", "contest_max_p = 0"),
        ("for", "(a, asn) in con.assertions.items()"),
        ("text", "d, u = asn.mvrs_to_data(mvr_sample, cvr_sample)"),
        ("text", "asn.test.u = u"),
        ("text", "asn.p_value, asn.p_history = asn.test.test(d)"),
        ("text", "asn.proved = asn.p_value <= con.risk_limit or asn.proved"),
        ("text", "con.p_values.update({a: asn.p_value})"),
        ("text", "con.proved.update({a: asn.proved})"),
        ("text", "contest_max_p = np.max([contest_max_p, asn.p_value])"),
        ("endfor",),
        ("text", "contests[c].max_p = contest_max_p"),
        ("text", "p_max = np.max([p_max, contests[c].max_p])"),
        ("endfor",),
        ("text", "return p_max"),
    ],
    tail=TAIL_SPV)

TARGETS = [HAS, CS, ASN, M2D, SPV]
