"""C15 — with zero gap the largest difficulty among the returned assertions is the least achievable by any sufficient
set of true assertions."""
import math

from . import common as C, raire as R

ANCHORS = R.ANCHORS


def est_cases(maxtot):
    """bp_estimate / cp_estimate on every (winner, loser, total) with loser < winner, winner + loser <= total <= maxtot."""
    _, _, S = R.R()
    cases = []
    for tot in range(1, maxtot + 1):
        for w in range(1, tot + 1):
            for l in range(0, min(w, tot - w + 1)):
                try:
                    b, c = float(S.bp_estimate(w, l, tot - w - l, tot)), float(S.cp_estimate(w, l, tot - w - l, tot))
                except Exception:  # noqa
                    b = c = -1.0
                if not (math.isfinite(b) and math.isfinite(c)):
                    b = c = -1.0
                cases.append((w, l, tot, b, c))
    return cases


def mant_exp(x):
    """finite double -> (m, e) with x == m * 2**e exactly"""
    m, e = math.frexp(x)
    return int(m * 2 ** 53), e - 53


def est_lit(c):
    (bm, be), (cm, ce) = mant_exp(c[3]), mant_exp(c[4])
    return f"({c[0]}, {c[1]}, {c[2]}, {C.zlit(bm)}, {C.zlit(be)}, {C.zlit(cm)}, {C.zlit(ce)})"


def run(ctx, res):
    from . import genarith
    genarith.regenerate(ctx.pid, "raire", res)   # regenerated tie: bp_estimate / cp_estimate (DESIGN 2.1)
    genarith.regenerate(ctx.pid, "raire_skeletons", res)   # whole-function skeletons of the search, tied to RaireAlgo.v
    rng = ctx.rng
    hints = (None, lambda n: list(range(n)), lambda n: list(reversed(range(n))))
    with R.untraced():
        if ctx.quick:
            ex = R.exhaustive_cases(3, 4, hints=hints[:1]) + R.exhaustive_cases(3, 3, hints=hints[1:])
            ex = [c for i, c in enumerate(ex) if (i // 2 + i) % 2 == 0]
        else:
            ex = R.exhaustive_cases(3, 4, hints=hints) + R.exhaustive_cases(4, 2)[len(R.exhaustive_cases(3, 2)):]
        rnd = [R.gen_case(rng) for _ in range(ctx.n(3200, 12000))]
    R.BUDGET["left"] = ctx.n(450, 3600)      # seconds of implementation time for the whole check
    rp = R.replay_cases(ctx)
    if rp:                      # --replay: only the recorded case(s), re-run on the current implementation
        ex, rnd = [], rp
    # optimality concerns contests for which an audit is possible: of the exhaustive stream keep the non-empty outputs
    # (emptiness is C04's equation `output = [] <-> possible = false`, checked there on the whole stream)
    with R.untraced():
        seq = [] if rp else R.sequence_cases(rng, ctx.n(60, 400))
    R.run_cases(seq, rng)            # first calls of the process: sequences of calls (state must not leak between calls)
    ex = [c for c in R.run_cases(ex) if c["impl"]["out"] is None or c["impl"]["out"]]
    R.run_cases(rnd, rng)
    rnd = seq + rnd
    cases = ex + rnd
    cr = R.corr(ctx.pid, "raire_ex", R.IMPORTS, "raire_case", ex, R.case_lit, "agree_c15", shard=500, show="show_c15")
    res.corr.append(("max difficulty of compute_raire_assertions output vs verified optimum opt (RaireCheck.v), exhaustive small profiles",
                     cr, R.case_json))
    cr = R.corr(ctx.pid, "raire_rnd", R.IMPORTS, "raire_case", rnd, R.case_lit, "agree_c15", shard=40, show="show_c15")
    res.corr.append(("max difficulty of compute_raire_assertions output vs verified optimum opt (RaireCheck.v), random profiles",
                     cr, R.case_json))
    # a few LARGE profiles (10 000 - 30 000 ballots, few ballot types, one- or two-vote margins)
    with R.untraced():
        big = [] if rp else [R.large_case(rng) for _ in range(ctx.n(8, 60))]
    R.run_cases(big, rng)
    cases = cases + big
    cr = R.corr(ctx.pid, "raire_big", R.IMPORTS, "raire_case", big, R.case_lit, "agree_c15", shard=1, show="show_c15")
    res.corr.append(("max difficulty of compute_raire_assertions output vs verified optimum opt (RaireCheck.v), large profiles",
                     cr, R.case_json))
    # the search itself, output for output, against the fuelled model RaireAlgo.raire (exact difficulties)
    ac = R.algo_cases(rnd, rng)      # (the exhaustive small profiles go through the same comparison in C04)
    cr = R.corr(ctx.pid, "algo", R.IMPORTS, "raire_case * list cand", ac, R.algo_lit, "agree_algo", shard=250, show="show_algo")
    res.corr.append(("compute_raire_assertions assertion list vs RaireAlgo.raire (model of the search)", cr, R.case_json))
    res.evaluations += len(ac)
    ec = est_cases(ctx.n(60, 90))
    cr2 = R.corr(ctx.pid, "est", R.IMPORTS, "nat * nat * nat * Z * Z * Z * Z", ec, est_lit, "agree_est", shard=1300,
                     show="show_est")
    res.corr.append(("bp_estimate / cp_estimate vs exact-rational bp_q / cp_q", cr2,
                     lambda c: {"winner": c[0], "loser": c[1], "total": c[2], "bp_estimate": c[3], "cp_estimate": c[4]}))
    res.evaluations += len(cases) + len(ec)

    for c in cases:
        if c["n"] <= 5 and (c["impl"]["out"] or c["impl"]["out"] is None):
            res.oracle_runs += 1
            with R.untraced():
                whats = R.oracle_c15(c)
            for what in whats:
                res.oracle_violations.append({"what": what, "input": R.case_json(c), "observed": C.jsonable(c["impl"]["out"]),
                                              "signature": f"C15:{what}"})
        if c["impl"]["out"] and len(c["impl"]["out"]) >= 2:
            res.nontrivial.add(R.digest(c))
    res.rule = ("profiles as for C04 (exhaustive <= 3 candidates x <= 4 ballots, with identity / reversed order hints on the "
                "<= 3-ballot ones; random 2-6 candidates x 1-60 ballots, all hint kinds); every (winner, loser, total) triple up to "
                "60 ballots for the difficulty functions; non-trivial = output with >= 2 assertions, distinct by "
                "(profile, total, winner, function, hint)")
    res.samples = [R.case_json(c) for c in rnd[:4]]
    res.stats = R.stats(cases)
    res.exhaustive = True
    res.assumptions = [
        "theorems: C15_opt_is_minimax (the verified optimum `opt` is the minimax value) and C15_algo_optimal (the fuelled "
        "model RaireAlgo.raire of the search returns largest difficulty = opt, for all inputs with dfun >= -10; tied to "
        "compute_raire_assertions output-for-output by Run_Raire.agree_algo); the implementation is also compared with opt "
        "per output (exactly with Fraction-valued difficulty functions, within 2^-30 with the shipped float ones); NOT proved: "
        "that the constant default_fuel suffices (termination itself is proved in PC04: some fuel suffices; exhaustion is reported as a disagreement)",
        "agap = 0 only",
    ]
