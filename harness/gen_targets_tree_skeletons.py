"""Whole-function skeletons for the code C19 and C20 are anchored in (group "tree_skeletons", see BUILDING_skeletons.md).
Every statement of each function is listed as exact `ast.unparse` text or as an opened if / for; the `tail` of a target is the
line-by-line Gallina reading of the decisive statements, emitted only when the whole function matched, and
coq/gen/GenProofs_tree_skeletons.v proves each tail equal to the corresponding definition of IrvVis.v / DominionCvr.v."""

GROUP = "tree_skeletons"
HEADER = "From SV Require Import IrvVis DominionCvr.\n"

# buildRemainingTreeAsLists: one node.  `rec` stands for the recursive call, S is the set of candidates still to be placed.
TAIL_BUILD = """Definition gen_build_tail (rec : Z -> list Z -> tree) (WOLosers : list neb) (IRVElims : list nen) (c : Z) (S : list Z) : tree :=
  let pruneThisBranch := false in                                               (* pruneThisBranch = False *)
  let NEBTags : list (nat * bool) := [] in                                      (* NEBTags = [] *)
  let IRVTags : list (nat * bool) := [] in                                      (* IRVTags = [] *)
  let st := fold_left (fun st loser =>                                          (* for loser in WOLosers: *)
      if Z.eqb c (fst (fst loser)) && IrvVis.memZ (snd (fst loser)) S           (*   if c == loser[0] and loser[1] in S: *)
      then (true,                                                               (*     pruneThisBranch = True *)
            snd st ++ [(index_of neb_eqb loser WOLosers, snd loser)])           (*     NEBTags.append((WOLosers.index(loser), loser[2])) *)
      else st) WOLosers (pruneThisBranch, NEBTags) in
  let pruneThisBranch := fst st in let NEBTags := snd st in
  let st := fold_left (fun st winner =>                                         (* for winner in IRVElims: *)
      if Z.eqb c (fst (fst winner)) && seteqZ (snd (fst winner)) S              (*   if c == winner[0] and winner[1] == S: *)
      then (true,                                                               (*     pruneThisBranch = True *)
            snd st ++ [(index_of nen_eqb winner IRVElims, snd winner)])         (*     IRVTags.append((IRVElims.index(winner), winner[2])) *)
      else st) IRVElims (pruneThisBranch, IRVTags) in
  let pruneThisBranch := fst st in let IRVTags := snd st in
  if pruneThisBranch then Leaf c NEBTags IRVTags                                (* tree = [LeafNode(cand=c, NEBTagList=NEBTags, IRVTagList=IRVTags)] *)
  else if is_nil S then Leaf c [] []                                            (* elif not S: return [LeafNode(cand=c, NEBTagList=[], IRVTagList=[])] *)
  else Node c (map (fun c2 =>                                                   (* tree = [c, []]; for c2 in S: *)
                 let smallerSet := remove Z.eq_dec c2 S in                      (*   smallerSet = S.copy(); smallerSet.remove(c2) *)
                 rec c2 smallerSet) S).                                         (*   tree[1].append(buildRemainingTreeAsLists(c2, smallerSet, WOLosers, IRVElims)) *)
Fixpoint gen_build (fuel : nat) (WOLosers : list neb) (IRVElims : list nen) (c : Z) (S : list Z) : tree :=
  match fuel with
  | O => gen_build_tail (fun c2 _ => Node c2 []) WOLosers IRVElims c S
  | Datatypes.S f => gen_build_tail (gen_build f WOLosers IRVElims) WOLosers IRVElims c S
  end.
"""

# parseAssertions: the body of `for index, a in enumerate(assertions.values())` (a_detail = None stands for the {} of the IndexError branch)
TAIL_PARSE = """Definition gen_parse_tail (RLALogfile : bool) (a : araw) (a_detail : option adetail) (acc : list neb * list nen) : list neb * list nen :=
  let WOLosers := fst acc in let IRVElims := snd acc in
  let proved :=
    if RLALogfile then
      match a_proved a with
      | PAbsent => false                                                        (* else: warn(..); proved = False *)
      | PBool b => b | PStrTrue => true | PStrOther => true                     (* if 'proved' in a: proved = a['proved'] *)
      end
    else match a_proved a with PStrTrue => true | _ => false end in             (* if 'proved' in a and a['proved'] == 'True': proved = True else False *)
  match match a_detail with Some d => match d_type d with Some ty => Some (d, ty) | None => None end | None => None end with
  | Some (d, TWinnerOnly) =>                                                    (* if 'assertion_type' in a_detail.keys(): if a_detail['assertion_type'] == 'WINNER_ONLY': *)
      let l := d_loser d in let w := d_winner d in                              (*   l = a_detail['loser']; w = a_detail['winner'] *)
      (WOLosers ++ [(l, w, proved)], IRVElims)                                  (*   WOLosers.append((l, w, proved)) *)
  | Some (d, TIrvElim) =>                                                       (* elif a_detail['assertion_type'] == 'IRV_ELIMINATION': *)
      let l := d_winner d in                                                    (*   l = a_detail['winner'] *)
      (WOLosers, IRVElims ++ [(l, d_elim d, proved)])                           (*   IRVElims.append((l, set(a_detail['already_eliminated']), proved)) *)
  | Some (d, TOtherType) => (WOLosers, IRVElims)
  | None =>                                                                     (* else: *)
      let l := a_loser a in let w := a_winner a in                              (*   l = a['loser']; w = a['winner'] *)
      (WOLosers ++ [(l, w, proved)], IRVElims)                                  (*   WOLosers.append((l, w, proved)) *)
  end.
"""

# treeListToTuple on a leaf ([LeafNode]) and buildConfTag
TAIL_TOTUPLE = """Definition gen_totuple_tail (c : Z) (NEBTagList IRVTagList : list (nat * bool)) : rtree :=
  let neb := if negb (is_nil NEBTagList)                                        (* if node.NEBTagList: *)
             then Some (map fst NEBTagList, existsb snd NEBTagList) else None in (*  tag += 'NEB ' + ','.join(str(n[0]) ...) + '\\n' + buildConfTag(node[1]) *)
  let irv := if negb (is_nil IRVTagList)                                        (* if node.IRVTagList: *)
             then Some (map fst IRVTagList, existsb snd IRVTagList) else None in (*  tag += 'IRV ' + ... + buildConfTag(node[2]) *)
  let unpruned := negb (negb (is_nil NEBTagList) || negb (is_nil IRVTagList)) in (* if not (node.NEBTagList or node.IRVTagList): tag = '***Unpruned leaf...' *)
  RLeaf c (mkRtag neb irv unpruned).                                            (* return (node[0], tag) *)
"""
TAIL_CONFTAG = """Definition gen_conftag_tail (numBoolList : list (nat * bool)) : bool :=
  fold_left (fun acc b => acc || snd b) numBoolList false.                      (* functools.reduce(lambda a, b: (None, a[1] or b[1]), numBoolList)[1]; Confirmed iff true *)
"""

# Dominion.read_cvrs: key selection, selector, one mark, record id, group tests, the record
TAIL_READCVRS = """Definition gen_readcvrs_keys (use_current : bool) : list dkey :=
  if use_current then [KOriginal; KModified] else [KOriginal].                  (* ['Original', 'Modified'] if use_current else ['Original'] -- then `if j in c.keys()` *)
Definition gen_readcvrs_selector (b : body) : list contest :=
  match b with
  | Cards cards => concat cards | CardsAndFlat cards _ => concat cards          (* if 'Cards' in c[k].keys(): [_con for _eachlist in [_c['Contests'] for _c in c[k]['Cards']] for _con in _eachlist] *)
  | Flat cs => cs                                                               (* else: _selector = c[k]['Contests'] *)
  end.
Definition gen_readcvrs_mark (enforce_rules : bool) (contest_votes : dict Z) (mark : mark) : dict Z :=
  if m_isvote mark || negb enforce_rules then                                   (* if mark['IsVote'] or not enforce_rules: *)
    match dget (m_cand mark) contest_votes with
    | Some old =>                                                               (*   if str(mark['CandidateId']) in contest_votes.keys(): *)
        if negb (Z.eqb (m_rank mark) 0%Z) then                                  (*     if bool(mark['Rank']): *)
          dset (m_cand mark)
               (if negb (Z.eqb old 0%Z) then Z.min old (m_rank mark)            (*       min(int(contest_votes[..]), int(mark['Rank'])) if bool(contest_votes[..]) *)
                else m_rank mark) contest_votes                                 (*       else int(mark['Rank']) *)
        else contest_votes
    | None => dset (m_cand mark) (m_rank mark) contest_votes                    (*   else: contest_votes[str(mark['CandidateId'])] = mark['Rank'] *)
    end
  else contest_votes.
Definition gen_readcvrs_record_id (RecordId : option Z) (image_match : option Z) : option Z :=
  match RecordId with
  | Some n => Some n                                                            (* record_id = c['RecordId'] *)
  | None =>                                                                     (* if record_id == 'X': image_match = image_mask_pattern.search(c['ImageMask']) *)
      match image_match with
      | Some n => Some n                                                        (*   if image_match is not None: record_id = int(image_match.group(0).split('_')[-1]) *)
      | None => None
      end
  end.
Definition gen_readcvrs_skip (include_groups : list Z) (CountingGroupId : Z) : bool :=
  negb (is_nil include_groups) && negb (DominionCvr.memZ CountingGroupId include_groups).   (* if include_groups and c['CountingGroupId'] not in include_groups: continue *)
Definition gen_readcvrs_record (pool_groups : list Z) (s : session) (votes : dict (dict Z)) : cvr :=
  let record_id := gen_readcvrs_record_id (s_rec s) (s_mask s) in
  mkCvr (s_tab s, s_batch s, record_id)                                         (* id=str(c['TabulatorId']) + '-' + str(c['BatchId']) + '-' + str(record_id) *)
        (s_tab s, s_batch s)                                                    (* tally_pool=str(c['TabulatorId']) + '-' + str(c['BatchId']) *)
        (DominionCvr.memZ (s_group s) pool_groups)                              (* pool=c['CountingGroupId'] in pool_groups *)
        votes.                                                                  (* votes=votes *)
"""
TAIL_READDIR = """Definition gen_readdir_tail (read : list session -> list cvr) (sorted_files : list (list session)) : list cvr :=
  fold_left (fun cvr_list file => cvr_list ++ read file) sorted_files [].       (* for file in sorted(glob(..)): cvr_list.extend(Dominion.read_cvrs(file, ...)) *)
"""

TARGETS = [
    dict(name="build", kind="skeleton", file="shangrla/core/IRVVisualisationUtils.py", func="buildRemainingTreeAsLists",
         skeleton=[('if', 'c in S'),
                   ('text', "print('Error: c is in S.  c = ' + str(c) + '. S = ' + str(S) + '.\\n')"),
                   ('endif',),
                   ('text', 'pruneThisBranch = False'),
                   ('text', 'NEBTags = []'),
                   ('text', 'IRVTags = []'),
                   ('for', 'loser in WOLosers'),
                   ('if', 'c == loser[0] and loser[1] in S'),
                   ('text', 'pruneThisBranch = True'),
                   ('text', 'NEBTags.append((WOLosers.index(loser), loser[2]))'),
                   ('endif',),
                   ('endfor',),
                   ('for', 'winner in IRVElims'),
                   ('if', 'c == winner[0] and winner[1] == S'),
                   ('text', 'pruneThisBranch = True'),
                   ('text', 'IRVTags.append((IRVElims.index(winner), winner[2]))'),
                   ('endif',),
                   ('endfor',),
                   ('if', 'pruneThisBranch'),
                   ('text', 'tree = [LeafNode(cand=c, NEBTagList=NEBTags, IRVTagList=IRVTags)]'),
                   ('else',),
                   ('if', 'not S'),
                   ('text', 'return [LeafNode(cand=c, NEBTagList=[], IRVTagList=[])]'),
                   ('text', "warn('***Unpruned leaf ' + c + '. RAIRE assertions do not exclude all other winners!***')"),
                   ('else',),
                   ('text', 'tree = [c, []]'),
                   ('for', 'c2 in S'),
                   ('text', 'smallerSet = S.copy()'),
                   ('text', 'smallerSet.remove(c2)'),
                   ('text', 'tree[1].append(buildRemainingTreeAsLists(c2, smallerSet, WOLosers, IRVElims))'),
                   ('endfor',),
                   ('endif',),
                   ('endif',),
                   ('text', 'return tree')],
         tail=TAIL_BUILD),
    dict(name="parse", kind="skeleton", file="shangrla/core/IRVVisualisationUtils.py", func="parseAssertions",
         skeleton=[('text', 'RLALogfile = False'),
                   ('text', 'auditsArray = []'),
                   ('if', "'Audit' in auditfile and 'seed' in auditfile['Audit']"),
                   ('text', 'RLALogfile = True'),
                   ('text', "contestNumList = sorted(list(map(int, auditfile['contests'])))"),
                   ('text', 'contestNumList = list(map(str, contestNumList))'),
                   ('text', 'auditsDict = {}'),
                   ('for', "contestNum in auditfile['contests']"),
                   ('text', "contest = auditfile['contests'][contestNum]"),
                   ('text', 'auditsDict[contestNum] = contest'),
                   ('if', "contest['choice_function'] != 'IRV'"),
                   ('text', "warn('IRV Visualisations: visualising a non-IRV assertion set.')"),
                   ('endif',),
                   ('if', "contest['n_winners'] != 1"),
                   ('text', "warn('IRV contest with either zero or >1 winner')"),
                   ('endif',),
                   ('endfor',),
                   ('text', 'try:\n    audit = auditsDict[str(contest_id)]\nexcept KeyError:\n    audit = auditsDict[contestNumList[0]]'),
                   ('text', "apparentWinner = audit['winner'][0]"),
                   ('text', "print('apparentWinner = ' + apparentWinner)"),
                   ('text', "print('candidates = ' + str(audit['candidates']))"),
                   ('text', "apparentNonWinners = audit['candidates'].copy()"),
                   ('text', 'apparentNonWinners.remove(apparentWinner)'),
                   ('text', "print('apparent Non Winners: ' + str(apparentNonWinners))"),
                   ('text', "assertions = audit['assertions']"),
                   ('text', "try:\n    assertion_json = audit['assertion_json']\nexcept KeyError:\n    assertion_json = []"),
                   ('else',),
                   ('text', "auditsArray = auditfile['audits']"),
                   ('text', 'audit = auditsArray[0]'),
                   ('text', "apparentWinner = audit['winner']"),
                   ('text', "apparentNonWinners = audit['eliminated']"),
                   ('text', "assertions = audit['assertions']"),
                   ('text', 'assertion_json = []'),
                   ('endif',),
                   ('text', 'apparentWinnerName = findCandidateName(apparentWinner, candidatefile)'),
                   ('text', "print('Apparent winner: ' + '\\n' + printTuple((apparentWinner, apparentWinnerName)))"),
                   ('text', 'apparentNonWinnersWithNames = findListCandidateNames(apparentNonWinners, candidatefile)'),
                   ('text', "print('Apparently eliminated:')"),
                   ('text', "print(',\\n'.join(list(map(printTuple, apparentNonWinnersWithNames))))"),
                   ('text', "print('\\n')"),
                   ('text', 'WOLosers = []'),
                   ('text', 'IRVElims = []'),
                   ('for', '(index, a) in enumerate(assertions.values())'),
                   ('text', 'try:\n    a_detail = assertion_json[index]\nexcept IndexError:\n    a_detail = {}'),
                   ('if', 'RLALogfile'),
                   ('if', "'proved' in a"),
                   ('text', "proved = a['proved']"),
                   ('else',),
                   ('text', "warn('No proved information in log file - assuming all unconfirmed.')"),
                   ('text', 'proved = False'),
                   ('endif',),
                   ('else',),
                   ('if', "'proved' in a and a['proved'] == 'True'"),
                   ('text', 'proved = True'),
                   ('else',),
                   ('text', 'proved = False'),
                   ('endif',),
                   ('endif',),
                   ('if', "'assertion_type' in a_detail.keys()"),
                   ('if', "a_detail['assertion_type'] == 'WINNER_ONLY'"),
                   ('if', "a_detail['already_eliminated'] != ''"),
                   ('text', "warn('Error: Not-Eliminated-Before assertion with nonempty already_eliminated list.')"),
                   ('endif',),
                   ('text', "l = a_detail['loser']"),
                   ('text', "w = a_detail['winner']"),
                   ('text', 'WOLosers.append((l, w, proved))'),
                   ('else',),
                   ('if', "a_detail['assertion_type'] == 'IRV_ELIMINATION'"),
                   ('text', "l = a_detail['winner']"),
                   ('text', "IRVElims.append((l, set(a_detail['already_eliminated']), proved))"),
                   ('endif',),
                   ('endif',),
                   ('else',),
                   ('text', "l = a['loser']"),
                   ('text', "w = a['winner']"),
                   ('text', 'WOLosers.append((l, w, proved))'),
                   ('endif',),
                   ('endfor',),
                   ('text', 'return ((apparentWinner, apparentWinnerName), apparentNonWinnersWithNames, WOLosers, IRVElims)')],
         tail=TAIL_PARSE),
    dict(name="totuple", kind="skeleton", file="shangrla/core/IRVVisualisationUtils.py", func="treeListToTuple",
         skeleton=[('if', 'not t'),
                   ('text', "warn('Error: empty list in tree drawing')"),
                   ('endif',),
                   ('text', "tag = ''"),
                   ('if', 'len(t) == 1'),
                   ('text', 'node = t[0]'),
                   ('if', 'node.NEBTagList'),
                   ('text', "tag += 'NEB ' + ','.join((str(n[0]) for n in node[1])) + '\\n' + buildConfTag(node[1])"),
                   ('endif',),
                   ('if', 'node.NEBTagList and node.IRVTagList'),
                   ('text', "tag += '\\n'"),
                   ('endif',),
                   ('if', 'node.IRVTagList'),
                   ('text', "tag += 'IRV ' + ','.join((str(n[0]) for n in node[2])) + '\\n' + buildConfTag(node[2])"),
                   ('endif',),
                   ('if', 'not (node.NEBTagList or node.IRVTagList)'),
                   ('text', "tag = '***Unpruned leaf. RAIRE assertions do not exclude all other winners!***'"),
                   ('endif',),
                   ('text', 'return (node[0], tag)'),
                   ('else',),
                   ('text', 'tList = []'),
                   ('for', 'branch in t[1]'),
                   ('text', 'tList.append(treeListToTuple(branch))'),
                   ('endfor',),
                   ('text', 'return (t[0],) + tuple(tList)'),
                   ('endif',)],
         tail=TAIL_TOTUPLE),
    dict(name="conftag", kind="skeleton", file="shangrla/core/IRVVisualisationUtils.py", func="buildConfTag",
         skeleton=[('if', 'len(numBoolList) == 0'),
                   ('text', "return 'Error: no truth values for this assertion.'"),
                   ('endif',),
                   ('text', 'truthval = functools.reduce(lambda a, b: (None, a[1] or b[1]), numBoolList)[1]'),
                   ('if', 'truthval'),
                   ('text', "return 'Confirmed'"),
                   ('else',),
                   ('text', "return 'Unconfirmed'"),
                   ('endif',)],
         tail=TAIL_CONFTAG),
    dict(name="readcvrs", kind="skeleton", file="shangrla/formats/Dominion.py", func="Dominion.read_cvrs",
         skeleton=[('text', "image_mask_pattern = re.compile('[0-9]{5}_[0-9]{5}_[0-9]*')"),
                   ('with', "open(cvr_file, 'r') as f"),
                   ('text', 'cvr_json = json.load(f)'),
                   ('endwith',),
                   ('text', 'cvr_list = []'),
                   ('for', "c in cvr_json['Sessions']"),
                   ('text', 'votes = {}'),
                   ('if', "include_groups and c['CountingGroupId'] not in include_groups"),
                   ('text', 'continue'),
                   ('endif',),
                   ('for', "k in [j for j in (['Original', 'Modified'] if use_current else ['Original']) if j in c.keys()]"),
                   ('if', "'Cards' in c[k].keys()"),
                   ('text', "_selector = [_con for _eachlist in [_c['Contests'] for _c in c[k]['Cards']] for _con in _eachlist]"),
                   ('else',),
                   ('text', "_selector = c[k]['Contests']"),
                   ('endif',),
                   ('for', 'con in _selector'),
                   ('text', 'contest_votes = {}'),
                   ('for', "mark in con['Marks']"),
                   ('if', "mark['IsVote'] or not enforce_rules"),
                   ('if', "str(mark['CandidateId']) in contest_votes.keys()"),
                   ('if', "bool(mark['Rank'])"),
                   ('text',
                    "contest_votes[str(mark['CandidateId'])] = min(int(contest_votes[str(mark['CandidateId'])]), int(mark['Rank'])) if "
                    "bool(contest_votes[str(mark['CandidateId'])]) else int(mark['Rank'])"),
                   ('endif',),
                   ('else',),
                   ('text', "contest_votes[str(mark['CandidateId'])] = mark['Rank']"),
                   ('endif',),
                   ('endif',),
                   ('endfor',),
                   ('text', "votes[str(con['Id'])] = contest_votes"),
                   ('endfor',),
                   ('endfor',),
                   ('text', "record_id = c['RecordId']"),
                   ('if', "record_id == 'X'"),
                   ('text', "image_match = image_mask_pattern.search(c['ImageMask'])"),
                   ('if', 'image_match is not None'),
                   ('text', "record_id = int(image_match.group(0).split('_')[-1])"),
                   ('endif',),
                   ('endif',),
                   ('text',
                    "cvr_list.append(CVR(id=str(c['TabulatorId']) + '-' + str(c['BatchId']) + '-' + str(record_id), tally_pool=str(c['TabulatorId']) + '-' + "
                    "str(c['BatchId']), pool=c['CountingGroupId'] in pool_groups, votes=votes))"),
                   ('endfor',),
                   ('text', 'return cvr_list')],
         tail=TAIL_READCVRS),
    dict(name="readdir", kind="skeleton", file="shangrla/formats/Dominion.py", func="Dominion.read_cvrs_directory",
         skeleton=[('text', 'cvr_list = []'),
                   ('for', "file in [f for f in sorted(glob.glob(f'{cvr_directory}/CvrExport_*.json'))]"),
                   ('text', 'cvr_list.extend(Dominion.read_cvrs(file, use_current, enforce_rules, include_groups, pool_groups))'),
                   ('endfor',),
                   ('text', 'return cvr_list')],
         tail=TAIL_READDIR),]
