"""C05 — non-anticipation: the p-value after j draws depends only on those j draws."""
import numpy as np

from fractions import Fraction as F

from . import common as C, nnm, genarith

ANCHORS = nnm.ANCHORS


def oracle(rng, cfg, xs, long=False, all_k=False):
    """prefix / tail / truncation clauses of the property on the implementation."""
    bad = []
    n = len(xs)
    if n < 2:
        return bad, 0
    k = rng.randint(1, n - 1)
    if long:     # tails of the same magnitude as the sample, of any length the population allows
        top = cfg["N"] or (n + 400)
        tail = nnm.long_xs(rng, cfg, rng.randint(1, max(1, min(top - k, n + 400 - k))), like=xs)
    else:
        tail = nnm.gen_xs(rng, cfg, n=rng.randint(1, max(1, (cfg["N"] or 14) - k)), maxlen=14)
        top = (cfg["N"] or 14)
    ys = (xs[:k] + tail)[:top]
    if len(ys) <= k:
        return bad, 0
    v = rng.randint(0, 209)     # how the caller holds the sample and writes the configuration (see nnm.as_input, nnm.build)
    a, b, c = nnm.run_impl(cfg, xs, variant=v), nnm.run_impl(cfg, ys, variant=v), nnm.run_impl(cfg, xs[:k], variant=v)
    if a["exc"] or b["exc"] or c["exc"]:
        return bad, 3   # well-formedness is C11's business
    eq = lambda p, q: len(p) == len(q) and all(nnm.close(u, v) for u, v in zip(p, q))
    if not eq(a["hist"][:k], b["hist"][:k]):
        bad.append(("two samples agreeing in their first k observations have different first k history entries",
                    {"k": k, "xs": xs, "ys": ys, "hist_xs": a["hist"], "hist_ys": b["hist"]}))
    if not eq(c["hist"][:k - 1], a["hist"][:k - 1]):
        bad.append(("truncating the sample changes an earlier history entry",
                    {"k": k, "xs": xs, "hist_trunc": c["hist"], "hist_full": a["hist"]}))
    elif len(c["hist"]) == k and not (nnm.close(c["hist"][k - 1], a["hist"][k - 1]) or c["hist"][k - 1] <= a["hist"][k - 1]):
        bad.append(("truncating the sample raises the k-th history entry",
                    {"k": k, "xs": xs, "hist_trunc": c["hist"], "hist_full": a["hist"]}))
    runs = 3
    if all_k and not bad:
        # the truncation clause at EVERY cut point of this sample (the k-th entry may only be lowered by truncation, and
        # only to 0 when the total of the first k draws exceeds N t)
        for kk in range(1, n):
            if kk == k:
                continue
            ck = nnm.run_impl(cfg, xs[:kk], variant=v)
            runs += 1
            if ck["exc"] or len(ck["hist"]) != kk:
                continue
            if not eq(ck["hist"][:kk - 1], a["hist"][:kk - 1]):
                bad.append(("truncating the sample changes an earlier history entry",
                            {"k": kk, "xs": xs, "hist_trunc": ck["hist"], "hist_full": a["hist"]}))
                break
            if not (nnm.close(ck["hist"][kk - 1], a["hist"][kk - 1]) or ck["hist"][kk - 1] <= a["hist"][kk - 1]):
                bad.append(("truncating the sample raises the k-th history entry",
                            {"k": kk, "xs": xs, "hist_trunc": ck["hist"], "hist_full": a["hist"]}))
                break
    if a["aux"] and not eq(a["aux"][:k + 1], b["aux"][:k + 1]):
        bad.append(("the alternative mean / bet applied to observation j depends on observations j, j+1, ...",
                    {"k": k, "xs": xs, "ys": ys, "aux_xs": a["aux"], "aux_ys": b["aux"]}))
    return bad, runs


def run(ctx, res):
    if getattr(ctx, "replay", None):
        nnm.run_replay(ctx, res, None)
        return
    genarith.regenerate(ctx.pid, "nnm_estims", res)   # whole-function skeletons of sjm, welford_mean_var, the estimators and bets
    genarith.regenerate(ctx.pid, "nnm_masks", res)    # ... and of the six tests (the last-entry rule and the boundary masks decide the truncation clause)
    cases, cr = nnm.run_corr(ctx.pid, ctx.rng, ctx.n(500, 6000), maxlen=ctx.n(12, 14))
    res.corr.append(("NonnegMean.test/estim/bet vs NNM.run_test/run_estim/run_bet", cr, nnm.case_json))
    res.evaluations += len(cases)
    for c in cases:
        for what in nnm.purity_violation(c):
            res.oracle_violations.append({"what": f"{c['cfg']['kind']}: {what}", "input": nnm.case_json(c),
                                          "signature": f"C05:{c['cfg']['kind']}:{what}"})
    n_or = ctx.n(900, 12000)
    kinds = nnm.KINDS
    nlong = 0
    for i in range(n_or):
        cfg = nnm.gen_cfg(ctx.rng, kind=kinds[i % len(kinds)])
        if cfg["kind"] in ("alpha_shrink", "bet_agrapa") and ctx.rng.random() < 0.7:
            # non-default tuning so that running sd / variance matter
            if cfg["kind"] == "alpha_shrink":
                cfg["p"]["f"] = ctx.rng.choice([C.frac(0.5), C.frac(2), C.frac(0.125)])
        xs = nnm.gen_xs(ctx.rng, cfg, maxlen=14)
        if i % 4 == 3:       # non-dyadic values, longer samples (oracle only: no comparison with the exact model)
            cfg, xs = nnm.gen_nondyadic(ctx.rng)
        lng = False
        if i % 6 == 5:       # long samples (65..3000 draws), integer-typed u, other units (oracle only)
            cfg, xs = nnm.gen_long(ctx.rng, kind=kinds[(i // 6) % len(kinds)])
            if cfg["kind"] == "alpha_shrink" and ctx.rng.random() < 0.7:
                cfg["p"]["f"] = ctx.rng.choice([C.frac(0.5), C.frac(2), C.frac(0.125)])
            lng = True
            nlong += 1
        every = False
        if not lng and i % 5 == 0 and cfg["N"] is not None:
            # a sample that exhausts a small population, ending in a run of zeros: the null becomes certain part-way
            # through while the martingale may still be large; every cut point is checked
            cfg["N"] = max(3, min(cfg["N"], 14))
            n_full = cfg["N"]
            kz = ctx.rng.randint(1, n_full - 1)
            xs = ([cfg["u"] if ctx.rng.random() < 0.8 else cfg["u"] / 2 for _ in range(n_full - kz)] + [F(0)] * kz)
            if cfg["kind"] == "bet_agrapa" and ctx.rng.random() < 0.5:
                cfg["p"]["c_grapa_0"] = cfg["p"]["c_grapa_max"] = ctx.rng.choice([F(1, 10), F(1, 4), F(1, 2)])
            every = True
        bad, runs = oracle(ctx.rng, cfg, xs, long=lng, all_k=every)
        res.oracle_runs += runs
        res.evaluations += 1
        if len(set(xs)) > 1:
            res.nontrivial.add(repr((cfg, xs)))
        for what, obs in bad:
            res.oracle_violations.append({"what": f"{cfg['kind']}: {what}", "input": {"cfg": C.jsonable(cfg)},
                                          "observed": C.jsonable(obs), "signature": f"C05:{cfg['kind']}:{what}"})
    res.rule = ("correspondence: as C11. Oracle: random (cfg, xs, cut k, replacement tail of any length) triples; histories of xs, "
                "xs[:k]+tail and xs[:k] compared entry by entry, estim/bet outputs compared up to index k; one triple in six on long samples "
                "(65..3000 draws, cut points beyond 64 and 1024, tails long enough to overflow the product); non-trivial = non-constant sample")
    res.samples = [nnm.case_json(c) for c in cases[:3]]
    res.stats = dict(nnm.branch_stats(cases), **{"oracle triples on long samples (65..3000 draws)": nlong})
    res.assumptions = ["np.sqrt modelled by an arbitrary function (theorems need no property of it)"]
