"""Shared machinery for the per-property checks: Coq literal writers, coqc runners,
theorem re-checking, source hashing, known findings, evidence and verdict printing."""
import ast
import contextlib
import signal
import threading
import hashlib
import json
import math
import os
import random
import re
import shutil
import subprocess
import sys
import time
from concurrent.futures import ThreadPoolExecutor
from fractions import Fraction

VERIF = os.path.dirname(os.path.dirname(os.path.abspath(__file__)))
REPO = os.environ.get("VERIF_REPO", "/repo")
COQ = os.path.join(VERIF, "coq")
THEORIES = os.path.join(COQ, "theories")
BUILD = os.path.join(VERIF, "build")
REPLAYS = os.path.join(VERIF, "replays")
# evidence/<id>.json describes runs against /repo itself; a run against another tree (VERIF_REPO=<scratch worktree>, used
# when trying seeded changes) writes its record under build/ so that it can never be committed in place of the real one
EVIDENCE = os.path.join(VERIF, "evidence") if os.path.realpath(REPO) == "/repo" else os.path.join(VERIF, "build", "evidence_other_tree")
NCPU = min(16, os.cpu_count() or 4)
COQ_WARN = ["-w", "-notation-overridden,-deprecated-syntactic-definition,-deprecated-hint-rewrite-without-locality"]


# ---------------------------------------------------------------- Coq literals
def zlit(n):
    n = int(n)
    return f"({n})%Z"


def natlit(n):
    n = int(n)
    assert 0 <= n <= 5000, "nat literal too large"
    return f"{n}%nat"


def frac(x):
    """Exact rational value of an int / Fraction / finite float / numpy scalar."""
    if isinstance(x, Fraction):
        return x
    if isinstance(x, bool):
        return Fraction(int(x))
    if isinstance(x, int):
        return Fraction(x)
    x = float(x)
    n, d = x.as_integer_ratio()
    return Fraction(n, d)


def qlit(x):
    f = frac(x)
    return f"(mkq ({f.numerator}) {f.denominator})"


def xlit(x):
    """float (possibly inf/nan) or Fraction -> Xq literal"""
    if isinstance(x, (Fraction, int)) and not isinstance(x, bool):
        return f"(Fin {qlit(x)})"
    x = float(x)
    if math.isnan(x):
        return "NaN"
    if math.isinf(x):
        return "PInf" if x > 0 else "NInf"
    return f"(Fin {qlit(x)})"


def blit(b):
    return "true" if b else "false"


def listlit(items):
    return "[" + "; ".join(items) + "]"


def optlit(x, f):
    return "None" if x is None else f"(Some {f(x)})"


# ---------------------------------------------------------------- running Coq
def sh(cmd, timeout=600, cwd=None, env=None):
    p = subprocess.run(cmd, stdout=subprocess.PIPE, stderr=subprocess.STDOUT, timeout=timeout,
                       cwd=cwd, env=env, text=True)
    return p.returncode, p.stdout


def ensure_build():
    """Bring the Coq development up to date (no-op when it is). Serialised by a lock."""
    os.makedirs(BUILD, exist_ok=True)
    if os.environ.get("VERIF_SKIP_MAKE"):   # development only: files were compiled by hand
        return True, "skipped"
    lock = os.path.join(BUILD, ".lock")
    mk = os.path.join(COQ, "Makefile")
    cmd = f"cd {COQ} && " + ("" if os.path.exists(mk) else "coq_makefile -f _CoqProject -o Makefile >/dev/null && ") + \
          f"timeout 3000 make -j{NCPU} 2>&1 | tail -40"
    rc, out = sh(["flock", lock, "bash", "-c", "set -o pipefail; " + cmd], timeout=3100)
    return rc == 0, out


def coqc_file(path, out_vo=None, timeout=900, extra_q=()):
    cmd = ["timeout", str(timeout), "coqc", "-Q", THEORIES, "SV"] + COQ_WARN
    for d, name in extra_q:
        cmd += ["-Q", d, name]
    if out_vo:
        cmd += ["-o", out_vo]
    cmd.append(path)
    try:
        return sh(cmd, timeout=timeout + 30)
    except subprocess.TimeoutExpired:
        return 124, "timeout"


def parse_natlist(out):
    """Parse the `= [..] : list nat` printed by `Eval vm_compute in (bad_indices ..)`. Fail closed."""
    m = re.search(r"=\s*\[(.*?)\]\s*:\s*list nat", out, re.S)
    if not m:
        return None
    body = m.group(1).strip()
    if not body:
        return []
    try:
        return [int(t.strip().replace("%nat", "")) for t in body.split(";")]
    except ValueError:
        return None


class CorrResult:
    def __init__(self):
        self.n_cases = 0
        self.bad = []          # list of (case_dict, model_text)
        self.errors = []       # coq failures (fail closed)


def run_corr(pid, name, imports, case_type, cases, lit, agree, shard=250, timeout=900, show=None):
    """Differential run.  `cases` are python dicts; `lit(case)` gives the Coq literal of type `case_type`
    (inputs AND implementation outputs); `agree` is a Coq function case_type -> bool.  Returns CorrResult.
    `show` (optional) is a Coq function case_type -> T whose value is printed for disagreeing cases."""
    res = CorrResult()
    res.n_cases = len(cases)
    d = os.path.join(BUILD, "cases", f"{pid}_{os.getpid()}")   # per process: concurrent runs never share case files
    os.makedirs(d, exist_ok=True)
    for f in os.listdir(d):
        if f.startswith(name + "_"):
            os.unlink(os.path.join(d, f))
    shards = [cases[i:i + shard] for i in range(0, len(cases), shard)]
    files = []
    for k, sc in enumerate(shards):
        p = os.path.join(d, f"{name}_{k}.v")
        with open(p, "w") as fh:
            fh.write(imports + "\n")
            fh.write(f"Definition cases : list ({case_type}) :=\n [\n  ")
            fh.write(";\n  ".join(lit(c) for c in sc))
            fh.write("\n ].\n")
            fh.write(f"Eval vm_compute in (bad_indices ({agree}) cases).\n")
        files.append(p)

    def one(p):
        return coqc_file(p, out_vo=p[:-2] + ".vo", timeout=timeout)

    with ThreadPoolExecutor(NCPU) as ex:
        outs = list(ex.map(one, files))
    shown = 0   # the model's value is printed for the first two disagreeing shards only (one extra coqc run each)
    for k, (rc, out) in enumerate(outs):
        idx = parse_natlist(out) if rc == 0 else None
        if idx is None:
            res.errors.append({"shard": files[k], "rc": rc, "output": out[-2000:]})
            continue
        if idx and show and shown < 2:
            shown += 1
            p = files[k][:-2] + "_show.v"
            with open(files[k]) as fh:
                src = fh.read().rsplit("Eval vm_compute", 1)[0]
            with open(p, "w") as fh:
                fh.write(src)
                fh.write(f"Eval vm_compute in (map (fun o => match o with Some c => Some (({show}) c) | None => None end) "
                         f"(pick {listlit([natlit(i) for i in idx[:5]])} cases)).\n")
            rc2, out2 = coqc_file(p, out_vo=p[:-2] + ".vo", timeout=timeout)
            mtxt = out2[-6000:]
        else:
            mtxt = ""
        for i in idx:
            res.bad.append((shards[k][i], mtxt))
    if res.bad or res.errors:
        for f in os.listdir(d):    # keep the .v case files of a failing run for inspection, drop compiled output
            if f.endswith((".vo", ".glob", ".vok", ".vos", ".aux")):
                try:
                    os.unlink(os.path.join(d, f))
                except OSError:
                    pass
    else:
        shutil.rmtree(d, ignore_errors=True)
    return res


# ---------------------------------------------------------------- theorems
def recheck_theorems(pid, extra_files=()):
    """Re-compile PC<id>.v (after `make` brought its dependencies up to date), count the theorems it states,
    capture Print Assumptions.  Returns dict(obligations, discharged, assumptions, ok, output)."""
    path = os.path.join(THEORIES, f"P{pid}.v")
    src = open(path).read()
    names = re.findall(r"^\s*(?:Theorem|Corollary)\s+([A-Za-z0-9_']+)", src, re.M)
    odir = os.path.join(BUILD, f"thm_{pid}_{os.getpid()}")
    os.makedirs(odir, exist_ok=True)
    out_vo = os.path.join(odir, f"P{pid}.vo")
    rc, out = coqc_file(path, out_vo=out_vo, timeout=1200)
    shutil.rmtree(odir, ignore_errors=True)
    banned = re.findall(r"\b(Admitted|admit|Axiom|Parameter|Conjecture|Unset Guard|bypass_check|Admit Obligations)\b", src)
    ok = rc == 0 and not banned
    # Print Assumptions output: blocks "Closed under the global context" or "Axioms:\n name : type"
    closed = len(re.findall(r"Closed under the global context", out))
    axioms = sorted(set(re.findall(r"^([A-Za-z_][A-Za-z0-9_.']*)\s*$|^([A-Za-z_][A-Za-z0-9_.']*)\s*:\s", out.split("Axioms:", 1)[1], re.M))) if "Axioms:" in out else []
    axioms = sorted({a or b for a, b in axioms} - {"Axioms", "Closed"})
    return {"obligations": len(names), "discharged": len(names) if ok else 0, "theorems": names,
            "closed": closed, "axioms": axioms, "ok": ok, "output": out[-3000:], "banned": banned}


# ---------------------------------------------------------------- source hashes
def source_hashes(specs):
    """specs: list of (relative file, [qualified function names]).  sha256 of ast.dump of each function."""
    res = {}
    for rel, names in specs:
        path = os.path.join(REPO, rel)
        try:
            tree = ast.parse(open(path).read())
        except Exception as e:  # noqa
            res[rel] = f"unparseable: {e}"
            continue
        defs = {}
        for node in ast.walk(tree):
            if isinstance(node, ast.ClassDef):
                for sub in node.body:
                    if isinstance(sub, (ast.FunctionDef, ast.AsyncFunctionDef)):
                        defs[f"{node.name}.{sub.name}"] = sub
            if isinstance(node, (ast.FunctionDef, ast.AsyncFunctionDef)):
                defs.setdefault(node.name, node)
        for n in names:
            node = defs.get(n)
            res[f"{rel}:{n}"] = hashlib.sha256(ast.dump(node).encode()).hexdigest()[:16] if node else "missing"
    return res


def baseline_hashes(pid):
    p = os.path.join(VERIF, "harness", "hashes", f"{pid}.json")
    return json.load(open(p)) if os.path.exists(p) else {}


# ---------------------------------------------------------------- findings / verdicts
def known_findings():
    p = os.path.join(VERIF, "KNOWN_FINDINGS.json")
    if not os.path.exists(p):
        return []
    return [f for f in json.load(open(p)).get("findings", []) if f.get("status") == "open"]


def write_replay(pid, seed, payload):
    os.makedirs(REPLAYS, exist_ok=True)
    k = 0
    while True:
        p = os.path.join(REPLAYS, f"{pid}-{seed}-{k}.json")
        if not os.path.exists(p):
            break
        k += 1
    payload = dict(payload, seed=seed, tier=os.environ.get("VERIF_TIER_USED", ""))
    with open(p, "w") as fh:
        json.dump(payload, fh, indent=1, default=str)
    return p


def write_evidence(pid, tier, seed, coverage, assumptions, wall, violations):
    os.makedirs(EVIDENCE, exist_ok=True)
    ev = {"property_id": pid, "tier": tier, "seed": int(seed), "level": "proof", "coverage": coverage,
          "assumptions": assumptions, "wall_s": round(wall, 2), "violations": int(violations)}
    with open(os.path.join(EVIDENCE, f"{pid}.json"), "w") as fh:
        json.dump(ev, fh, indent=1, default=str)


def jsonable(x):
    """Best-effort conversion of numpy / Fraction values for replay files and samples."""
    try:
        import numpy as np
        if isinstance(x, np.ndarray):
            return [jsonable(v) for v in x.tolist()]
        if isinstance(x, np.generic):
            return jsonable(x.item())
    except ImportError:
        pass
    if isinstance(x, Fraction):
        return f"{x.numerator}/{x.denominator}" if x.denominator != 1 else x.numerator
    if isinstance(x, float):
        if math.isnan(x):
            return "nan"
        if math.isinf(x):
            return "inf" if x > 0 else "-inf"
        return x
    if isinstance(x, dict):
        return {str(k): jsonable(v) for k, v in x.items()}
    if isinstance(x, (list, tuple, set, frozenset)):
        return [jsonable(v) for v in x]
    if isinstance(x, (int, str, bool)) or x is None:
        return x
    return repr(x)


class Rng(random.Random):
    def dy(self, lo, hi, den):
        """dyadic-grid rational in [lo, hi] with denominator den"""
        return Fraction(self.randint(int(math.ceil(lo * den)), int(math.floor(hi * den))), den)


# ---------------------------------------------------------------- generator adequacy: which anchored lines ran
class LineTracer:
    """sys.settrace restricted to the anchored functions (DESIGN 3.5).  Frames of other code are not traced."""

    def __init__(self, anchors):
        self.want = {}      # (abs filename, function name) -> qualified name
        self.seen = {}      # qualified name -> set of executed line numbers
        self.codes = {}     # qualified name -> code object
        self.names = set()
        self._rp = {}
        for rel, names in anchors:
            path = os.path.realpath(os.path.join(REPO, rel))
            for q in names:
                self.want[(path, q.split(".")[-1])] = f"{rel}:{q}"
                self.names.add(q.split(".")[-1])

    def _global(self, frame, event, arg):
        co = frame.f_code
        if co.co_name not in self.names:      # cheap early exit: this is called on every Python call
            return None
        fn = co.co_filename
        rp = self._rp.get(fn)
        if rp is None:
            rp = self._rp[fn] = os.path.realpath(fn)
        q = self.want.get((rp, co.co_name))
        if q is None:
            return None
        self.codes.setdefault(q, co)
        seen = self.seen.setdefault(q, set())

        def local(fr, ev, a):
            if ev == "line":
                seen.add(fr.f_lineno)
            return local
        return local

    def __enter__(self):
        self._old = sys.gettrace()
        sys.settrace(self._global)
        return self

    def __exit__(self, *exc):
        sys.settrace(self._old)
        return False

    def report(self):
        out = {}
        for (path, name), q in self.want.items():
            co = self.codes.get(q)
            if co is None:
                out[q] = "never called"
                continue
            lines = {ln for _, _, ln in co.co_lines() if ln is not None and ln != co.co_firstlineno}
            missing = sorted(lines - self.seen.get(q, set()))
            out[q] = missing
        return out


def coqchk_summary(pid, timeout=1500):
    """Independent re-check of P<id>.vo and everything it depends on (thorough tier); returns the context summary."""
    cmd = ["timeout", str(timeout), "coqchk", "-silent", "-o", "-Q", THEORIES, "SV", f"SV.P{pid}"]
    try:
        rc, out = sh(cmd, timeout=timeout + 30)
    except subprocess.TimeoutExpired:
        return {"ok": False, "summary": "coqchk timed out"}
    i = out.find("CONTEXT SUMMARY")
    return {"ok": rc == 0, "summary": (out[i:] if i >= 0 else out[-1500:]).strip()[:3000]}


# ---------------------------------------------------------------- guards against a non-terminating implementation
class ImplTimeout(Exception):
    pass


_TIMEOUTS = {"n": 0}


@contextlib.contextmanager
def time_limit(seconds):
    """Bound one call into the implementation (main thread only).  After three expiries further calls are refused at
    once, so a change that makes the code loop cannot stall the whole check."""
    if _TIMEOUTS["n"] >= 3:
        raise ImplTimeout("skipped: earlier implementation calls did not terminate")

    def handler(signum, frame):
        _TIMEOUTS["n"] += 1
        raise ImplTimeout(f"implementation call did not return within {seconds} s")
    old = signal.signal(signal.SIGALRM, handler)
    signal.setitimer(signal.ITIMER_REAL, seconds)
    try:
        yield
    finally:
        signal.setitimer(signal.ITIMER_REAL, 0)
        signal.signal(signal.SIGALRM, old)


def start_watchdog(pid, tier, seed, seconds):
    """Last resort: if the whole check exceeds its budget, report that (fail closed) and exit."""
    def fire():
        path = write_replay(pid, seed, {"property": pid, "kind": "no-failing-input-found",
                                        "no_longer_checks": [{"harness": f"check exceeded its time budget of {seconds} s "
                                                              "(a call into the implementation may not terminate)"}], "repo": REPO})
        write_evidence(pid, tier, seed, {"obligations": 1, "discharged": 0, "checker_cmd": "n/a (watchdog fired)",
                                         "trusted_base": [], "evaluations": 1, "distinct_nontrivial": 2,
                                         "samples": [{"note": "watchdog fired"}], "explanation": "time budget exceeded"},
                       ["watchdog"], float(seconds), 1)
        print(f"VIOLATION property={pid} replay={path} no-failing-input-found", flush=True)
        os._exit(1)
    t = threading.Timer(seconds, fire)
    t.daemon = True
    t.start()
    return t
