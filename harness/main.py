"""./check <ID> quick|thorough [--replay file]  — driver shared by all properties.

Steps: (1) bring the Coq development up to date; (2) re-check the property's theorem file P<ID>.v and capture
Print Assumptions; (3) run the property's correspondence (model vs implementation in /repo's working tree) and its
oracles (the property evaluated on the implementation alone); (4) verdict, evidence, replay files."""
import importlib
import json
import os
import sys
import time
import traceback

from . import common as C


class Ctx:
    def __init__(self, pid, tier, seed):
        self.pid, self.tier, self.seed = pid, tier, seed
        self.rng = C.Rng(seed * 1000003 + int(pid[1:]))
        self.quick = tier == "quick"

        self.escalate = False   # set when an anchored function differs from the recorded baseline

    def n(self, quick, thorough):
        if not self.quick:
            return thorough
        return min(thorough, 3 * quick) if self.escalate else quick


class Result:
    """What a property module reports."""

    def __init__(self):
        self.corr = []            # list of (name, CorrResult, to_json)
        self.oracle_violations = []   # list of dict(what=..., input=..., observed=..., signature=...)
        self.proof_breaks = []    # list of dict(what=..., output=...)  (regenerated obligations that no longer check)
        self.evaluations = 0
        self.nontrivial = set()   # hashable digests of distinct non-trivial cases
        self.rule = ""
        self.samples = []
        self.stats = {}
        self.assumptions = []
        self.exhaustive = False
        self.oracle_runs = 0
        self.extra_obligations = 0   # regenerated proof obligations checked on this run (Gen_*.v)
        self.extra_discharged = 0


def main(argv):
    if len(argv) < 3:  # argv[0] is the module path
        print("usage: check <ID> quick|thorough [--replay file]")
        return 2
    pid, tier = argv[1], argv[2]
    replay = argv[argv.index("--replay") + 1] if "--replay" in argv else None
    seed = int(os.environ.get("VERIF_SEED", "20261001"))
    rp = json.load(open(replay)) if replay else None
    if rp is not None and "VERIF_SEED" not in os.environ and str(rp.get("seed", "")).lstrip("-").isdigit():
        seed = int(rp["seed"])        # a replay regenerates the inputs of the run that wrote it
    os.environ["VERIF_TIER_USED"] = tier
    t0 = time.time()
    sys.path.insert(0, C.REPO)
    ctx = Ctx(pid, tier, seed)
    ctx.replay = rp

    dog = C.start_watchdog(pid, tier, seed, 1500 if tier == "quick" else 6 * 3600)
    ok_build, build_out = C.ensure_build()
    thm = C.recheck_theorems(pid) if ok_build else {"obligations": 1, "discharged": 0, "theorems": [], "closed": 0,
                                                    "axioms": [], "ok": False, "output": build_out, "banned": []}
    mod = importlib.import_module(f"harness.{pid.lower()}")
    chk = C.coqchk_summary(pid) if (tier == "thorough" and ok_build and thm["ok"]) else None
    if chk is not None and not chk["ok"]:
        thm["ok"] = False
        thm["discharged"] = 0
        thm["output"] = "coqchk failed: " + chk["summary"]
    hashes = C.source_hashes(getattr(mod, "ANCHORS", []))
    base = C.baseline_hashes(pid)
    changed = sorted(k for k in hashes if base and base.get(k) != hashes[k])
    ctx.escalate = bool(changed)     # changed code is where the defects are: larger correspondence on this run
    res = Result()
    crash = None
    tracer = C.LineTracer(getattr(mod, "ANCHORS", [])) if (tier == "thorough" or os.environ.get("VERIF_TRACE")) else None
    try:
        if tracer:
            with tracer:
                mod.run(ctx, res)
        else:
            mod.run(ctx, res)
    except Exception:  # noqa  -- fail closed: a crashing harness is an alarm, not a pass
        crash = traceback.format_exc()

    # ------------------------------------------------------------ verdict
    known = [f for f in C.known_findings() if f.get("property") == pid]
    lines, n_viol = [], 0
    concrete = []
    for v in res.oracle_violations:
        hit = next((f for f in known if f.get("signature") and f["signature"] == v.get("signature")), None)
        if hit:
            print(f"KNOWN-FINDING: property={pid} {hit.get('what', v.get('what'))}")
        else:
            concrete.append(v)
    broken = []
    for name, cr, tojson in res.corr:
        if cr.bad:
            c0, mtxt = cr.bad[0]
            broken.append({"correspondence": name, "disagreeing_cases": len(cr.bad), "of": cr.n_cases,
                           "first_case": tojson(c0), "model_value_text": mtxt})
        if cr.errors:
            broken.append({"correspondence": name, "coq_errors": cr.errors[:2]})
    for pb in res.proof_breaks:
        broken.append({"proof_obligation": pb})
    if not thm["ok"]:
        broken.append({"theorem_file": f"P{pid}.v", "output": thm["output"], "banned_tokens": thm.get("banned")})
    if crash:
        broken.append({"harness_crash": crash})

    if concrete:
        # group by 'what' so each distinct failure gets one replay
        seen = {}
        for v in concrete:
            seen.setdefault(v.get("what", "violation"), v)
        for what, v in list(seen.items())[:5]:
            path = C.write_replay(pid, seed, {"property": pid, "kind": "failing-input", "violation": v,
                                              "broken_ties": broken[:3], "repo": C.REPO})
            lines.append(f"VIOLATION property={pid} replay={path}")
        n_viol = len(concrete)
    elif broken:
        path = C.write_replay(pid, seed, {"property": pid, "kind": "no-failing-input-found",
                                          "no_longer_checks": broken, "repo": C.REPO,
                                          "note": "the model/theorems no longer describe the code; the oracle search on "
                                                  "the implementation found no input violating the property itself"})
        lines.append(f"VIOLATION property={pid} replay={path} no-failing-input-found")
        n_viol = len(broken)

    # ------------------------------------------------------------ evidence
    n_corr = sum(cr.n_cases for _, cr, _ in res.corr)
    obligations = thm["obligations"] + res.extra_obligations
    discharged = thm["discharged"] + res.extra_discharged
    cov = {
        "obligations": max(obligations, 1),
        "discharged": discharged,
        "checker_cmd": f"make -C coq (coq_makefile, full .vo build) && coqc -Q coq/theories SV coq/theories/P{pid}.v  [Coq 8.16.1 kernel; vm_compute only]",
        "trusted_base": [
            "Coq 8.16.1 kernel and vm_compute (no native_compute)",
            f"Print Assumptions on this run: {thm['closed']} theorem(s) 'Closed under the global context'; axioms reported: {thm['axioms'] or 'none'}",
            "hand-written Gallina model tied to /repo by the correspondence run below (differential test, not a proof)",
            "Python harness: generators, comparers inside Coq (close_x: rel 2^-30 / abs 2^-40), property oracles",
        ] + list(res.assumptions),
        "theorems": thm["theorems"],
        "coqchk": chk["summary"] if chk else "coqchk -o (independent checker) runs in the thorough tier",
        "evaluations": res.evaluations,
        "distinct_nontrivial": len(res.nontrivial),
        "rule": res.rule,
        "samples": res.samples[:6] or [{"note": "no samples (harness crashed)"}],
        "correspondence_cases": n_corr,
        "correspondence_disagreements": sum(len(cr.bad) for _, cr, _ in res.corr),
        "oracle_runs": res.oracle_runs,
        "branch_histogram": res.stats,
        "exhaustive": bool(res.exhaustive),
        "source_hashes": hashes,
        "anchored_functions_changed_since_baseline": changed,
        "unreached_anchored_lines": tracer.report() if tracer else "line tracer runs in the thorough tier (or VERIF_TRACE=1)",
        "repo": C.REPO,
    }
    C.write_evidence(pid, tier, seed, cov,
                     ["IEEE-754 rounding is not modelled (tolerance comparison on dyadic-grid inputs)",
                      "numpy/pandas vector semantics, Python dict/sort semantics are modelled, not verified"]
                     + list(res.assumptions), time.time() - t0, n_viol)
    dog.cancel()
    for ln in lines:
        print(ln)
    print(f"{pid} {tier}: theorems {discharged}/{obligations}, correspondence {n_corr} cases "
          f"({cov['correspondence_disagreements']} disagree), oracle runs {res.oracle_runs}, "
          f"violations {n_viol}, {time.time() - t0:.1f}s")
    return 1 if lines else 0


if __name__ == "__main__":
    sys.exit(main(sys.argv))
