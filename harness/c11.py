"""C11 — reported p-values are well-formed and the overall value matches the history."""
import math

from . import common as C, nnm, genarith

ANCHORS = nnm.ANCHORS


def oracle(case):
    """The property itself, evaluated on the implementation's output for one valid configuration."""
    cfg, xs, o = case["cfg"], case["xs"], case["impl"]
    bad = []
    if o["exc"]:
        return [f"raises {o['exc'].split(':')[0]} on a valid non-empty sample"]
    h, p = o["hist"], o["p"]
    if len(h) != len(xs):
        bad.append("history length differs from sample length")
    if any(math.isnan(v) for v in h) or math.isnan(p):
        bad.append("NaN p-value")
    elif any(v < 0 or v > 1 for v in h) or p < 0 or p > 1:
        bad.append("p-value outside [0,1]")
    elif h:
        uses_min = cfg["kind"].startswith(("alpha", "bet")) or cfg["ro"]
        want = min(h) if uses_min else h[-1]
        if abs(p - want) > 1e-9 * max(abs(want), 1e-300) and abs(p - want) > 1e-300:
            bad.append("overall p-value is not the " + ("smallest history entry" if uses_min else "last history entry"))
    return bad


def run(ctx, res):
    if getattr(ctx, "replay", None):
        nnm.run_replay(ctx, res, oracle)
        return
    genarith.regenerate(ctx.pid, "nnm_masks", res)      # whole-function skeletons + boundary conventions (capping, overrides)
    n = ctx.n(900, 12000)
    cases, cr = nnm.run_corr(ctx.pid, ctx.rng, n, maxlen=ctx.n(12, 14))
    res.corr.append(("NonnegMean.test/estim/bet vs NNM.run_test", cr, nnm.case_json))
    small = nnm.small_exhaustive(maxlen=ctx.n(4, 5))
    if ctx.quick:
        small = ctx.rng.sample(small, 1500)
    else:
        res.exhaustive = True
    sm = [{"cfg": cfg, "xs": xs, "impl": nnm.run_impl(cfg, xs), "tag": "small-exhaustive"} for cfg, xs in small]
    cr2 = C.run_corr(ctx.pid, "nnm_small", nnm.IMPORTS, "nnm_case", [c for c in sm if not nnm.ill_conditioned(c)], nnm.case_lit, "agree_nnm", shard=150, show="show_nnm")
    res.corr.append(("NonnegMean.test vs NNM.run_test on all samples over {0,u/2,u} up to length 4/5", cr2, nnm.case_json))
    cases = cases + sm
    nd = []
    for i in range(ctx.n(600, 8000)):
        cfg, xs = nnm.gen_nondyadic(ctx.rng)
        nd.append({"cfg": cfg, "xs": xs, "impl": nnm.run_impl(cfg, xs, variant=i), "tag": "non-dyadic (oracle only)"})
    res.stats_nd = len(nd)
    lg = nnm.long_cases(ctx.rng, ctx.n(150, 1500))     # 65..3000 draws, integer-typed u, other units (oracle only)
    cases = cases + nd + lg
    res.evaluations += len(cases)
    for c in cases:
        res.oracle_runs += 1
        for what in oracle(c):
            res.oracle_violations.append({"what": f"{c['cfg']['kind']}: {what}", "input": nnm.case_json(c),
                                          "signature": f"C11:{c['cfg']['kind']}:{what}"})
        if len(set(c["xs"])) > 1 or len(c["xs"]) == 1:
            res.nontrivial.add(repr((c["cfg"], c["xs"])))
    res.rule = ("random configurations of all six tests x estimators/bets x finite/infinite N on dyadic grids, samples of "
                "length 1..14 incl. the boundary stream (all-zero, all-u, values equal to t, totals reaching N t, m_j hitting 0 and u); "
                "15% on an instance re-parametrised in place; plus oracle-only streams: non-dyadic values, and long samples (65..3000 draws, "
                "lengths off every block size, integer-typed u, long favourable runs that overflow the product, problems in units of 1e-9..1e6); non-trivial = non-constant sample or length 1, distinct by (cfg, xs)")
    res.samples = [nnm.case_json(c) for c in cases[:4]]
    res.stats = dict(nnm.branch_stats(cases), **nnm.long_stats(lg))
    res.assumptions = ["np.sqrt modelled by any function with 0 < x -> 0 < sqrt x (theorems) / Z.sqrt to 2^-60 (runs)"]
