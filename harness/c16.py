"""C16 — sample-size estimates are first-crossing times on the assumed data.

Correspondence (model SampleSize.v vs the real code):  NonnegMean.sample_size (deterministic branch with non-constant
pilot data; simulation branch with the numpy draws replayed), Assertion.interleave_values, Assertion.make_overstatement,
Assertion.find_sample_size (polling / comparison / ONEAudit, constructed data and given data, with the array handed to
the test spied on), Contest.find_sample_size, Audit.find_sample_size (contest loop), raire.sample_estimator.sample_size.
Oracle (implementation alone): the assertion's own test re-run on the documented hypothetical population built here,
prefix invariance over seeds / reps / quantiles, interleaving counts, contest estimate == max over its assertions."""
import math
import types
import warnings
from fractions import Fraction as F

import numpy as np

from . import common as C, nnm

ANCHORS = [("shangrla/core/NonnegMean.py", ["NonnegMean.sample_size"]),
           ("shangrla/core/Audit.py", ["Assertion.find_sample_size", "Assertion.make_overstatement",
                                       "Assertion.interleave_values", "Contest.find_sample_size",
                                       "Audit.find_sample_size"]),
           ("shangrla/raire/sample_estimator.py", ["sample_size"])]
IMPORTS = "From SV Require Import Run_SampleSize.\nOpen Scope Q_scope."
ERRS = {"IndexError": "EIndex", "ZeroDivisionError": "EZeroDiv", "ValueError": "EValue", "AssertionError": "EAssert",
        "TypeError": "EType", "NotImplementedError": "ENotImpl"}
HEAVY = ("alpha_shrink", "bet_agrapa")
GUARD = 1e-6


def AU():
    import shangrla.core.Audit as A
    return A


# ---------------------------------------------------------------------------------------------- small helpers
LAST_TB = [""]


def call(f):
    """('ok', value) or ('err', exception class name)"""
    try:
        with warnings.catch_warnings():
            warnings.simplefilter("ignore")
            return ("ok", f())
    except Exception as e:  # noqa
        import traceback
        LAST_TB[0] = "".join(traceback.format_exc().splitlines(True)[-7:])
        return ("err", type(e).__name__)


def reslit(out, f):
    return f"(Ok {f(out[1])})" if out[0] == "ok" else f"(Err {ERRS.get(out[1], 'EDomain')})"


def qlist(xs):
    return C.listlit([C.qlit(x) for x in xs])


def fl(xs):
    return np.array([float(v) for v in xs])


def hist_impl(tst, pop):
    with warnings.catch_warnings():
        warnings.simplefilter("ignore")
        return [float(v) for v in np.atleast_1d(tst.test(np.array(pop, dtype=float))[1])]


def first_cross(h, alpha, N):
    for i, p in enumerate(h):
        if p <= alpha:
            return i + 1
    return N


def guard_ok(h, alpha):
    """no entry up to and including the first crossing is within the guard band of alpha (and none is NaN)"""
    for p in h:
        if math.isnan(p) or abs(p - alpha) <= GUARD * max(alpha, 1e-300):
            return False
        if p <= alpha:
            return True
    return True


def new_minima(h):
    """positions j where h[j] is a strict new running minimum, with a margin: (j, h[j], previous minimum)"""
    res, cm = [], math.inf
    for j, p in enumerate(h):
        if math.isnan(p):
            return res
        if p < cm * (1 - 1e-4):
            res.append((j, p, cm))
        cm = min(cm, p)
    return res


def alpha_between(p, cm):
    if math.isinf(cm):
        a = min(max(p * 1.5, p + 0.01), 0.9) if p < 0.9 else p * 1.25
    elif p > 0:
        a = math.sqrt(p * cm)
    else:
        a = cm / 2
    return a


def pick_alpha(rng, hs, mode, lo=0, hi=None):
    """Choose a risk limit for the histories hs (list of lists; the first drives targeting) such that every one is
    outside the guard band.  mode: 'target' (first crossing of hs[0] at a position in [lo, hi)), 'never', 'grid'.
    Returns alpha (float) or None."""
    h = hs[0]
    hi = len(h) if hi is None else hi
    cands = []
    if mode == "target":
        pos = [m for m in new_minima(h) if lo <= m[0] < hi]
        rng.shuffle(pos)
        cands = [alpha_between(p, cm) for (_, p, cm) in pos[:4]]
    elif mode == "never":
        mn = min([p for p in h if not math.isnan(p)] or [1.0])
        cands = [mn / 2] if mn > 0 else []
    grid = [0.05, 0.1, 0.01, 0.25, 0.5, 0.2, 0.001, 0.75]
    rng.shuffle(grid)
    for a in cands + grid:
        if 0 < a and all(guard_ok(hh, a) for hh in hs):
            return float(a)
    return None


def gen_params(rng, kind, t, u):
    """the parameter choices of nnm.gen_cfg for a dictated t and u (values are made exact doubles afterwards)"""
    p = {}
    if kind in ("alpha_fixed", "sprt"):
        p["eta"] = t + (u - t) * F(rng.randint(1, 8), 8)
    elif kind == "alpha_shrink":
        p["eta"] = t + (u - t) * F(rng.randint(1, 8), 8)
        p["c"] = rng.choice([F(1, 2), F(1, 4), F(1), F(1, 16)])
        p["d"] = rng.choice([F(100), F(10), F(1), F(1, 2), F(3)])
        p["f"] = rng.choice([F(0), F(0), F(1, 2), F(2), F(1, 8)])
        p["minsd"] = rng.choice([F(1, 2 ** 20), F(1, 8), F(1, 1024)])
    elif kind == "alpha_optcomp":
        p["rate_error_2"] = rng.choice([C.frac(1e-4), F(1, 64), F(0), F(1, 4), F(1, 1024), F(1, 8)])
    elif kind == "bet_fixed":
        p["lam"] = F(math.floor(F(rng.randint(0, 16), 16) / u * 64), 64)
    elif kind == "bet_agrapa":
        p["lam"] = F(rng.randint(0, 32), 16)
        c0, cm = rng.choice([(F(1, 2), F(3, 4)), (F(7, 8), F(7, 8)), (F(1, 4), F(15, 16))])
        p["c_grapa_0"], p["c_grapa_max"] = c0, cm
        p["c_grapa_grow"] = rng.choice([F(0), F(0), F(1), F(1, 2)])
    elif kind in ("kk", "km", "kw"):
        p["g"] = rng.choice([F(0), F(1, 8), F(1, 2), F(1, 64)])
    return p


def exact(cfg):
    """make every number in the configuration the exact value of the double the implementation receives"""
    cfg["t"], cfg["u"] = C.frac(float(cfg["t"])), C.frac(float(cfg["u"]))
    cfg["p"] = {k: C.frac(float(v)) for k, v in cfg["p"].items()}
    return cfg


def cfg_for(rng, N, t, u, kind=None):
    kind = kind or rng.choice(nnm.KINDS)
    if kind == "alpha_optcomp" and u == 1:
        kind = "alpha_fixed"
    ro = True if kind not in ("kk", "km", "kw") else rng.random() < 0.6
    return exact({"kind": kind, "N": N, "t": t, "u": u, "ro": ro, "p": gen_params(rng, kind, t, u)})


def nonconstant_xs(rng, cfg, L):
    xs = None
    for _ in range(6):
        c2 = dict(cfg, N=max(L, 1))
        xs = nnm.gen_xs(rng, c2, n=L, maxlen=L)
        if len(set(xs)) > 1 or L == 1 or rng.random() < 0.08:
            break
    return xs


# ---------------------------------------------------------------------------------------------- NonnegMean.sample_size
def ss_lit(c):
    return (f"mkss {nnm.cfg_lit(c['cfg'])} {C.qlit(c['alpha'])} {qlist(c['xs'])} {C.optlit(c['reps'], C.natlit)} "
            f"{C.blit(c['prefix'])} {C.qlit(c['q'])} {C.listlit([qlist(d) for d in c['draws']])} "
            f"{reslit(c['out'], C.natlit)}")


def ss_json(c):
    return {k: C.jsonable(v) for k, v in c.items()}


def gen_det(ctx, st):
    """deterministic branch: non-constant pilot data, |x| dividing N or not, crossing early / in the final partial copy /
    never; the risk limit is placed between two attained p-values (guard band) so rounding cannot flip p <= alpha."""
    rng = ctx.rng
    kind = rng.choice(nnm.KINDS)
    cfg = nnm.gen_cfg(rng, kind=kind, finite=True)
    N = rng.randint(2, 14) if rng.random() < 0.35 else rng.randint(10, 24 if kind in HEAVY else 40)
    cfg["N"] = N
    exact(cfg)
    shape = rng.choice(["divides", "not", "not", "not", "eqN", "longer", "one"])
    if shape == "divides":
        L = rng.choice([d for d in range(1, N) if N % d == 0 and d <= 14] or [1])
    elif shape == "not":
        L = rng.choice([d for d in range(2, min(N, 15)) if N % d] or [N])
    elif shape == "eqN":
        L = N
    elif shape == "longer":
        L = N + rng.randint(1, 4)
    else:
        L = 1
    xs = nonconstant_xs(rng, cfg, min(L, N))
    if L > N:
        xs = xs + nnm.gen_xs(rng, cfg, n=L - N, maxlen=L - N)[:L - N]
        xs = xs + [xs[0]] * (L - len(xs))
    L = len(xs)
    pop = np.tile(fl(xs), math.ceil(N / L))[0:N]          # the documented population, built here
    try:
        h = hist_impl(nnm.build(cfg), pop)
    except Exception:  # noqa
        st["test raised on the population (skipped)"] = st.get("test raised on the population (skipped)", 0) + 1
        return None
    full = L * (N // L)
    want = rng.choice(["early", "final", "final", "mid", "never", "grid"])
    if full < N and L <= N and rng.random() < 0.45:
        want = "final"
    if want == "final" and full < N and L <= N:
        alpha = pick_alpha(rng, [h], "target", full, N)
    elif want == "early":
        alpha = pick_alpha(rng, [h], "target", 0, min(L, N))
    elif want == "mid":
        alpha = pick_alpha(rng, [h], "target", min(L, N), N)
    elif want == "never":
        alpha = pick_alpha(rng, [h], "never")
    else:
        alpha = pick_alpha(rng, [h], "grid")
    if alpha is None:
        st["no risk limit outside the guard band (regenerated)"] = st.get("no risk limit outside the guard band (regenerated)", 0) + 1
        return None
    how = rng.choice(["array", "list", "reused"])
    tst = nnm.build(cfg)
    if how == "reused":       # the same instance, used before on other data
        call(lambda: tst.sample_size(fl(xs[::-1]), alpha=0.3))
    arg = [float(v) for v in xs] if how == "list" else fl(xs)
    pf = rng.random() < 0.3        # prefix / quantile / seed are documented as unused when reps is None
    if pf:
        out = call(lambda: int(tst.sample_size(arg, alpha=alpha, reps=None, prefix=True, quantile=rng.random(), seed=rng.randint(0, 99))))
    else:
        out = call(lambda: int(tst.sample_size(arg, alpha=alpha)))
    exp = first_cross(h, alpha, N)
    where = ("never" if not any(p <= alpha for p in h) else
             "first copy" if exp <= min(L, N) else "final partial copy" if exp > full else "later full copy")
    return {"cfg": cfg, "alpha": C.frac(alpha), "xs": xs, "reps": None, "prefix": pf, "q": F(1, 2), "draws": [],
            "out": out, "expected": exp, "where": where, "divides": N % L == 0, "how": how}


def gen_exact(ctx, st):
    """risk limit EQUAL to an attained p-value (the property says `at most`): Kaplan-Markov with g = 0, t = 1/2 and data in
    {1/4, 1/2, 1}, so every history entry is a power of two, exact in doubles and in Q"""
    rng = ctx.rng
    N = rng.randint(3, 30)
    L = rng.randint(2, min(N, 7))
    xs = [rng.choice([F(1), F(1), F(1, 2), F(1, 4)]) for _ in range(L)]
    cfg = {"kind": "km", "N": N, "t": F(1, 2), "u": F(1), "ro": True, "p": {"g": F(0)}}
    pop = np.tile(fl(xs), math.ceil(N / L))[0:N]
    h = hist_impl(nnm.build(cfg), pop)
    alpha = rng.choice(h)
    if not (0 < alpha < 1):
        return None
    out = call(lambda: int(nnm.build(cfg).sample_size(fl(xs), alpha=alpha)))
    exp = first_cross(h, alpha, N)
    full = L * (N // L)
    where = "first copy" if exp <= L else "final partial copy" if exp > full else "later full copy"
    return {"cfg": cfg, "alpha": C.frac(alpha), "xs": xs, "reps": None, "prefix": False, "q": F(1, 2), "draws": [],
            "out": out, "expected": exp, "where": where + " (p == alpha exactly)", "divides": N % L == 0, "how": "array"}


def replay_draws(xs, seed, reps, ran_len):
    prng = np.random.RandomState(seed)
    return [[C.frac(v) for v in prng.choice(fl(xs), size=ran_len, replace=True)] for _ in range(reps)]


def gen_sim(ctx, st, crossing):
    """simulation branch.  crossing=True: the prefix's own history (with the unclamped entry at |x|) crosses at k, so
    every seed / reps / quantile must give k.  crossing=False: general case, dyadic quantile, draws replayed."""
    rng = ctx.rng
    kind = rng.choice(nnm.KINDS)
    cfg = nnm.gen_cfg(rng, kind=kind, finite=True)
    N = rng.randint(3, 12)
    cfg["N"] = N
    exact(cfg)
    prefix = True if crossing else rng.random() < 0.5
    L = (N if rng.random() < 0.12 else rng.randint(2, N - 1)) if prefix else rng.randint(1, 6)
    xs = nonconstant_xs(rng, cfg, L)
    L = len(xs)
    tst = nnm.build(cfg)
    seed = rng.choice([1234567890, 0, 1, rng.randint(0, 2 ** 32 - 1), rng.randint(0, 2 ** 32 - 1)])
    reps = rng.randint(1, 6)
    ran_len = N - L if prefix else N
    try:
        draws = replay_draws(xs, seed, reps, ran_len)
        hs = [hist_impl(tst, [float(v) for v in (xs if prefix else [])] + [float(v) for v in d]) for d in draws]
        if crossing:
            hp = hist_impl(tst, fl(xs)) if L == N else hist_impl(tst, [float(v) for v in xs] + [float(xs[0])])[:L]
    except Exception:  # noqa
        st["test raised on the population (skipped)"] = st.get("test raised on the population (skipped)", 0) + 1
        return None
    if crossing:
        alpha = pick_alpha(rng, [hp] + hs, "target", 0, L)
        if alpha is None or not any(p <= alpha for p in hp):
            return None
        q = rng.choice([0.0, 1.0, 0.5, 0.9, 0.99, rng.random(), rng.random()])
        k = first_cross(hp, alpha, N)
    else:
        alpha = pick_alpha(rng, hs, rng.choice(["target", "grid", "grid"]))
        if alpha is None:
            return None
        q = rng.choice([0.0, 0.25, 0.5, 0.5, 0.75, 1.0])
        k = None
    out = call(lambda: int(nnm.build(cfg).sample_size(fl(xs), alpha=alpha, reps=reps, prefix=prefix, quantile=q, seed=seed)))
    return {"cfg": cfg, "alpha": C.frac(alpha), "xs": xs, "reps": reps, "prefix": prefix, "q": C.frac(q), "draws": draws,
            "out": out, "seed": seed, "k": k}


def oracle_prefix(ctx, res, c, n_variants):
    """prefix invariance on the implementation: other seeds, repetition counts and quantiles give the same k"""
    rng = ctx.rng
    k = c["k"]
    outs = [("given", c["seed"], c["reps"], float(c["q"]), c["out"])]
    for _ in range(n_variants):
        seed, reps, q = rng.randint(0, 2 ** 32 - 1), rng.choice([1, 2, 3, 7, 20]), rng.choice([0.0, 1.0, 0.5, 0.1, 0.9, rng.random()])
        o = call(lambda: int(nnm.build(c["cfg"]).sample_size(fl(c["xs"]), alpha=float(c["alpha"]), reps=reps, prefix=True,
                                                             quantile=q, seed=seed)))
        outs.append(("variant", seed, reps, q, o))
    res.oracle_runs += len(outs)
    for (_, seed, reps, q, o) in outs:
        if o != ("ok", k):
            res.oracle_violations.append({
                "what": "simulation-based estimate with a prefix that already crosses the risk limit at k is not k",
                "input": {"cfg": C.jsonable(c["cfg"]), "x": C.jsonable(c["xs"]), "alpha": float(c["alpha"]), "seed": seed,
                          "reps": reps, "quantile": q, "prefix": True, "k": k},
                "observed": C.jsonable(o), "signature": "C16:prefix-invariance"})
            break


# ---------------------------------------------------------------------------------------------- interleave_values
def interleave_doc(ns, nm, nb, small, med, big):
    """the documented interleaving, restated with exact fractions: start with a small value if there is one (else a
    medium, else a big one); afterwards always take the kind with the largest fraction still to be placed"""
    tot = {"s": ns, "m": nm, "b": nb}
    rem = dict(tot)
    val = {"s": small, "m": med, "b": big}
    out = []
    for i in range(ns + nm + nb):
        r = {k: (F(rem[k], tot[k]) if tot[k] else F(0)) for k in tot}
        if i == 0:
            k = "s" if ns else ("m" if nm else "b")
        elif r["s"] > r["b"]:
            k = "m" if r["m"] > r["s"] else "s"
        elif r["m"] > r["b"]:
            k = "m"
        else:
            k = "b"
        out.append(val[k])
        rem[k] -= 1
    return out


def inter_lit(c):
    ns, nm, nb, vals = c["n"][0], c["n"][1], c["n"][2], c["vals"]
    return (f"({C.natlit(ns)}, {C.natlit(nm)}, {C.natlit(nb)}, {C.qlit(vals[0])}, {C.qlit(vals[1])}, {C.qlit(vals[2])}, "
            f"{reslit(c['out'], qlist)})")


def run_interleave(ctx, res):
    rng = ctx.rng
    A = AU()
    triples = [(a, b, c) for a in range(5) for b in range(5) for c in range(5)]       # exhaustive small domain
    for _ in range(ctx.n(60, 600)):
        style = rng.random()
        if style < 0.3:
            t = (rng.randint(0, 30), rng.randint(0, 30), 0)
        elif style < 0.5:
            t = tuple(rng.choice([0, 0, 1, rng.randint(2, 40)]) for _ in range(3))
        else:
            t = (rng.randint(0, 25), rng.randint(0, 25), rng.randint(0, 25))
        triples.append(t)
    cases = []
    for k, (ns, nm, nb) in enumerate(triples):
        if k < 125 or rng.random() < 0.5:
            vals = (F(0), F(1, 2), F(1))
            out = call(lambda: [float(v) for v in A.Assertion.interleave_values(ns, nm, nb)]) if rng.random() < 0.5 else \
                call(lambda: [float(v) for v in A.Assertion.interleave_values(ns, nm, nb, small=0, med=1 / 2, big=1)])
        else:
            vals = tuple(sorted(C.frac(rng.choice([0.0, 0.25, 0.5, 1.0, 1.5, 1 / 1.9, 0.5 / 1.9, rng.random()])) for _ in range(3)))
            out = call(lambda: [float(v) for v in A.Assertion.interleave_values(ns, nm, nb, small=float(vals[0]),
                                                                                med=float(vals[1]), big=float(vals[2]))])
        if out[0] == "ok":
            out = ("ok", [C.frac(v) for v in out[1]])
        c = {"n": (ns, nm, nb), "vals": vals, "out": out}
        cases.append(c)
        # oracle: exactly the requested number of each value and length N (the order is pinned by the model only)
        res.oracle_runs += 1
        N = ns + nm + nb
        bad = None
        if N >= 1:
            if out[0] != "ok":
                bad = f"raises {out[1]}"
            else:
                x = out[1]
                if len(x) != N:
                    bad = f"length {len(x)} instead of {N}"
                elif len(set(vals)) == 3 and [x.count(v) for v in vals] != [ns, nm, nb]:
                    bad = f"counts {[x.count(v) for v in vals]} instead of {[ns, nm, nb]}"
        if bad:
            res.oracle_violations.append({"what": "interleave_values does not return the requested number of each value: " + bad.split(" ")[0],
                                          "input": {"n_small": ns, "n_med": nm, "n_big": nb, "values": C.jsonable(vals)},
                                          "observed": bad, "signature": "C16:interleave"})
        if N >= 2 and sum(1 for v in (ns, nm, nb) if v) >= 2:
            res.nontrivial.add(("inter", ns, nm, nb, vals))
    cr = C.run_corr(ctx.pid, "inter", IMPORTS, "nat * nat * nat * Q * Q * Q * res (list Q)", cases, inter_lit,
                    "agree_inter", shard=120, show="show_inter")
    res.corr.append(("Assertion.interleave_values vs SampleSize.interleave_values (all triples <= 4 and random larger)", cr,
                     lambda c: {k: C.jsonable(v) for k, v in c.items()}))
    res.evaluations += len(cases)
    res.stats["interleave triples (125 exhaustive)"] = len(cases)
    res.stats["interleave with n_big = 0"] = sum(1 for c in cases if c["n"][2] == 0)


def run_overstatement(ctx, res):
    rng = ctx.rng
    A = AU()
    cases = []
    for _ in range(ctx.n(60, 600)):
        ub = rng.choice([F(1), F(1), F(2), F(3, 2), F(5, 4), F(1, 2)])
        m = F(rng.randint(-4, int(16 * ub)), 16)
        o = rng.choice([F(0), F(1, 2), F(1), F(1, 4), ub / 2, ub, F(rng.randint(0, 32), 16)])
        con = A.Contest(id="c", audit_type=A.Audit.AUDIT_TYPE.CARD_COMPARISON)
        a = A.Assertion(contest=con, assorter=A.Assorter(contest=con, assort=lambda c: 0.5, upper_bound=float(ub)),
                        margin=float(m))
        if m == 2 * ub:
            continue
        out = call(lambda: float(a.make_overstatement(overs=float(o)) if rng.random() < 0.5 else a.make_overstatement(float(o), use_style=True)))
        if out[0] != "ok":
            continue
        cases.append({"ub": ub, "m": m, "o": o, "v": out[1]})
        res.oracle_runs += 1
        want = (1 - o / ub) / (2 - m / ub)
        if abs(out[1] - float(want)) > 1e-12 * max(1, abs(float(want))):
            res.oracle_violations.append({"what": "make_overstatement is not (1 - overs/u)/(2 - v/u)",
                                          "input": {"upper_bound": str(ub), "margin": str(m), "overs": str(o)},
                                          "observed": out[1], "signature": "C16:make_overstatement"})
    cr = C.run_corr(ctx.pid, "over", IMPORTS, "Q * Q * Q * Xq", cases,
                    lambda c: f"({C.qlit(c['ub'])}, {C.qlit(c['m'])}, {C.qlit(c['o'])}, {C.xlit(c['v'])})", "agree_over", shard=300)
    res.corr.append(("Assertion.make_overstatement vs SampleSize.make_overstatement", cr,
                     lambda c: {k: C.jsonable(v) for k, v in c.items()}))
    res.evaluations += len(cases)


# ---------------------------------------------------------------------------------------------- assertions
TYPES = {"POLLING": "Polling", "CARD_COMPARISON": "Comparison", "ONEAUDIT": "OneAudit"}
RATES = [None, None, 0, 0.0, F(1, 2), F(1, 4), F(1, 8), F(3, 8), F(1, 16), F(5, 16), F(1), F(1, 3), F(3, 32)]


def gen_spec(rng, typ=None, N=None, clean=False):
    """one assertion: audit type, upper bound, margin, test configuration, tally"""
    typ = typ or rng.choice(["POLLING", "CARD_COMPARISON", "CARD_COMPARISON", "ONEAUDIT"])
    N = N or rng.randint(2, 30)
    ub = rng.choice([F(1), F(1), F(1), F(2), F(3, 2), F(5, 4)])
    m = F(rng.randint(1, 16), 16) * min(ub, 1)
    margin_state = "set"
    irv = False
    if not clean:
        z = rng.random()
        if z < 0.04:
            m, margin_state = None, "none"
        elif z < 0.08:
            m, margin_state = rng.choice([F(0), F(-1, 8)]), "nonpositive"
        irv = typ == "POLLING" and rng.random() < 0.05
    if typ == "POLLING":
        u, set_u = ub, True
    else:
        set_u = m is not None and m > 0 and (clean or rng.random() < 0.75)   # test.u set as set_margin_from_cvrs does
        u = C.frac(2 / (2 - float(m) / float(ub))) if set_u else F(1)
    kind = rng.choice(nnm.KINDS)
    if N > 14 and kind in HEAVY:
        kind = rng.choice(["alpha_fixed", "bet_fixed", "alpha_optcomp", "kk"])
    cfg = cfg_for(rng, N, F(1, 2), u, kind)
    tally = None
    if typ == "POLLING":
        z = rng.random()
        if z < 0.05 and not clean:
            tally = rng.choice(["none", "empty"])
        else:
            nb = rng.randint(0, N)
            n0 = rng.randint(0, N - nb)
            if rng.random() < 0.1:
                nb = 0
            tally = (n0, nb)
    return {"typ": typ, "irv": irv, "N": N, "ub": ub, "m": m, "cfg": cfg, "tally": tally, "set_u": set_u,
            "margin_state": margin_state}


def other_votes(N, t):
    """votes for the third candidate: every remaining card, or (every other tally) only half of them — the rest are
    under-votes, cards that appear in no candidate's tally; the cards without a vote for winner or loser are N - n0 - nb
    either way"""
    rest = N - t[0] - t[1]
    return rest if (t[0] + t[1]) % 2 == 0 else rest // 2


def build_asn(spec, alpha, con=None):
    A = AU()
    if con is None:
        t = spec["tally"]
        tally = None if t in (None, "none") else ({} if t == "empty" else {"W": t[1], "L": t[0], "O": other_votes(spec["N"], t)})
        con = A.Contest(id="c", name="c", risk_limit=float(alpha), cards=spec["N"],
                        choice_function=(A.Contest.SOCIAL_CHOICE_FUNCTION.IRV if spec["irv"] else A.Contest.SOCIAL_CHOICE_FUNCTION.PLURALITY),
                        n_winners=1, candidates=["W", "L", "O"], winner=["W"], audit_type=spec["typ"], tally=tally, use_style=False)
    a = A.Assertion(contest=con, assorter=A.Assorter(contest=con, assort=lambda c: 0.5, upper_bound=float(spec["ub"])),
                    winner="W", loser="L", margin=(None if spec["m"] is None else float(spec["m"])), test=nnm.build(spec["cfg"]))
    return a


def tie_risk(pop_exact, cfg):
    """True when, in exact arithmetic, a running total of the population equals the null total N t (so the null
    conditional mean is exactly 0 there, or the grand total sits exactly on the `Stot > N t` threshold): with
    non-dyadic values the doubles land on one side of it.  Such cases are regenerated and counted."""
    N, t = cfg["N"], cfg["t"]
    if all(F(x).denominator & (F(x).denominator - 1) == 0 for x in pop_exact):
        return False                      # dyadic values: the doubles are exact, no risk
    g = cfg["p"].get("g", F(0)) if cfg["kind"] == "kk" else F(0)
    S = F(0)
    for j, x in enumerate(pop_exact[:N], 1):
        S += F(x)
        if S + j * g == N * (t + g):
            return True
    return False


def doc_population(spec, r1, r2, exact=False):
    """the hypothetical population the documentation describes, built here without the implementation.
    Returns a list of floats, or None when the documented construction is undefined (an exception is expected).
    exact=True: the same layout in exact fractions (only used to detect exact ties, see tie_risk)."""
    N, ub, m = spec["N"], (spec["ub"] if exact else float(spec["ub"])), spec["m"]
    if m is None or m <= 0:
        return None
    v = F(m) if exact else float(m)
    if spec["typ"] == "POLLING":
        if spec["irv"] or not isinstance(spec["tally"], tuple):
            return None
        n0, nb = spec["tally"]
        if exact:
            return interleave_doc(n0, N - n0 - nb, nb, F(0), F(1, 2), F(ub))
        # "the reported tallies interleaved": the public interleave_values defines the order (its counts are checked
        # separately); the restatement above is used only if it raises
        try:
            return [float(z) for z in AU().Assertion.interleave_values(n0, N - n0 - nb, nb, big=ub)]
        except Exception:  # noqa
            return [float(z) for z in interleave_doc(n0, N - n0 - nb, nb, 0.0, 0.5, ub)]
    big = (1 - 0 / ub) / (2 - v / ub)            # overstatement assorter of an error-free card
    small = (1 - (F(1, 2) if exact else 0.5) / ub) / (2 - v / ub)        # one-vote overstatement
    r1e = float(r1) if r1 is not None else (1 - float(v)) / 2
    r2e = float(r2) if r2 is not None else 0.0
    k1 = int(1 / r1e) if r1e else None
    k2 = int(1 / r2e) if r2e else None
    if k1 == 0 or k2 == 0:
        return None
    x = []
    for i in range(N):
        if k2 and k2 > 0 and i % k2 == 0:
            x.append(F(0) if exact else 0.0)     # two-vote overstatement
        elif k1 and k1 > 0 and i % k1 == 0:
            x.append(small)
        else:
            x.append(big)
    return x


def asn_lit(spec, alpha):
    t = spec["tally"]
    tl = f"(Some ({C.natlit(t[0])}, {C.natlit(t[1])}))" if isinstance(t, tuple) else "None"
    return (f"(mkasn {TYPES[spec['typ']]} {C.blit(spec['irv'])} {nnm.cfg_lit(spec['cfg'])} {C.qlit(alpha)} "
            f"{C.optlit(spec['m'], C.qlit)} {C.qlit(spec['ub'])} {tl})")


def rate_lit(r):
    return C.optlit(None if r is None else C.frac(float(r)), C.qlit)


def ac_lit(c):
    return (f"mkac {asn_lit(c['spec'], c['alpha'])} {C.optlit(c['data'], qlist)} {rate_lit(c['r1'])} {rate_lit(c['r2'])} "
            f"{C.optlit(c['reps'], C.natlit)} {C.blit(c['prefix'])} {C.qlit(c['q'])} {C.listlit([qlist(d) for d in c['draws']])} "
            f"{C.optlit(c['x'], qlist)} {reslit(c['out'], C.natlit)}")


def ac_json(c):
    return {k: C.jsonable(v) for k, v in c.items()}


def spy_on(tst, rec):
    orig = tst.sample_size

    def spy(x, *a, **k):
        rec.append(np.array(x, dtype=float).copy())
        return orig(x, *a, **k)
    tst.sample_size = spy


def run_one_asn(ctx, res, st, spec, r1, r2, data=None, sim=None):
    """Runs Assertion.find_sample_size once; returns the correspondence case (or None) and applies the oracle."""
    rng = ctx.rng
    N = spec["N"]
    r1m = None if r1 == "omit" else r1
    r2m = None if r2 == "omit" else r2
    doc = [float(v) for v in data] if data is not None else doc_population(spec, r1m, r2m)
    if data is not None and (spec["m"] is None or spec["m"] <= 0):
        doc = None
    alpha, exp, reps, prefix, q, seed, draws = None, None, None, rng.random() < 0.3, 0.5, 1234567890, []
    if doc is not None and data is None and tie_risk(doc_population(spec, r1m, r2m, exact=True), spec["cfg"]):
        st["exact tie of a running total with N t (regenerated)"] = st.get("exact tie of a running total with N t (regenerated)", 0) + 1
        return None
    if doc is not None:
        try:
            tst = nnm.build(spec["cfg"])
            L = len(doc)
            pop = np.tile(np.array(doc), math.ceil(N / L))[0:N]
            if sim:      # given data as a prefix that already crosses
                reps, prefix, seed = rng.randint(1, 5), True, rng.randint(0, 2 ** 32 - 1)
                q = rng.choice([0.0, 1.0, 0.5, 0.9, rng.random()])
                draws = replay_draws(doc, seed, reps, N - L)
                hp = hist_impl(tst, doc + [doc[0]])[:L]
                hs = [hist_impl(tst, doc + [float(v) for v in d]) for d in draws]
                alpha = pick_alpha(rng, [hp] + hs, "target", 0, L)
                if alpha is None or not any(p <= alpha for p in hp):
                    return None
                exp = first_cross(hp, alpha, N)
            else:
                h = hist_impl(tst, pop)
                alpha = pick_alpha(rng, [h], rng.choice(["target", "target", "never", "grid"]))
                if alpha is None:
                    st["no risk limit outside the guard band (regenerated)"] = st.get("no risk limit outside the guard band (regenerated)", 0) + 1
                    return None
                exp = first_cross(h, alpha, N)
        except Exception:  # noqa
            st["test raised on the population (skipped)"] = st.get("test raised on the population (skipped)", 0) + 1
            return None
    if alpha is None:
        alpha = rng.choice([0.05, 0.1, 0.25])
    a = build_asn(spec, alpha)
    rec = []
    spy_on(a.test, rec)
    kw = {}
    if r1 != "omit":
        kw["rate_1"] = None if r1 is None else (r1 if isinstance(r1, (int, float)) else float(r1))
    if r2 != "omit":
        kw["rate_2"] = None if r2 is None else (r2 if isinstance(r2, (int, float)) else float(r2))
    if reps is not None:
        kw.update(reps=reps, quantile=q, seed=seed)
    out = call(lambda: int(a.find_sample_size(data=(None if data is None else fl(data)), prefix=prefix, **kw)))
    x = [C.frac(v) for v in rec[0]] if rec and data is None else None
    case = {"spec": spec, "alpha": C.frac(alpha), "data": data, "r1": r1m, "r2": r2m, "reps": reps, "prefix": prefix,
            "q": C.frac(q), "draws": draws, "x": x, "out": out, "seed": seed}
    # ---- oracle on the implementation alone
    res.oracle_runs += 1
    tname = {"POLLING": "polling", "CARD_COMPARISON": "comparison", "ONEAUDIT": "ONEAudit"}[spec["typ"]]
    inp = {"audit_type": spec["typ"], "N": N, "upper_bound": str(spec["ub"]), "margin": str(spec["m"]),
           "test": C.jsonable(spec["cfg"]), "tally(loser,winner)": C.jsonable(spec["tally"]), "rate_1": C.jsonable(r1m),
           "rate_2": C.jsonable(r2m), "data": C.jsonable(data), "risk_limit": alpha, "reps": reps, "seed": seed, "quantile": q}
    if doc is not None:
        bad = None
        if out[0] != "ok":
            bad = f"raises {out[1]}"
        elif data is None and rec and (len(rec[0]) != len(doc) or not np.allclose(rec[0], doc, rtol=1e-12, atol=1e-15)):
            bad = "the hypothetical population handed to the test is not the documented one"
        elif out[1] != exp:
            bad = f"estimate {out[1]} is not the first crossing {exp} of the test on the documented population"
        elif getattr(a, "sample_size", None) != out[1]:
            bad = "sample_size attribute not set to the estimate"
        if bad:
            res.oracle_violations.append({"what": f"find_sample_size ({tname}{', data given' if data is not None else ''}): " +
                                                  (bad if bad.startswith(("raises", "the hyp", "sample_size")) else "estimate is not the first crossing on the documented population"),
                                          "input": inp, "observed": bad, "signature": f"C16:asn:{tname}"})
    return case


def run_assertions(ctx, res, st):
    rng = ctx.rng
    cases = []
    n = ctx.n(290, 4000)
    tries = 0
    while len(cases) < n and tries < 4 * n:
        tries += 1
        z = rng.random()
        if z < 0.72:         # constructed data
            spec = gen_spec(rng)
            r1 = rng.choice(RATES + ["omit", 2])
            r2 = rng.choice(RATES + ["omit", "omit"])
            c = run_one_asn(ctx, res, st, spec, r1, r2)
        elif z < 0.9:        # pilot data given: tiled
            spec = gen_spec(rng, clean=rng.random() < 0.9)
            L = rng.choice([d for d in range(2, min(spec["N"], 12) + 1)])
            data = nonconstant_xs(rng, spec["cfg"], L)
            c = run_one_asn(ctx, res, st, spec, rng.choice(RATES), rng.choice(RATES), data=data)
        else:                # data given as a crossing prefix, simulation
            spec = gen_spec(rng, N=rng.randint(4, 12), clean=True)
            L = rng.randint(2, spec["N"] - 1)
            data = nonconstant_xs(rng, spec["cfg"], L)
            c = run_one_asn(ctx, res, st, spec, None, None, data=data, sim=True)
        if c is None:
            continue
        cases.append(c)
        s = c["spec"]
        key = f"asn {s['typ']}" + ("/data" if c["data"] is not None else "") + ("/sim" if c["reps"] else "")
        st[key] = st.get(key, 0) + 1
        if c["data"] is None and s["typ"] != "POLLING":
            for nm, r in (("rate_1", c["r1"]), ("rate_2", c["r2"])):
                kk = f"{nm} " + ("None" if r is None else "0" if r == 0 else "positive")
                st[kk] = st.get(kk, 0) + 1
            st["test.u " + ("set from margin" if s["set_u"] else "left at 1")] = st.get("test.u " + ("set from margin" if s["set_u"] else "left at 1"), 0) + 1
        if c["out"][0] == "err":
            st["asn raises " + c["out"][1]] = st.get("asn raises " + c["out"][1], 0) + 1
        if c["out"][0] == "ok" and c["x"] is not None and len(set(c["x"])) > 1:
            res.nontrivial.add(("asn", repr(c["spec"]), repr(c["r1"]), repr(c["r2"])))
        elif c["data"] is not None and len(set(c["data"])) > 1:
            res.nontrivial.add(("asn", repr(c["spec"]), repr(c["data"])))
    cr = C.run_corr(ctx.pid, "asn", IMPORTS, "asn_case", cases, ac_lit, "agree_asn", shard=25, show="show_asn")
    res.corr.append(("Assertion.find_sample_size (+ the array it hands to the test) vs SampleSize.asn_find / asn_population", cr, ac_json))
    res.evaluations += len(cases)
    return cases


# ---------------------------------------------------------------------------------------------- contests, audit
def contest_lit(c):
    asns = C.listlit([f"({asn_lit(s, c['alpha'])}, {C.optlit(d, qlist)})" for s, d in zip(c["specs"], c["datas"])])
    return f"({asns}, {rate_lit(c['r1'])}, {rate_lit(c['r2'])}, {reslit(c['out'], C.natlit)})"


def gen_contest(ctx, res, st, with_data):
    rng = ctx.rng
    A = AU()
    typ = rng.choice(["POLLING", "CARD_COMPARISON", "CARD_COMPARISON"] + (["ONEAUDIT", "ONEAUDIT"] if with_data else []))
    N = rng.randint(3, 24)
    k = rng.randint(1, 4)
    specs = [gen_spec(rng, typ=typ, N=N, clean=True) for _ in range(k)]
    for s in specs[1:]:
        s["tally"] = specs[0]["tally"]
    r1, r2 = rng.choice(RATES), rng.choice(RATES)
    datas = [None] * k
    if with_data:     # what mvrs_to_data would deliver for each assertion: non-constant pilot values
        datas = [nonconstant_xs(rng, s["cfg"], rng.randint(2, min(N, 10))) for s in specs]
    docs = [[float(v) for v in d] if d is not None else doc_population(s, r1, r2) for s, d in zip(specs, datas)]
    if any(d is None for d in docs):
        return None
    if any(d is None and tie_risk(doc_population(s, r1, r2, exact=True), s["cfg"]) for s, d in zip(specs, datas)):
        st["exact tie of a running total with N t (regenerated)"] = st.get("exact tie of a running total with N t (regenerated)", 0) + 1
        return None
    try:
        hs = [hist_impl(nnm.build(s["cfg"]), np.tile(np.array(d), math.ceil(N / len(d)))[0:N]) for s, d in zip(specs, docs)]
    except Exception:  # noqa
        return None
    order = list(range(k))
    rng.shuffle(order)
    alpha = pick_alpha(rng, [hs[i] for i in order], rng.choice(["target", "target", "grid"]))
    if alpha is None:
        return None
    exps = [first_cross(h, alpha, N) for h in hs]
    a0 = build_asn(specs[0], alpha)
    con = a0.contest
    asns = {"a0": a0}
    for i, s in enumerate(specs[1:], 1):
        asns[f"a{i}"] = build_asn(s, alpha, con=con)
    con.assertions = asns
    audit = A.Audit(error_rate_1=(None if r1 is None else (r1 if isinstance(r1, (int, float)) else float(r1))),
                    error_rate_2=(None if r2 is None else (r2 if isinstance(r2, (int, float)) else float(r2))),
                    reps=None, quantile=0.5, sim_seed=7)
    if with_data:
        # feed each assertion its data through mvrs_to_data, as Contest.find_sample_size does
        table = {id(a): fl(d) for a, d in zip(asns.values(), datas)}
        for a in asns.values():
            a.mvrs_to_data = types.MethodType(lambda self, m, c, use_all=False, _t=table: (_t[id(self)], self.test.u), a)
    one_cvrs = with_data and typ == "ONEAUDIT" and rng.random() < 0.7   # no MVRs yet: ONEAudit derives data from the CVRs

    def audit_loop_state(force_largest):
        """put the assertions in a state the audit loop produces: p-values and histories recorded, some assertions
        already proved (possibly the one needing the largest sample); estimates of earlier calls forgotten"""
        big = max(range(k), key=lambda i: exps[i])
        marked = []
        for i, a in enumerate(asns.values()):
            a.p_history = [float(v) for v in hs[i][:rng.randint(0, len(hs[i]))]]
            a.p_value = min(a.p_history) if a.p_history else 1
            a.proved = (rng.random() < 0.4) or (force_largest and i == big)
            a.sample_size = None
            marked.append(bool(a.proved))
        return marked

    out_cases = []
    rounds = ["fresh" if rng.random() < 0.6 else "state"] + (["state"] if rng.random() < 0.6 else [])
    for rnd, mode in enumerate(rounds):
        proved = audit_loop_state(rng.random() < 0.6) if mode == "state" else [False] * k
        if one_cvrs:
            out = call(lambda: int(con.find_sample_size(audit=audit, cvr_sample=["cvrs"])))
        elif with_data:
            out = call(lambda: int(con.find_sample_size(audit=audit, mvr_sample=["mvrs"], cvr_sample=["cvrs"])))
        else:
            out = call(lambda: int(con.find_sample_size(audit=audit)))
        per = [getattr(a, "sample_size", None) for a in asns.values()]
        res.oracle_runs += 1
        bad = None
        if out[0] != "ok":
            bad = f"raises {out[1]}"
        elif out[1] != max(exps) or any(p is None for p in per) or out[1] != max(per) or con.sample_size != out[1]:
            bad = (f"contest estimate {out[1]} is not the largest of its assertions' estimates (first crossings {exps}, "
                   f"sample_size attributes {per}, proved {proved}, call #{rnd + 1})")
        elif [int(p) for p in per] != exps:
            bad = f"assertion estimates {per} are not the first crossings {exps} on the documented populations"
        if bad:
            res.oracle_violations.append({"what": "Contest.find_sample_size: " + ("raises" if bad.startswith("raises") else
                                                  "not the largest of its assertions' estimates" if "largest" in bad else
                                                  "assertion estimates are not first crossings on the documented populations"),
                                          "input": {"audit_type": typ, "N": N, "assertions": C.jsonable(specs), "rate_1": C.jsonable(r1),
                                                    "rate_2": C.jsonable(r2), "data": C.jsonable(datas), "risk_limit": alpha,
                                                    "proved": proved, "call": rnd + 1},
                                          "observed": bad, "signature": "C16:contest"})
        key = "contest call " + ("on fresh assertions" if mode == "fresh" else "with audit-loop state (p-values, proved)") + \
              (", second call" if rnd else "")
        st[key] = st.get(key, 0) + 1
        if any(proved) and proved[max(range(k), key=lambda i: exps[i])]:
            st["contest whose largest assertion is already proved"] = st.get("contest whose largest assertion is already proved", 0) + 1
        out_cases.append({"specs": specs, "datas": datas, "alpha": C.frac(alpha), "r1": r1, "r2": r2, "out": out, "per": per,
                          "proved": proved, "call": rnd + 1})
    if len(set(exps)) > 1:
        res.nontrivial.add(("contest", repr(specs), repr(r1), repr(r2), repr(datas)))
        st["contest with differing assertion estimates"] = st.get("contest with differing assertion estimates", 0) + 1
    return out_cases


def run_contests(ctx, res, st):
    cases = []
    n = ctx.n(64, 900)
    tries = 0
    while len(cases) < n and tries < 5 * n:
        tries += 1
        c = gen_contest(ctx, res, st, with_data=ctx.rng.random() < 0.3)
        if c:
            cases.extend(c)
    cr = C.run_corr(ctx.pid, "contest", IMPORTS, "list (asn * option (list Q)) * option Q * option Q * res nat", cases,
                    contest_lit, "agree_contest", shard=8, show="show_contest")
    res.corr.append(("Contest.find_sample_size vs SampleSize.contest_find", cr, lambda c: {k: C.jsonable(v) for k, v in c.items()}))
    res.evaluations += len(cases)
    st["contests"] = len(cases)


def audit_lit(c):
    cs = C.listlit([C.listlit([f"({C.blit(p)}, {asn_lit(s, c['alpha'])}, {C.optlit(d, qlist)})" for p, s, d in con])
                    for con in c["contests"]])
    return (f"({cs}, {rate_lit(c['r1'])}, {rate_lit(c['r2'])}, {C.listlit([C.natlit(v) for v in c['sizes']])}, "
            f"{C.optlit(c['total'], lambda o: reslit(o, C.natlit))})")


def gen_audit(ctx, res, st):
    """Audit.find_sample_size.  style=True: the initial estimate (no MVRs, constructed populations); each contest's size is
    compared.  style=False: an MVR sample is given, each assertion gets its data (what mvrs_to_data delivers), and the
    returned total is the largest contest size."""
    rng = ctx.rng
    A = AU()
    style = rng.random() < 0.5
    r1, r2 = rng.choice(RATES[2:]), rng.choice(RATES)
    alpha0 = rng.choice([0.05, 0.1, 0.25, 0.2])
    contests, objs, exps = [], {}, []
    for ci in range(rng.randint(1, 3)):
        typ = rng.choice(["POLLING", "CARD_COMPARISON"])
        N = rng.randint(3, 16)
        k = rng.randint(1, 3)
        specs = [gen_spec(rng, typ=typ, N=N, clean=True) for _ in range(k)]
        for s in specs[1:]:
            s["tally"] = specs[0]["tally"]
        proved = [rng.random() < 0.3 for _ in specs]
        datas = [None if style else nonconstant_xs(rng, s["cfg"], rng.randint(2, min(N, 8))) for s in specs]
        docs = [[float(v) for v in d] if d is not None else doc_population(s, r1, r2) for s, d in zip(specs, datas)]
        if any(d is None for d in docs):
            return None
        if any(d is None and tie_risk(doc_population(s, r1, r2, exact=True), s["cfg"]) for s, d in zip(specs, datas)):
            st["exact tie of a running total with N t (regenerated)"] = st.get("exact tie of a running total with N t (regenerated)", 0) + 1
            return None
        try:
            hs = [hist_impl(nnm.build(s["cfg"]), np.tile(np.array(d), math.ceil(N / len(d)))[0:N]) for s, d in zip(specs, docs)]
        except Exception:  # noqa
            return None
        if not all(guard_ok(h, alpha0) for h in hs):
            return None
        a0 = build_asn(specs[0], alpha0)
        con = a0.contest
        con.id = f"c{ci}"
        asns = {"a0": a0}
        for i, s in enumerate(specs[1:], 1):
            asns[f"a{i}"] = build_asn(s, alpha0, con=con)
        for a, p in zip(asns.values(), proved):
            a.proved = p
        if not style:
            table = {id(a): fl(d) for a, d in zip(asns.values(), datas)}
            for a in asns.values():
                a.mvrs_to_data = types.MethodType(lambda self, m, c, use_all=False, _t=table: (_t[id(self)], self.test.u), a)
        con.assertions = asns
        objs[con.id] = con
        contests.append(list(zip(proved, specs, datas)))
        exps.append(max([first_cross(h, alpha0, N) for h, p in zip(hs, proved) if not p] or [0]))
    audit = A.Audit(error_rate_1=(r1 if isinstance(r1, (int, float)) or r1 is None else float(r1)),
                    error_rate_2=(r2 if isinstance(r2, (int, float)) or r2 is None else float(r2)),
                    reps=None, quantile=0.5, sim_seed=7,
                    strata={"s": A.Stratum(id="s", use_style=style)})
    if style:
        out = call(lambda: int(audit.find_sample_size(contests=objs, cvrs=[])))
    else:
        out = call(lambda: int(audit.find_sample_size(contests=objs, mvr_sample=["m1", "m2"], cvr_sample=["c1", "c2"])))
    sizes = [con.sample_size for con in objs.values()]
    res.oracle_runs += 1
    bad = None
    if out[0] != "ok" or any(s is None for s in sizes):
        bad = "raises or leaves a contest without an estimate"
    elif [int(s) for s in sizes] != exps:
        bad = "a contest's estimate is not the largest first crossing among its unproved assertions"
    elif not style and out[1] != max(exps):
        bad = "the overall estimate is not the largest contest estimate"
    if bad:
        res.oracle_violations.append({"what": "Audit.find_sample_size: " + bad,
                                      "input": {"contests": C.jsonable(contests), "rate_1": C.jsonable(r1), "rate_2": C.jsonable(r2),
                                                "risk_limit": alpha0, "use_style": style},
                                      "observed": {"return": C.jsonable(out), "sizes": C.jsonable(sizes), "expected": exps},
                                      "signature": "C16:audit"})
    if out[0] != "ok" or any(s is None for s in sizes):
        return None
    st["audit " + ("with style (constructed)" if style else "no style (data)")] = st.get("audit " + ("with style (constructed)" if style else "no style (data)"), 0) + 1
    return {"contests": contests, "alpha": C.frac(alpha0), "r1": r1, "r2": r2, "sizes": [int(s) for s in sizes],
            "total": None if style else out}


def run_audits(ctx, res, st):
    cases = []
    n = ctx.n(30, 300)
    tries = 0
    while len(cases) < n and tries < 6 * n:
        tries += 1
        c = gen_audit(ctx, res, st)
        if c:
            cases.append(c)
    cr = C.run_corr(ctx.pid, "audit", IMPORTS, "audit_case", cases,
                    audit_lit, "agree_audit", shard=6, show="show_audit")
    res.corr.append(("Audit.find_sample_size contest loop vs SampleSize.audit_contest_find", cr,
                     lambda c: {k: C.jsonable(v) for k, v in c.items()}))
    res.evaluations += len(cases)
    st["audits"] = len(cases)


# ---------------------------------------------------------------------------------------------- raire sample_estimator
def raire_lit(c):
    return (f"mkrc {C.qlit(c['mean'])} {C.natlit(c['tw'])} {C.natlit(c['tl'])} {C.natlit(c['to'])} {rate_lit(c['r1'])} "
            f"{rate_lit(c['r2'])} {C.qlit(c['alpha'])} {C.zlit(c['N'])} {C.qlit(c['ub'])} {C.blit(c['polling'])} "
            f"{reslit(c['out'], C.natlit)}")


def gen_raire(ctx, res, st):
    rng = ctx.rng
    from shangrla.raire import sample_estimator as SE
    NonnegMean = nnm.NM()
    polling = rng.random() < 0.4
    N = rng.randint(3, 24)
    ub = F(1)
    mean = F(rng.randint(33, 64), 64)
    r1, r2 = rng.choice(RATES[2:]), rng.choice(RATES[2:])
    if polling:
        tw = rng.randint(0, N)
        tl = rng.randint(0, N - tw)
        to = N - tw - tl if rng.random() < 0.6 else rng.randint(0, N)
        if tw + tl + to == 0:
            to = 1
    else:
        tw, tl, to = rng.randint(0, N), rng.randint(0, N), rng.randint(0, N)
    margin = 2 * float(mean) - 1
    u = 2 / (2 - margin / float(ub))
    # documented population and the test sample_estimator configures, built here
    if polling:
        try:
            doc = [float(v) for v in AU().Assertion.interleave_values(tl, to, tw, big=1.0)]
        except Exception:  # noqa
            doc = [float(v) for v in interleave_doc(tl, to, tw, 0.0, 0.5, 1.0)]
        tst = NonnegMean(test=NonnegMean.alpha_mart, estim=NonnegMean.shrink_trunc, N=N, u=u, eta=float(mean))
    else:
        big, small = 1 / (2 - margin / float(ub)), 0.5 / (2 - margin / float(ub))
        k1 = int(1 / float(r1)) if r1 else None
        k2 = int(1 / float(r2)) if r2 else None
        if k1 == 0 or k2 == 0:
            return None
        doc = [0.0 if (k2 and i % k2 == 0) else small if (k1 and i % k1 == 0) else big for i in range(N)]
        tst = NonnegMean(test=NonnegMean.alpha_mart, estim=NonnegMean.optimal_comparison, N=N, u=u, eta=float(mean))
    if not polling:
        bq, sq = 1 / (2 - (2 * mean - 1) / ub), F(1, 2) / (2 - (2 * mean - 1) / ub)
        exact_doc = [F(0) if (k2 and i % k2 == 0) else sq if (k1 and i % k1 == 0) else bq for i in range(N)]
        if tie_risk(exact_doc, {"N": N, "t": F(1, 2), "kind": "alpha_optcomp", "p": {}}):
            st["exact tie of a running total with N t (regenerated)"] = st.get("exact tie of a running total with N t (regenerated)", 0) + 1
            return None
    try:
        h = hist_impl(tst, np.tile(np.array(doc), math.ceil(N / len(doc)))[0:N])
    except Exception:  # noqa
        return None
    alpha = pick_alpha(rng, [h], rng.choice(["target", "target", "never", "grid"]))
    if alpha is None:
        return None
    exp = first_cross(h, alpha, N)
    args = types.SimpleNamespace(erate1=(r1 if isinstance(r1, (int, float)) else float(r1)),
                                 erate2=(r2 if isinstance(r2, (int, float)) else float(r2)), rlimit=alpha, reps=None, seed=1)
    out = call(lambda: int(SE.sample_size(float(mean), tw, tl, to, args, N, upper_bound=float(ub), polling=polling)))
    res.oracle_runs += 1
    if out != ("ok", exp):
        res.oracle_violations.append({"what": "raire.sample_estimator.sample_size is not the first crossing on the documented population",
                                      "input": {"mean": str(mean), "tw": tw, "tl": tl, "to": to, "erate1": C.jsonable(r1), "erate2": C.jsonable(r2),
                                                "rlimit": alpha, "N": N, "polling": polling},
                                      "observed": C.jsonable(out), "expected": exp, "signature": "C16:raire"})
    if len(set(doc)) > 1:
        res.nontrivial.add(("raire", mean, tw, tl, to, repr(r1), repr(r2), N, polling))
    return {"mean": mean, "tw": tw, "tl": tl, "to": to, "r1": r1, "r2": r2, "alpha": C.frac(alpha), "N": N, "ub": ub,
            "polling": polling, "out": out}


def run_raire(ctx, res, st):
    cases = []
    n = ctx.n(60, 700)
    tries = 0
    while len(cases) < n and tries < 5 * n:
        tries += 1
        c = gen_raire(ctx, res, st)
        if c:
            cases.append(c)
    cr = C.run_corr(ctx.pid, "raire", IMPORTS, "raire_case", cases, raire_lit, "agree_raire", shard=8, show="show_raire")
    res.corr.append(("raire.sample_estimator.sample_size vs SampleSize.raire_sample_size", cr,
                     lambda c: {k: C.jsonable(v) for k, v in c.items()}))
    res.evaluations += len(cases)
    st["raire polling"] = sum(1 for c in cases if c["polling"])
    st["raire comparison"] = sum(1 for c in cases if not c["polling"])


# ---------------------------------------------------------------------------------------------- wide stream (oracle only)
# Scale, representation variants of legal inputs, and state shared between calls.  Everything here is checked by the
# size-independent oracle (the test's own history on the population built here; prefix invariance; interleaving counts);
# none of it goes through Coq.
CHEAP = ["alpha_fixed", "alpha_optcomp", "bet_fixed", "kk", "km", "kw", "sprt"]


def bump(st, key):
    st[key] = st.get(key, 0) + 1


def wide_cfg(rng, N, heavy_ok=False, kind=None):
    kind = kind or rng.choice(nnm.KINDS if heavy_ok else CHEAP)
    cfg = nnm.gen_cfg(rng, kind=kind, finite=True)
    cfg["N"] = N
    return exact(cfg)


def wide_pilot(rng, cfg, L, zero_one=False):
    """non-constant pilot values in [0, u] whose mean is a little above t (so the first crossing is far out)"""
    u, t = float(cfg["u"]), float(cfg["t"])
    prs = np.random.RandomState(rng.randint(0, 2 ** 32 - 1))
    lift = rng.choice([1e-3, 1e-2, 0.03, 0.1, 0.3])
    if zero_one and u == 1:
        return (prs.random_sample(L) < min(0.98, t + (1 - t) * lift + 0.02)).astype(float)
    mean = t + (u - t) * lift
    w = min(mean, u - mean) * rng.choice([1.0, 0.5, 0.1])
    x = mean + (prs.random_sample(L) - 0.5) * 2 * w
    if rng.random() < 0.3:        # a few extreme cards
        idx = prs.choice(L, size=max(1, L // 50), replace=False)
        x[idx] = prs.choice([0.0, u], size=len(idx))
    return np.clip(x, 0.0, u)


def rep_x(rng, x):
    """the same values as the caller might hold them"""
    x = np.asarray(x, dtype=float)
    zero_one = bool(np.all((x == 0) | (x == 1)))
    forms = ["ndarray float64", "list of float", "tuple of float"]
    if zero_one:
        forms += ["ndarray int64", "list of int", "tuple of int", "ndarray bool", "list of bool"]
    f = rng.choice(forms)
    if f == "ndarray float64":
        return x.copy(), f
    if f == "list of float":
        return [float(v) for v in x], f
    if f == "tuple of float":
        return tuple(float(v) for v in x), f
    if f == "ndarray int64":
        return x.astype(np.int64), f
    if f == "list of int":
        return [int(v) for v in x], f
    if f == "tuple of int":
        return tuple(int(v) for v in x), f
    if f == "ndarray bool":
        return x.astype(bool), f
    return [bool(v) for v in x], f


def rep_num(rng, v):
    """a numeric parameter as a Python float or a numpy scalar"""
    if v is None:
        return None
    return float(v) if rng.random() < 0.5 else np.float64(float(v))


def call_ss(rng, tst, x, alpha, reps=None, prefix=False, quantile=0.5, seed="omit"):
    """NonnegMean.sample_size with keyword or positional arguments"""
    kw = {} if seed == "omit" else {"seed": seed}
    z = rng.random()
    if reps is None and z < 0.25:
        return call(lambda: int(tst.sample_size(x, alpha, **kw))), "positional"
    if z < 0.5:
        return call(lambda: int(tst.sample_size(x, alpha, reps, prefix, quantile, **kw))), "positional"
    if z < 0.75:
        return call(lambda: int(tst.sample_size(x=x, alpha=alpha, reps=reps, prefix=prefix, quantile=quantile, **kw))), "keyword"
    return call(lambda: int(tst.sample_size(x, alpha=alpha, reps=reps, quantile=quantile, prefix=prefix, **kw))), "mixed"


def wide_det(ctx, res, st, N, tag, zero_one=False, L=None, reuse=None):
    """deterministic estimate at scale / in another representation; returns the NonnegMean instance used"""
    rng = ctx.rng
    kind = reuse[1]["kind"] if reuse else (rng.choice([k for k in CHEAP if k != "alpha_optcomp"]) if zero_one else None)
    cfg = wide_cfg(rng, N, heavy_ok=(N <= 3000), kind=kind)
    if zero_one and cfg["u"] != 1:
        cfg["u"] = F(1)
        cfg["t"] = F(1, 2)
        cfg["p"] = gen_params(rng, cfg["kind"], cfg["t"], cfg["u"])
        exact(cfg)
    if L is None:
        L = rng.randint(1000, 5000)
        while N % L == 0 or L % 8 == 0 or L % 10 == 0:
            L += 1
    x = wide_pilot(rng, cfg, L, zero_one)
    pop = np.tile(x, math.ceil(N / L))[0:N]
    try:
        h = hist_impl(nnm.build(cfg), pop)
    except Exception:  # noqa
        bump(st, "test raised on the population (skipped)")
        return None
    full = L * (N // L)
    alpha = None
    if full < N and rng.random() < 0.4:
        alpha = pick_alpha(rng, [h], "target", full, N)
    if alpha is None:
        alpha = pick_alpha(rng, [h], rng.choice(["target", "target", "target", "never"]))
    if alpha is None:
        bump(st, "no risk limit outside the guard band (regenerated)")
        return None
    exp = first_cross(h, alpha, N)
    if reuse:      # the same instance, re-parametrised in place after an earlier estimate
        tst = reuse[0]
        nnm.retarget(tst, cfg)
        how = "instance reused after another estimate"
    else:
        tst = nnm.build(cfg, variant=rng.randint(0, 14))
        how = "fresh instance"
    xr, form = rep_x(rng, x)
    out, style = call_ss(rng, tst, xr, rep_num(rng, alpha))
    res.oracle_runs += 1
    bump(st, f"wide det: {tag}")
    bump(st, f"wide: x as {form}")
    if exp >= 1000:
        bump(st, "wide: first crossing beyond 1000 draws")
    if out != ("ok", exp):
        res.oracle_violations.append({
            "what": "sample_size (deterministic): estimate is not the first crossing of the test on the pilot data tiled to N",
            "input": {"cfg": C.jsonable(cfg), "x": [float(v) for v in x], "x_given_as": form, "alpha": alpha, "arguments": style,
                      "instance": how, "stream": tag},
            "observed": C.jsonable(out), "expected": exp, "signature": "C16:det"})
    return tst, cfg


def wide_sim(ctx, res, st, L, tag):
    """prefix invariance at scale: long prefix that crosses, reps that are not round, unusual quantiles, seed given /
    omitted / None (None: numpy seeds itself from the OS — the estimate must still be k)"""
    rng = ctx.rng
    N = L + rng.randint(1, max(2, L))
    cfg = wide_cfg(rng, N, heavy_ok=(N <= 400))
    x = wide_pilot(rng, cfg, L)
    try:
        hp = hist_impl(nnm.build(cfg), np.append(x, x[0]))[:L]
    except Exception:  # noqa
        bump(st, "test raised on the population (skipped)")
        return
    alpha = pick_alpha(rng, [hp], "target", 0, L)
    if alpha is None or not any(p <= alpha for p in hp):
        return
    k = first_cross(hp, alpha, N)
    for _ in range(2):
        reps = rng.choice([1, 3, 7, 13, 37] if N > 3000 else [1, 3, 7, 13, 37, 101, 53])
        q = rng.choice([0.37, 0.05, 0.95, 0.123, 0.5, 0.999, 0.0, 1.0, rng.random()])
        seed = rng.choice(["omit", None, rng.randint(0, 2 ** 32 - 1), 0])
        xr, form = rep_x(rng, x)
        out, style = call_ss(rng, nnm.build(cfg, variant=rng.randint(0, 14)), xr, rep_num(rng, alpha), reps, True, rep_num(rng, q), seed)
        res.oracle_runs += 1
        bump(st, f"wide sim: {tag}")
        bump(st, "wide sim: seed " + ("omitted" if seed == "omit" else "None" if seed is None else "given"))
        if out != ("ok", k):
            res.oracle_violations.append({
                "what": "simulation-based estimate with a prefix that already crosses the risk limit at k is not k",
                "input": {"cfg": C.jsonable(cfg), "x": [float(v) for v in x], "x_given_as": form, "alpha": alpha,
                          "seed": C.jsonable(seed), "reps": reps, "quantile": q, "prefix": True, "k": k, "arguments": style},
                "observed": C.jsonable(out), "signature": "C16:prefix-invariance"})
            return


def wide_spec(rng, typ, N, m, kind=None):
    ub = rng.choice([F(1), F(1), F(2), F(3, 2)])
    m = C.frac(float(m))
    u = ub if typ == "POLLING" else C.frac(2 / (2 - float(m) / float(ub)))
    cfg = cfg_for(rng, N, F(1, 2), u, kind or rng.choice(CHEAP))
    tally = None
    if typ == "POLLING":
        d = max(1, int(round(float(m) * N * rng.choice([1, 3, 10]))))
        n0 = rng.randint(0, max(0, (N - d) // 2))
        tally = (n0, min(N - n0, n0 + d))
    return {"typ": typ, "irv": False, "N": N, "ub": ub, "m": m, "cfg": cfg, "tally": tally, "set_u": True, "margin_state": "set"}


WIDE_RATES = [None, 0, 0.0, 0.001, 0.003, 0.007, 0.01, 0.013, 1 / 300, 0.3, 0.15, 0.0004, 1 / 7]


def expect_asn(rng, spec, r1, r2, mode=None):
    """(documented population, risk limit, first crossing) for a constructed-data estimate; None if undefined"""
    doc = doc_population(spec, r1, r2)
    if doc is None:
        return None
    try:
        h = hist_impl(nnm.build(spec["cfg"]), doc)
    except Exception:  # noqa
        return None
    alpha = pick_alpha(rng, [h], mode or rng.choice(["target", "target", "target", "never"]))
    if alpha is None:
        return None
    return doc, alpha, first_cross(h, alpha, spec["N"]), h


def retarget_asn(a, spec, alpha):
    """re-parametrise an existing Assertion (and its Contest and test) in place for another estimate"""
    con = a.contest
    con.risk_limit = float(alpha)
    con.cards = spec["N"]
    con.audit_type = spec["typ"]
    t = spec["tally"]
    con.tally = None if t is None else {"W": t[1], "L": t[0], "O": other_votes(spec["N"], t)}
    a.margin = float(spec["m"])
    a.assorter.upper_bound = float(spec["ub"])
    if getattr(a, "_kind", None) == spec["cfg"]["kind"] and rng_flag[0]:
        nnm.retarget(a.test, spec["cfg"])        # same test / estimator / bet: parameters reassigned in place
    else:
        a.test = nnm.build(spec["cfg"])
    a._kind = spec["cfg"]["kind"]


rng_flag = [True]


def call_fss(rng, a, r1, r2, reps=None, prefix=False, quantile=0.5, seed="omit", data=None):
    """Assertion.find_sample_size with keyword or positional arguments; rates as Python numbers or numpy scalars"""
    def num(r):
        return r if (r is None or isinstance(r, int)) else rep_num(rng, r)
    r1, r2 = num(r1), num(r2)
    z = rng.random()
    if seed == "omit" and z < 0.35:
        return call(lambda: int(a.find_sample_size(data, prefix, r1, r2, reps, quantile))), "positional"
    if seed != "omit" and z < 0.35:
        return call(lambda: int(a.find_sample_size(data, prefix, r1, r2, reps, quantile, seed))), "positional"
    kw = {} if seed == "omit" else {"seed": seed}
    if z < 0.7:
        return call(lambda: int(a.find_sample_size(data=data, prefix=prefix, rate_1=r1, rate_2=r2, reps=reps, quantile=quantile, **kw))), "keyword"
    return call(lambda: int(a.find_sample_size(rate_2=r2, rate_1=r1, reps=reps, **kw))), "keyword, defaults"


def wide_asn(ctx, res, st, spec, tag, a=None):
    """constructed-data estimate of one assertion at scale / on a re-used Assertion; returns the Assertion"""
    rng = ctx.rng
    r1, r2 = rng.choice(WIDE_RATES), rng.choice(WIDE_RATES)
    e = expect_asn(rng, spec, r1, r2)
    if e is None:
        return a
    doc, alpha, exp, _ = e
    if a is None:
        a = build_asn(spec, alpha)
        a._kind = spec["cfg"]["kind"]
        how = "fresh Assertion"
    else:
        rng_flag[0] = rng.random() < 0.6
        retarget_asn(a, spec, alpha)
        how = "Assertion / Contest / test re-used after another estimate"
    rec = []
    spy_on(a.test, rec)
    a.sample_size = None
    out, style = call_fss(rng, a, r1, r2, prefix=rng.random() < 0.3)
    try:
        del a.test.sample_size
    except AttributeError:
        pass
    res.oracle_runs += 1
    bump(st, f"wide asn: {tag} {spec['typ']}")
    if exp >= 1000:
        bump(st, "wide: first crossing beyond 1000 draws")
    tname = {"POLLING": "polling", "CARD_COMPARISON": "comparison", "ONEAUDIT": "ONEAudit"}[spec["typ"]]
    bad = None
    if out[0] != "ok":
        bad = f"raises {out[1]}: {LAST_TB[0]}"
    elif rec and (len(rec[0]) != len(doc) or not np.allclose(rec[0], doc, rtol=1e-12, atol=1e-15)):
        bad = "the hypothetical population handed to the test is not the documented one"
    elif out[1] != exp:
        bad = f"estimate {out[1]} is not the first crossing {exp} of the test on the documented population"
    elif getattr(a, "sample_size", None) != out[1]:
        bad = "sample_size attribute not set to the estimate"
    if bad:
        res.oracle_violations.append({"what": f"find_sample_size ({tname}): " +
                                              (bad if bad.startswith(("raises", "the hyp", "sample_size")) else "estimate is not the first crossing on the documented population"),
                                      "input": {"audit_type": spec["typ"], "N": spec["N"], "upper_bound": str(spec["ub"]), "margin": float(spec["m"]),
                                                "test": C.jsonable(spec["cfg"]), "tally(loser,winner)": C.jsonable(spec["tally"]),
                                                "rate_1": C.jsonable(r1), "rate_2": C.jsonable(r2), "risk_limit": alpha, "arguments": style,
                                                "objects": how, "stream": tag},
                                      "observed": bad, "signature": f"C16:asn:{tname}"})
    return a


def wide_contests(ctx, res, st):
    """two contests of different audit types, each with 2-3 assertions, estimated alternately A, B, A, B with the audit's
    assumed rates changed in between: every answer must be the maximum of the first crossings for the CURRENT parameters"""
    rng = ctx.rng
    A = AU()
    types_ = rng.sample(["POLLING", "CARD_COMPARISON", "ONEAUDIT"], 2)
    cons = []
    for typ in types_:
        N = rng.randint(20, 400)
        specs = [wide_spec(rng, "CARD_COMPARISON" if typ == "ONEAUDIT" else typ, N, rng.choice([0.3, 0.1, 0.05, 0.02, 0.2])) for _ in range(rng.randint(2, 3))]
        for s_ in specs:
            s_["tally"] = specs[0]["tally"]
            s_["typ"] = typ
        cons.append((typ, N, specs))
    rates = [(rng.choice(WIDE_RATES[1:]), rng.choice(WIDE_RATES)) for _ in range(2)]
    hs, docs_ok = [], True
    for typ, N, specs in cons:
        for s_ in specs:
            for r1, r2 in rates:
                d = doc_population(s_, r1, r2)
                if d is None:
                    return
                try:
                    hs.append(hist_impl(nnm.build(s_["cfg"]), d))
                except Exception:  # noqa
                    return
    alpha = pick_alpha(rng, hs, "grid")
    if alpha is None:
        return
    objs = []
    for typ, N, specs in cons:
        a0 = build_asn(specs[0], alpha)
        con = a0.contest
        asns = {"a0": a0}
        for i, s_ in enumerate(specs[1:], 1):
            asns[f"a{i}"] = build_asn(s_, alpha, con=con)
        con.assertions = asns
        objs.append(con)
    for rnd, (r1, r2) in enumerate(rates + rates[:1]):
        audit = A.Audit(error_rate_1=rep_num(rng, r1) if not isinstance(r1, int) else r1,
                        error_rate_2=rep_num(rng, r2) if not (r2 is None or isinstance(r2, int)) else r2,
                        reps=None, quantile=0.5, sim_seed=7)
        for (typ, N, specs), con in zip(cons, objs):
            exps = [first_cross(hist_impl(nnm.build(s_["cfg"]), doc_population(s_, r1, r2)), alpha, N) for s_ in specs]
            if typ == "ONEAUDIT":     # data=None is only reachable for ONEAudit through the assertions themselves
                per = [call(lambda a=a: int(a.find_sample_size(rate_1=audit.error_rate_1, rate_2=audit.error_rate_2))) for a in con.assertions.values()]
                out = ("ok", max(p[1] for p in per)) if all(p[0] == "ok" for p in per) else per[0]
            else:
                out = call(lambda: int(con.find_sample_size(audit=audit)))
            res.oracle_runs += 1
            bump(st, "wide state: contests of different audit types estimated alternately")
            if out != ("ok", max(exps)):
                res.oracle_violations.append({
                    "what": "Contest.find_sample_size: not the largest of its assertions' estimates",
                    "input": {"audit_type": typ, "N": N, "assertions": C.jsonable(specs), "rate_1": C.jsonable(r1), "rate_2": C.jsonable(r2),
                              "risk_limit": alpha, "round": rnd + 1, "note": "two contests estimated alternately, rates changed between rounds"},
                    "observed": C.jsonable(out), "expected": {"first crossings": exps}, "signature": "C16:contest"})
                return


def wide_interleave(ctx, res, st):
    """interleave_values: counts as Python ints / numpy integers, keyword vs positional values, and the SAME counts with
    different values back to back"""
    rng = ctx.rng
    A = AU()
    big_case = rng.random() < 0.15
    ns, nm, nb = (rng.randint(0, 40000), rng.randint(0, 40000), rng.randint(0, 40000)) if big_case else \
        tuple(rng.choice([0, 1, rng.randint(2, 300)]) for _ in range(3))
    if ns + nm + nb == 0:
        nb = 3
    cnt = (lambda v: int(v)) if rng.random() < 0.5 else (lambda v: np.int64(v))
    for rnd in range(2):
        vals = sorted(rng.sample([0.0, 0.25, 0.5, 1.0, 1.5, 2.0, 1 / 1.9, 0.5 / 1.9, 0.125, 3.0], 3))
        if rnd == 0 and rng.random() < 0.4:
            vals = [0.0, 0.5, 1.0]
            out = call(lambda: np.asarray(A.Assertion.interleave_values(cnt(ns), cnt(nm), cnt(nb)), dtype=float))
        elif rng.random() < 0.5:
            out = call(lambda: np.asarray(A.Assertion.interleave_values(cnt(ns), cnt(nm), cnt(nb), vals[0], vals[1], vals[2]), dtype=float))
        else:
            out = call(lambda: np.asarray(A.Assertion.interleave_values(n_big=cnt(nb), n_small=cnt(ns), n_med=cnt(nm),
                                                                        big=rep_num(rng, vals[2]), small=rep_num(rng, vals[0]), med=rep_num(rng, vals[1])), dtype=float))
        res.oracle_runs += 1
        bump(st, "wide interleave" + (": same counts, other values, back to back" if rnd else ""))
        bad = None
        if out[0] != "ok":
            bad = f"raises {out[1]}"
        else:
            x = out[1]
            got = [int(np.sum(x == np.float64(v))) for v in vals]
            if len(x) != ns + nm + nb:
                bad = f"length {len(x)} instead of {ns + nm + nb}"
            elif got != [ns, nm, nb]:
                bad = f"counts {got} instead of {[ns, nm, nb]}"
        if bad:
            res.oracle_violations.append({"what": "interleave_values does not return the requested number of each value: " + bad.split(" ")[0],
                                          "input": {"n_small": ns, "n_med": nm, "n_big": nb, "values": vals, "call": rnd + 1,
                                                    "note": "second call repeats the counts with other values" if rnd else ""},
                                          "observed": bad, "signature": "C16:interleave"})
            return


def run_wide(ctx, res, st):
    rng = ctx.rng
    q = ctx.quick
    # (1) scale
    for _ in range(ctx.n(6, 40)):
        wide_det(ctx, res, st, rng.choice([rng.randint(5000, 20000), rng.randint(20000, 70000)]), "N 5e3..7e4, pilot of 1000-5000 values")
    for _ in range(ctx.n(1, 4)):
        wide_det(ctx, res, st, 10 ** 6, "N = 1e6, pilot of 1000-5000 values")
    for _ in range(ctx.n(4, 30)):
        wide_sim(ctx, res, st, rng.randint(1000, 5000), "prefix of 1000-5000 values")
    for _ in range(ctx.n(7, 50)):
        typ = rng.choice(["POLLING", "CARD_COMPARISON", "ONEAUDIT"])
        N = rng.choice([rng.randint(2000, 20000), rng.randint(20000, 120000)])
        wide_asn(ctx, res, st, wide_spec(rng, typ, N, rng.choice([1e-4, 3e-5, 1e-5, 1e-6, 2.5e-4, 1e-3, 7e-3])), "tiny margin, N 2e3..1.2e5")
    for _ in range(ctx.n(1, 3)):
        wide_asn(ctx, res, st, wide_spec(rng, rng.choice(["CARD_COMPARISON", "ONEAUDIT"]), 10 ** 6, rng.choice([1e-4, 1e-5, 3e-4])), "N = 1e6")
    # (2) representation (small sizes, many variants)
    for _ in range(ctx.n(40, 400)):
        N = rng.randint(5, 200)
        wide_det(ctx, res, st, N, "small N, representation variants", zero_one=rng.random() < 0.6,
                 L=rng.choice([rng.randint(1, min(N, 30)), rng.randint(1, N)]))
    for _ in range(ctx.n(12, 120)):
        wide_sim(ctx, res, st, rng.randint(3, 60), "short prefix")
    for _ in range(ctx.n(30, 300)):
        wide_interleave(ctx, res, st)
    # (3) state shared between calls
    for _ in range(ctx.n(12, 120)):      # one NonnegMean instance, two different estimates in a row
        first = wide_det(ctx, res, st, rng.randint(5, 300), "state: first estimate", L=rng.randint(1, 20))
        if first:
            wide_det(ctx, res, st, rng.randint(5, 300), "state: second estimate on the same instance", L=rng.randint(1, 20), reuse=first)
    for _ in range(ctx.n(14, 140)):      # one Assertion / Contest, estimates of different audit types in a row
        a = None
        kind = rng.choice(CHEAP)
        for step in range(rng.randint(2, 3)):
            typ = rng.choice(["POLLING", "CARD_COMPARISON", "ONEAUDIT"])
            spec = wide_spec(rng, typ, rng.randint(10, 400), rng.choice([0.5, 0.2, 0.1, 0.05, 0.01, 0.3]), kind=kind)
            a = wide_asn(ctx, res, st, spec, "state: estimate #%d on the same objects" % (step + 1), a=a)
    for _ in range(ctx.n(8, 80)):
        wide_contests(ctx, res, st)


# ---------------------------------------------------------------------------------------------- entry point
def run(ctx, res):
    from . import genarith
    genarith.regenerate(ctx.pid, "audit", res)   # regenerated tie: overstatement assorter, u bound, tally margins (DESIGN 2.1)
    genarith.regenerate(ctx.pid, "samplesize_skeletons", res)   # whole-function skeletons: sample_size, interleave_values, find_sample_size (x3)
    import time
    st = {}
    res.stats = st
    t0 = time.time()
    # ---- NonnegMean.sample_size
    det, sims = [], []
    n_det, n_sim = ctx.n(360, 5000), ctx.n(120, 1500)
    tries = 0
    while len(det) < n_det and tries < 4 * n_det:
        tries += 1
        c = gen_exact(ctx, st) if ctx.rng.random() < 0.08 else gen_det(ctx, st)
        if c is None:
            continue
        det.append(c)
        res.oracle_runs += 1
        if c["out"] != ("ok", c["expected"]):
            res.oracle_violations.append({
                "what": "sample_size (deterministic): estimate is not the first crossing of the test on the pilot data tiled to N",
                "input": {"cfg": C.jsonable(c["cfg"]), "x": C.jsonable(c["xs"]), "alpha": float(c["alpha"]), "called_with": c["how"]},
                "observed": C.jsonable(c["out"]), "expected": c["expected"], "signature": "C16:det"})
        key = f"det: crossing {c['where']}, |x| {'divides' if c['divides'] else 'does not divide'} N"
        st[key] = st.get(key, 0) + 1
        if len(set(c["xs"])) > 1 and len(c["xs"]) < c["cfg"]["N"]:
            res.nontrivial.add(("det", repr(c["cfg"]), repr(c["xs"]), c["alpha"]))
    tries = 0
    while len(sims) < n_sim and tries < 6 * n_sim:
        tries += 1
        crossing = ctx.rng.random() < 0.6
        c = gen_sim(ctx, st, crossing)
        if c is None:
            continue
        sims.append(c)
        if crossing:
            oracle_prefix(ctx, res, c, ctx.n(3, 8))
            st["sim: crossing prefix"] = st.get("sim: crossing prefix", 0) + 1
            res.nontrivial.add(("sim", repr(c["cfg"]), repr(c["xs"]), c["alpha"]))
        else:
            st["sim: general, " + ("prefix" if c["prefix"] else "no prefix")] = st.get("sim: general, " + ("prefix" if c["prefix"] else "no prefix"), 0) + 1
    cr = C.run_corr(ctx.pid, "ss", IMPORTS, "ss_case", det + sims, ss_lit, "agree_ss", shard=24, show="show_ss")
    res.corr.append(("NonnegMean.sample_size (deterministic and simulation branch) vs SampleSize.ss", cr, ss_json))
    res.evaluations += len(det) + len(sims)
    secs = {"sample_size": round(time.time() - t0, 1)}
    for name, f in (("interleave", run_interleave), ("overstatement", run_overstatement)):
        t1 = time.time()
        f(ctx, res)
        secs[name] = round(time.time() - t1, 1)
    t1 = time.time()
    acs = run_assertions(ctx, res, st)
    secs["assertions"] = round(time.time() - t1, 1)
    for name, f in (("contests", run_contests), ("audits", run_audits), ("raire", run_raire)):
        t1 = time.time()
        f(ctx, res, st)
        secs[name] = round(time.time() - t1, 1)
    t1 = time.time()
    run_wide(ctx, res, st)
    secs["wide (scale, representation, state; oracle only)"] = round(time.time() - t1, 1)
    st["seconds per part"] = secs

    res.exhaustive = False
    res.rule = ("NonnegMean.sample_size: all nine test kinds (harness.nnm.gen_cfg), N <= 40, pilot data from the nnm generators made "
                "non-constant, |x| dividing N / not dividing N / = N / > N / = 1, the risk limit placed strictly between two attained "
                "p-values so the first crossing falls in the first copy, a later copy, the final partial copy, or never (guard band 1e-6, "
                "cases inside it regenerated); simulation branch with numpy's draws replayed (crossing prefixes over arbitrary seeds, reps, "
                "quantiles; general case with dyadic quantiles); interleave_values on all triples <= 4 and random larger ones; "
                "find_sample_size for polling / comparison / ONEAudit with rate_1, rate_2 in {omitted, None, 0, 0.0, positive, > 1}, margin "
                "set / None / non-positive, test.u set from the margin or left at 1, data given (tiled; crossing prefix simulated); contests "
                "of 1-4 assertions; Audit.find_sample_size with proved assertions skipped; raire sample_estimator.  Non-trivial = non-constant "
                "hypothetical population (distinct by inputs), for contests: assertion estimates not all equal.  Wide stream (oracle only): "
                "pilot data / prefixes of 1000-5000 values with lengths off every block size, N up to 1e6, margins 1e-3..1e-6, rates with "
                "non-integer reciprocals, reps 1..101 not round, arbitrary quantiles, seed given / omitted / None; x as list / tuple / ndarray "
                "of float64 / int64 / bool, parameters as Python numbers or numpy scalars, keyword vs positional arguments; the same "
                "NonnegMean / Assertion / Contest object re-parametrised for a second and third estimate, contests of different audit types "
                "estimated alternately, interleave_values with the same counts and other values back to back")
    res.samples = [ss_json(c) for c in det[:2]] + [ss_json(c) for c in sims[:1]] + [ac_json(c) for c in acs[:2]]
    res.assumptions = ["numpy's Mersenne Twister (RandomState.choice) is replayed, not modelled; np.quantile modelled by its linear method "
                       "for the runs and by 'quantile of a constant list is that constant' for the theorem",
                       "non-anticipation of the p-value history is a hypothesis of C16_prefix_invariant (property C05 discharges it)",
                       "np.sqrt modelled by any function with 0 < x -> 0 < sqrt x (theorems) / Z.sqrt to 2^-60 (runs)"]
