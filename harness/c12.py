"""C12 — test statistics equal their published definitions; ALPHA and betting forms agree."""
import math
import warnings
from fractions import Fraction as F

import numpy as np

from . import common as C, nnm, genarith

ANCHORS = nnm.ANCHORS
ATOL = 2.0 ** -51


def definition_history(case):
    """min(1, 1/T_j) from the published products, in exact arithmetic, using the implementation's own eta_j / lambda_j.
    Returns list of expected values or None where the property text does not pin the value (tolerance bands)."""
    cfg, xs, o = case["cfg"], case["xs"], case["impl"]
    k, u, t, N = cfg["kind"], cfg["u"], cfg["t"], cfg["N"]
    g = cfg["p"].get("g", F(0))
    exp = []
    T = F(1)
    S = F(0)
    dead = False
    for j, x in enumerate(xs, start=1):
        if k in ("km", "kw"):
            if k == "km":
                if x + g == 0:
                    dead = True      # T = 0 from here on: p = 1
                else:
                    T *= (x + g) / (t + g)
            else:
                T *= (1 - g) * x / t + g
            exp.append(1.0 if dead or T == 0 else min(1.0, float(1 / T)))
            continue
        if k == "kk":
            m = (N * (t + g) - S) / (N - j + 1)
            xg = x + g
            if m < 0 or (m == 0 and xg > 0):
                exp.append(0.0); dead = True
            elif dead:
                exp.append(None)
            else:
                if not (m == 0 and xg == 0):
                    T *= xg / m
                exp.append(1.0 if T == 0 else min(1.0, float(1 / T)))
            S += xg
            continue
        m = (N * t - S) / (N - j + 1) if N is not None else t
        S += x
        if j == len(xs) and N is not None and S > N * t:   # final sample makes the total exceed the null total
            exp.append(0.0); continue
        if m < 0:
            exp.append(0.0); dead = True; continue
        if m > u:
            exp.append(1.0); dead = True; continue
        inband = abs(m) <= 2 * ATOL + 1e-5 * abs(m) or abs(u - m) <= 2 * ATOL + 2e-6 * abs(m)
        if dead or m == 0 or m == u:
            dead = True
            exp.append(1.0 if (m == 0 or m == u) else None)
            continue
        if k in ("alpha_fixed", "alpha_shrink", "alpha_optcomp", "sprt"):
            if k == "sprt":
                eta = (N * cfg["p"]["eta"] - (S - x)) / (N - j + 1) if N is not None else cfg["p"]["eta"]
                eta = min(u, max(F(0), eta))
            else:
                eta = C.frac(o["aux"][j - 1])
            eta = min(u, max(eta, m))
            T *= (x * eta / m + (u - x) * (u - eta) / (u - m)) / u
        else:
            # the fixed bet is the configured constant; aGRAPA's bets are taken from the implementation (C13 bounds them)
            lam = cfg["p"]["lam"] if k == "bet_fixed" else C.frac(o["aux"][j - 1])
            T *= 1 + lam * (x - m)
        if inband or abs(T) < 1e-12:
            exp.append(None)
        else:
            exp.append(min(1.0, float(1 / T)) if T > 0 else None)
    return exp


def oracle_defs(case):
    o = case["impl"]
    if o["exc"] or len(o["hist"]) != len(case["xs"]):
        return []
    exp = definition_history(case)
    for j, (e, h) in enumerate(zip(exp, o["hist"])):
        if e is not None and not nnm.close(e, h, rel=1e-7, ab=1e-12):
            return [(f"history entry differs from min(1, 1/T_j) of the published definition",
                     {"index": j, "expected": e, "reported": h})]
    return []


def oracle_alpha_betting(rng, n):
    """Run alpha_mart with eta_j = mu_j(1+lam_j(u-mu_j)) against betting_mart on the implementation."""
    NonnegMean = nnm.NM()
    bad, runs = [], 0
    for _ in range(n):
        cfg = nnm.gen_cfg(rng, kind=rng.choice(["bet_fixed", "bet_agrapa"]))
        xs = nnm.gen_xs(rng, cfg, maxlen=14)
        x = np.array([float(v) for v in xs])
        with warnings.catch_warnings():
            warnings.simplefilter("ignore")
            try:
                bt = nnm.build(cfg)
                pb, hb = bt.test(x)
                lam = bt.bet(x)
                Nn = cfg["N"] if cfg["N"] is not None else np.inf

                def est(self, xx, lam=lam):
                    _, _, _, m = self.sjm(self.N, self.t, xx)
                    with np.errstate(all="ignore"):
                        return self.lam_to_eta(lam, m)
                at = NonnegMean(test=NonnegMean.alpha_mart, estim=est, u=float(cfg["u"]), N=Nn, t=float(cfg["t"]))
                pa, ha = at.test(x)
                # round trip of the conversions on this data
                _, _, _, m = at.sjm(at.N, at.t, x)
                m = m * np.ones(len(x))
                ok = (m > 0) & (m < float(cfg["u"]) * (1 - 1e-6))
                with np.errstate(all="ignore"):
                    back = at.eta_to_lam(at.lam_to_eta(lam, m), m)
            except Exception as e:  # noqa
                continue
        runs += 1
        if not (nnm.close(float(pa), float(pb), rel=1e-7) and all(nnm.close(float(a), float(b), rel=1e-7) for a, b in zip(ha, hb))):
            bad.append(("ALPHA with eta_i = mu_i(1+lam_i(u-mu_i)) and the betting test disagree",
                        {"cfg": C.jsonable(cfg), "xs": C.jsonable(xs), "alpha": C.jsonable(ha), "betting": C.jsonable(hb)}))
        if not all(nnm.close(float(a), float(b), rel=1e-6, ab=1e-9) for a, b, k in zip(back, lam * np.ones(len(x)), ok) if k):
            bad.append(("eta_to_lam(lam_to_eta(lam, mu), mu) != lam",
                        {"cfg": C.jsonable(cfg), "xs": C.jsonable(xs), "lam": C.jsonable(lam), "back": C.jsonable(back)}))
    return bad, runs


def conv_cases(rng, n):
    NonnegMean = nnm.NM()
    out = []
    for _ in range(n):
        u = rng.choice([F(1), F(2), F(3, 2), F(65, 64)])
        mu = F(rng.randint(0, int(u * 16)), 16) if rng.random() < 0.9 else u
        a = F(rng.randint(0, 64), 32)
        tst = NonnegMean(u=float(u))
        with np.errstate(all="ignore"):
            r1 = float(tst.lam_to_eta(np.float64(a), np.float64(mu)))
            r2 = float(tst.eta_to_lam(np.float64(a), np.float64(mu)))
        out.append({"u": u, "a": a, "mu": mu, "r1": r1, "r2": r2})
    return out


def run(ctx, res):
    if getattr(ctx, "replay", None):
        nnm.run_replay(ctx, res, lambda c: [w for w,_ in oracle_defs(c)])
        return
    genarith.regenerate(ctx.pid, "nnm", res)
    genarith.regenerate(ctx.pid, "nnm_products", res)   # the product expressions themselves   # regenerated tie: lam_to_eta, eta_to_lam, optimal_comparison
    cases, cr = nnm.run_corr(ctx.pid, ctx.rng, ctx.n(900, 12000), maxlen=ctx.n(12, 14))
    res.corr.append(("NonnegMean.test/estim/bet vs NNM.run_test", cr, nnm.case_json))
    cc = conv_cases(ctx.rng, ctx.n(300, 3000))
    cr2 = C.run_corr(ctx.pid, "conv", nnm.IMPORTS, "Q * Q * Q * Xq * Xq", cc,
                     lambda c: f"({C.qlit(c['u'])}, {C.qlit(c['a'])}, {C.qlit(c['mu'])}, {C.xlit(c['r1'])}, {C.xlit(c['r2'])})",
                     "agree_conv", shard=300)
    res.corr.append(("NonnegMean.lam_to_eta / eta_to_lam vs NNM.lam_to_eta / eta_to_lam", cr2, C.jsonable))
    res.evaluations += len(cases) + len(cc)
    for c in cases:
        res.oracle_runs += 1
        if len(set(c["xs"])) > 1:
            res.nontrivial.add(repr((c["cfg"], c["xs"])))
        for what, obs in oracle_defs(c):
            res.oracle_violations.append({"what": f"{c['cfg']['kind']}: {what}", "input": nnm.case_json(c), "observed": obs,
                                          "signature": f"C12:{c['cfg']['kind']}:{what}"})
    bad, runs = oracle_alpha_betting(ctx.rng, ctx.n(300, 4000))
    res.oracle_runs += runs
    res.evaluations += runs
    for what, obs in bad:
        res.oracle_violations.append({"what": what, "input": obs, "signature": f"C12:{what}"})
    res.rule = ("correspondence as C11 plus the two conversion functions on a grid incl. mu = 0 and mu = u; oracle: every reported history "
                "re-derived from the published product in exact rationals (using the implementation's own eta_j / lambda_j), and alpha_mart run "
                "with eta_j = mu_j(1+lam_j(u-mu_j)) against betting_mart; non-trivial = non-constant sample")
    res.samples = [nnm.case_json(c) for c in cases[:3]]
    res.stats = nnm.branch_stats(cases)
    res.assumptions = ["np.sqrt modelled by an abstract function in theorems; Z.sqrt to 2^-60 in runs"]
