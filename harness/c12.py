"""C12 — test statistics equal their published definitions; ALPHA and betting forms agree."""
import math
import warnings
from fractions import Fraction as F

import numpy as np

from . import common as C, nnm, genarith

ANCHORS = nnm.ANCHORS
ATOL = 2.0 ** -51


def definition_history(case):
    """min(1, 1/T_j) from the published products, in exact arithmetic, using the implementation's own eta_j / lambda_j.
    Returns list of expected values or None where the property text does not pin the value (tolerance bands)."""
    cfg, xs, o = case["cfg"], case["xs"], case["impl"]
    k, u, t, N = cfg["kind"], cfg["u"], cfg["t"], cfg["N"]
    g = cfg["p"].get("g", F(0))
    exp = []
    # long / awkward-magnitude stream: sums and null means stay exact, the running product is carried as a float
    # (an exact product of thousands of factors is too slow), and a total within 1e-12 (relative) of the null total
    # leaves the remaining entries unpinned, because there the implementation's rounding decides the branch
    lng = bool(cfg.get("long"))
    T = 1.0 if lng else F(1)
    fl = (lambda v: float(v)) if lng else (lambda v: v)
    S = F(0)
    dead = False

    def near(total, null_total):
        return lng and abs(total - null_total) <= F(1, 10 ** 12) * max(abs(total), abs(null_total))
    for j, x in enumerate(xs, start=1):
        if k in ("km", "kw"):
            if k == "km":
                if x + g == 0:
                    dead = True      # T = 0 from here on: p = 1
                else:
                    T *= fl((x + g) / (t + g))
            else:
                T *= fl((1 - g) * x / t + g)
            if lng and (T == 0 or math.isinf(T) or math.isnan(T)) and not dead:
                exp.append(None)     # under/overflow of the float product: not pinned
            else:
                exp.append(1.0 if dead or T == 0 else min(1.0, float(1 / T)))
            continue
        if k == "kk":
            if near(S, N * (t + g)) or (lng and dead is None):
                dead = None          # unpinned from here on
                exp.append(None); S += x + g
                continue
            m = (N * (t + g) - S) / (N - j + 1)
            xg = x + g
            if m < 0 or (m == 0 and xg > 0):
                exp.append(0.0); dead = True
            elif dead:
                exp.append(None)
            else:
                if not (m == 0 and xg == 0):
                    T *= fl(xg / m)
                if lng and (T == 0 or math.isinf(T) or math.isnan(T)):
                    exp.append(None)
                else:
                    exp.append(1.0 if T == 0 else min(1.0, float(1 / T)))
            S += xg
            continue
        if dead is None or (N is not None and (near(S, N * t) or near(S + x, N * t))):
            dead = None              # rounding decides which side of the null total we are on: unpinned from here on
            exp.append(None); S += x
            continue
        m = (N * t - S) / (N - j + 1) if N is not None else t
        S += x
        if j == len(xs) and N is not None and S > N * t:   # final sample makes the total exceed the null total
            exp.append(0.0); continue
        if m < 0:
            exp.append(0.0); dead = True; continue
        if m > u:
            exp.append(1.0); dead = True; continue
        inband = abs(m) <= 2 * ATOL + 1e-5 * abs(m) or abs(u - m) <= 2 * ATOL + 2e-6 * abs(m)
        if dead or m == 0 or m == u:
            dead = True
            exp.append(1.0 if (m == 0 or m == u) else None)
            continue
        if k in ("alpha_fixed", "alpha_shrink", "alpha_optcomp", "sprt"):
            if k == "sprt":
                eta = (N * cfg["p"]["eta"] - (S - x)) / (N - j + 1) if N is not None else cfg["p"]["eta"]
                eta = min(u, max(F(0), eta))
            else:
                eta = C.frac(o["aux"][j - 1])
            eta = min(u, max(eta, m))
            if lng:
                xf, ef, mf, uf = float(x), float(eta), float(m), float(u)
                if mf == 0.0 or mf == uf:
                    dead = None
                    exp.append(None); continue
                fac = (xf * ef / mf + (uf - xf) * (uf - ef) / (uf - mf)) / uf
            else:
                fac = (x * eta / m + (u - x) * (u - eta) / (u - m)) / u
        else:
            # the fixed bet is the configured constant; aGRAPA's bets are taken from the implementation (C13 bounds them)
            lam = cfg["p"]["lam"] if k == "bet_fixed" else C.frac(o["aux"][j - 1])
            fac = fl(1 + lam * (x - m))
        T *= fac
        if lng and (abs(fac) < 1e-7 or abs(T) < 1e-12):
            dead = None      # a factor formed by cancellation (1 - c with c -> 1, u - eta with eta -> u): its rounding error
            exp.append(None)  # never leaves the product
            continue
        if inband or abs(T) < 1e-12 or (lng and (math.isinf(T) or math.isnan(T))):
            exp.append(None)
        else:
            exp.append(min(1.0, float(1 / T)) if T > 0 else None)
    return exp


def oracle_defs(case):
    o = case["impl"]
    if o["exc"] or len(o["hist"]) != len(case["xs"]):
        return []
    exp = definition_history(case)
    for j, (e, h) in enumerate(zip(exp, o["hist"])):
        if e is not None and not nnm.close(e, h, rel=1e-7, ab=1e-12):
            return [(f"history entry differs from min(1, 1/T_j) of the published definition",
                     {"index": j, "expected": e, "reported": h})]
    return []


def oracle_alpha_betting(rng, n):
    """Run alpha_mart with eta_j = mu_j(1+lam_j(u-mu_j)) against betting_mart on the implementation."""
    NonnegMean = nnm.NM()
    bad, runs = [], 0
    for _ in range(n):
        cfg = nnm.gen_cfg(rng, kind=rng.choice(["bet_fixed", "bet_agrapa"]))
        xs = nnm.gen_xs(rng, cfg, maxlen=14)
        x = np.array([float(v) for v in xs])
        with warnings.catch_warnings():
            warnings.simplefilter("ignore")
            try:
                bt = nnm.build(cfg)
                pb, hb = bt.test(x)
                lam = bt.bet(x)
                Nn = cfg["N"] if cfg["N"] is not None else np.inf

                def est(self, xx, lam=lam):
                    _, _, _, m = self.sjm(self.N, self.t, xx)
                    with np.errstate(all="ignore"):
                        return self.lam_to_eta(lam, m)
                at = NonnegMean(test=NonnegMean.alpha_mart, estim=est, u=float(cfg["u"]), N=Nn, t=float(cfg["t"]))
                pa, ha = at.test(x)
                # round trip of the conversions on this data
                _, _, _, m = at.sjm(at.N, at.t, x)
                m = m * np.ones(len(x))
                ok = (m > 0) & (m < float(cfg["u"]) * (1 - 1e-6))
                with np.errstate(all="ignore"):
                    back = at.eta_to_lam(at.lam_to_eta(lam, m), m)
            except Exception as e:  # noqa
                continue
        runs += 1
        if not (nnm.close(float(pa), float(pb), rel=1e-7) and all(nnm.close(float(a), float(b), rel=1e-7) for a, b in zip(ha, hb))):
            bad.append(("ALPHA with eta_i = mu_i(1+lam_i(u-mu_i)) and the betting test disagree",
                        {"cfg": C.jsonable(cfg), "xs": C.jsonable(xs), "alpha": C.jsonable(ha), "betting": C.jsonable(hb)}))
        if not all(nnm.close(float(a), float(b), rel=1e-6, ab=1e-9) for a, b, k in zip(back, lam * np.ones(len(x)), ok) if k):
            bad.append(("eta_to_lam(lam_to_eta(lam, mu), mu) != lam",
                        {"cfg": C.jsonable(cfg), "xs": C.jsonable(xs), "lam": C.jsonable(lam), "back": C.jsonable(back)}))
    return bad, runs


def conv_cases(rng, n):
    NonnegMean = nnm.NM()
    out = []
    for _ in range(n):
        u = rng.choice([F(1), F(2), F(3, 2), F(65, 64)])
        mu = F(rng.randint(0, int(u * 16)), 16) if rng.random() < 0.9 else u
        a = F(rng.randint(0, 64), 32)
        tst = NonnegMean(u=float(u))
        with np.errstate(all="ignore"):
            r1 = float(tst.lam_to_eta(np.float64(a), np.float64(mu)))
            r2 = float(tst.eta_to_lam(np.float64(a), np.float64(mu)))
        out.append({"u": u, "a": a, "mu": mu, "r1": r1, "r2": r2})
    return out


def run(ctx, res):
    if getattr(ctx, "replay", None):
        nnm.run_replay(ctx, res, lambda c: [w for w,_ in oracle_defs(c)])
        return
    genarith.regenerate(ctx.pid, "nnm", res)
    genarith.regenerate(ctx.pid, "nnm_masks", res)      # whole-function skeletons + boundary conventions (p = 0 / p = 1 rules)
    genarith.regenerate(ctx.pid, "nnm_products", res)   # the product expressions themselves   # regenerated tie: lam_to_eta, eta_to_lam, optimal_comparison
    cases, cr = nnm.run_corr(ctx.pid, ctx.rng, ctx.n(900, 12000), maxlen=ctx.n(12, 14))
    res.corr.append(("NonnegMean.test/estim/bet vs NNM.run_test", cr, nnm.case_json))
    cc = conv_cases(ctx.rng, ctx.n(300, 3000))
    cr2 = C.run_corr(ctx.pid, "conv", nnm.IMPORTS, "Q * Q * Q * Xq * Xq", cc,
                     lambda c: f"({C.qlit(c['u'])}, {C.qlit(c['a'])}, {C.qlit(c['mu'])}, {C.xlit(c['r1'])}, {C.xlit(c['r2'])})",
                     "agree_conv", shard=300)
    res.corr.append(("NonnegMean.lam_to_eta / eta_to_lam vs NNM.lam_to_eta / eta_to_lam", cr2, C.jsonable))
    res.evaluations += len(cases) + len(cc)
    for c in cases:
        res.oracle_runs += 1
        if len(set(c["xs"])) > 1:
            res.nontrivial.add(repr((c["cfg"], c["xs"])))
        for what, obs in oracle_defs(c):
            res.oracle_violations.append({"what": f"{c['cfg']['kind']}: {what}", "input": nnm.case_json(c), "observed": obs,
                                          "signature": f"C12:{c['cfg']['kind']}:{what}"})
    lg = nnm.long_cases(ctx.rng, ctx.n(150, 1500))     # long samples / awkward magnitudes: definition oracle only
    for c in lg:
        res.oracle_runs += 1
        res.evaluations += 1
        for what, obs in oracle_defs(c):
            res.oracle_violations.append({"what": f"{c['cfg']['kind']}: {what}", "input": nnm.case_json(c), "observed": obs,
                                          "signature": f"C12:{c['cfg']['kind']}:{what}"})
    bad, runs = oracle_alpha_betting(ctx.rng, ctx.n(300, 4000))
    res.oracle_runs += runs
    res.evaluations += runs
    for what, obs in bad:
        res.oracle_violations.append({"what": what, "input": obs, "signature": f"C12:{what}"})
    res.rule = ("correspondence as C11 plus the two conversion functions on a grid incl. mu = 0 and mu = u; oracle: every reported history "
                "re-derived from the published product in exact rationals (using the implementation's own eta_j / lambda_j), and alpha_mart run "
                "with eta_j = mu_j(1+lam_j(u-mu_j)) against betting_mart; the definition oracle also runs on long samples (65..3000 draws, totals "
                "passing N t by 1e-9..1e-5 relative on the last draw, integer-typed u, units of 1e-9..1e6) with exact sums and a float product; non-trivial = non-constant sample")
    res.samples = [nnm.case_json(c) for c in cases[:3]]
    res.stats = dict(nnm.branch_stats(cases), **nnm.long_stats(lg))
    res.assumptions = ["np.sqrt modelled by an abstract function in theorems; Z.sqrt to 2^-60 in runs"]
