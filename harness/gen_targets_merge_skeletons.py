"""Whole-function skeletons (regenerated tie, see BUILDING_skeletons.md) for the functions C17 and C18 are anchored in:
CVR.merge_cvrs, CVR.from_raire, CVR.from_raire_file (shangrla/core/Audit.py) and prep_manifest / sample_from_manifest
of shangrla/formats/Dominion.py and Hart.py.  Every statement is listed: exact text, or (for the arithmetic lines) an
expression translated into a Q-valued definition.  The `tail` of each target is the line-by-line Gallina reading of the
exact-text lines; coq/gen/GenProofs_merge_skeletons.v proves each tail equal to the hand model (Merge.v / Manifest.v)
and restates the property-relevant facts on the generated definitions.  Names of the two models are used qualified
(both define res / Ok / Err / dict_set)."""

GROUP = "merge_skeletons"
HEADER = "From SV Require Merge Manifest.\n"

TP_TEST = ("od[c.id].tally_pool is None and c.tally_pool is None or (od[c.id].tally_pool is not None and c.tally_pool is None) "
           "or od[c.id].tally_pool == c.tally_pool")

TAIL_MERGE = """(* CVR.merge_cvrs, else-branch of the loop body, one `let` per source line; o is od[c.id] *)
Definition gen_merge_step_tail (o c : Merge.rec) : Merge.res Merge.rec :=
  (* od[c.id].votes = {**od[c.id].votes, **c.votes} *)
  let votes := Merge.dict_merge (Merge.c_votes o) (Merge.c_votes c) in
  (* od[c.id].phantom = c.phantom and od[c.id].phantom *)
  let phantom := Merge.py_and (Merge.c_phantom c) (Merge.c_phantom o) in
  (* od[c.id].pool = c.pool or od[c.id].pool *)
  let pool := Merge.py_or (Merge.c_pool c) (Merge.c_pool o) in
  (* if od.tally_pool is None and c.tally_pool is None or (od.tally_pool is not None and c.tally_pool is None)
        or od.tally_pool == c.tally_pool: pass *)
  if (Merge.is_none (Merge.c_tp o) && Merge.is_none (Merge.c_tp c))
     || (negb (Merge.is_none (Merge.c_tp o)) && Merge.is_none (Merge.c_tp c))
     || Merge.py_eq (Merge.c_tp o) (Merge.c_tp c)
  then Merge.Ok (Merge.mkrec (Merge.c_id o) votes phantom pool (Merge.c_tp o))
  (* elif od.tally_pool is None and c.tally_pool is not None: od.tally_pool = c.tally_pool *)
  else if Merge.is_none (Merge.c_tp o) && negb (Merge.is_none (Merge.c_tp c))
  then Merge.Ok (Merge.mkrec (Merge.c_id o) votes phantom pool (Merge.c_tp c))
  (* else: raise ValueError(...) *)
  else Merge.Err Merge.EValue.
(* for c in cvr_list: if c.id not in od: od[c.id] = c  else: <step>;  return [v for v in od.values()] *)
Fixpoint gen_merge_loop_tail (od l : list Merge.rec) : Merge.res (list Merge.rec) :=
  match l with
  | [] => Merge.Ok od
  | c :: rest =>
      match Merge.od_find od (Merge.c_id c) with
      | None => gen_merge_loop_tail (od ++ [c]) rest
      | Some o => match gen_merge_step_tail o c with
                  | Merge.Err e => Merge.Err e
                  | Merge.Ok o' => gen_merge_loop_tail (Merge.od_replace od o') rest
                  end
      end
  end.
(* od = OrderedDict() *)
Definition gen_merge_cvrs_tail (l : list Merge.rec) : Merge.res (list Merge.rec) := gen_merge_loop_tail [] l.
"""

TAIL_RAIRE = """(* CVR.from_raire: for j in range(2, len(c)): votes[str(c[j])] = j - 1   (j is the index of the cell) *)
Fixpoint gen_raire_votes_tail (j : Z) (cells : list Z) (votes : Merge.contest_votes) : Merge.contest_votes :=
  match cells with
  | [] => votes
  | x :: r => gen_raire_votes_tail (j + 1)%Z r (Merge.dict_set votes x (j - 1)%Z)
  end.
Definition gen_raire_row_tail (phantom : bool) (c : list Z) : Merge.res Merge.rec :=
  match c with
  | contest_id :: id :: cells =>      (* contest_id = c[0]; id = c[1]; votes = {} ; the loop over c[2:] *)
      (* cvr_list.append(CVR.from_vote(votes, id=id, contest_id=contest_id, phantom=phantom)) *)
      Merge.Ok (Merge.mkrec id [(contest_id, gen_raire_votes_tail 2 cells [])] (Merge.PBool phantom) (Merge.PBool false) Merge.PNone)
  | _ => Merge.Err Merge.EIndex
  end.
Fixpoint gen_raire_rows_tail (phantom : bool) (rows : list (list Z)) : Merge.res (list Merge.rec) :=
  match rows with
  | [] => Merge.Ok []
  | c :: rest => match gen_raire_row_tail phantom c with
                 | Merge.Err e => Merge.Err e
                 | Merge.Ok r => match gen_raire_rows_tail phantom rest with
                                 | Merge.Ok rs => Merge.Ok (r :: rs) | Merge.Err e => Merge.Err e end
                 end
  end.
(* skip = int(raire[0][0]); for c in raire[skip + 1:]: ...; return (CVR.merge_cvrs(cvr_list), len(raire) - skip) *)
Definition gen_from_raire_tail (skip : nat) (raire : list (list Z)) (phantom : bool) : Merge.res (list Merge.rec * Z) :=
  match gen_raire_rows_tail phantom (skipn (S skip) raire) with
  | Merge.Err e => Merge.Err e
  | Merge.Ok cvr_list => match Merge.merge_cvrs cvr_list with
                         | Merge.Err e => Merge.Err e
                         | Merge.Ok out => Merge.Ok (out, (Z.of_nat (length raire) - Z.of_nat skip)%Z)
                         end
  end.
"""

TAIL_RAIRE_FILE = """(* CVR.from_raire_file: cvrs, cvrs_read = CVR.from_raire(cvr_in); return (cvrs, cvrs_read, len(cvrs)) *)
Definition gen_from_raire_file_tail (skip : nat) (cvr_in : list (list Z)) : Merge.res (list Merge.rec * Z * Z) :=
  match Merge.from_raire skip cvr_in false with
  | Merge.Err e => Merge.Err e
  | Merge.Ok (cvrs, cvrs_read) => Merge.Ok (cvrs, cvrs_read, Z.of_nat (length cvrs))
  end.
"""


def tail_prep(name, vendor, tray):
    return f"""(* {vendor}.prep_manifest, line by line *)
Definition gen_{name}_tail (m : list Manifest.row) (max_cards n_cvrs : Z)
  : Manifest.res (Manifest.prepared * Z * Z) :=
  (* manifest_cards = manifest[<count column>].sum() *)
  let manifest_cards := Manifest.zsum (Manifest.sizes m) in
  (* assert manifest_cards <= max_cards *)
  if negb (manifest_cards <=? max_cards)%Z then Manifest.Err Manifest.EAssert else
  (* assert manifest_cards >= n_cvrs *)
  if negb (manifest_cards >=? n_cvrs)%Z then Manifest.Err Manifest.EAssert else
  (* phantoms = 0 *)
  let phantoms := 0%Z in
  (* if manifest_cards < max_cards: phantoms = max_cards - manifest_cards; r = {{..None.., 'phantom', 1, phantoms}};
       manifest = pd.concat([manifest, pd.DataFrame([r])]) *)
  let pm := if (manifest_cards <? max_cards)%Z
            then let phantoms := (max_cards - manifest_cards)%Z in
                 (phantoms, m ++ [Manifest.mkrow Manifest.none_str {tray} Manifest.phantom_tab 1%Z phantoms])
            else (phantoms, m) in
  (* manifest['cum_cards'] = manifest[<count column>].cumsum(); return (manifest, manifest_cards, phantoms) *)
  Manifest.Ok (Manifest.mkprep (snd pm) (Manifest.cumsum (Manifest.sizes (snd pm))), manifest_cards, fst pm).
"""


def tail_lookup(name, vendor, side, fn):
    return f"""(* {vendor}.sample_from_manifest, the lookup lines of the loop body *)
Definition gen_{name}_tail (cum : list Z) (s : Z) : option (nat * Z) :=
  (* lookup = np.array([0] + list(manifest['cum_cards'])) *)
  let lookup := (0%Z :: cum) in
  (* batch_num = int(np.searchsorted(lookup, s, side='{side}')) *)
  let batch_num := Manifest.{fn} lookup s in
  (* card_in_batch = int(s - lookup[batch_num - 1]);  row manifest.iloc[batch_num - 1] *)
  match batch_num with
  | O => None
  | S b => if (b <? length cum)%nat then Some (b, (s - nth b lookup 0%Z)%Z) else None
  end.
"""


def prep_skeleton(cols, count, warn, r, concat, strcols):
    return [("text", f"cols = {cols}"),
            ("text", "assert set(cols).issubset(manifest.columns), 'missing columns'"),
            ("text", f"manifest_cards = manifest['{count}'].sum()"),
            ("text", "assert manifest_cards <= max_cards, f'cards in manifest {manifest_cards} exceeds max possible {max_cards}'"),
            ("text", "assert manifest_cards >= n_cvrs, f'number of cvrs {n_cvrs} exceeds number of cards in the manifest {manifest_cards}'"),
            ("text", "phantoms = 0"),
            ("if", "manifest_cards < max_cards"),
            ("expr", "phantoms", "phantoms", ["max_cards", "manifest_cards"], {}),
            ("text", warn),
            ("text", f"r = {r}"),
            ("text", concat),
            ("endif",),
            ("text", f"manifest['cum_cards'] = manifest['{count}'].cumsum()"),
            ("for", f"c in {strcols}"),
            ("text", "manifest[c] = manifest[c].astype(str)"),
            ("endfor",),
            ("text", "return (manifest, manifest_cards, phantoms)")]


def sfm_skeleton(side, tabcol, batchcol, card, key):
    return [("text", "cards = []"), ("text", "sample_order = {}"), ("text", "mvr_phantoms = []"),
            ("text", "lookup = np.array([0] + list(manifest['cum_cards']))"),
            ("for", "(i, s) in enumerate(sample)"),
            ("text", f"batch_num = int(np.searchsorted(lookup, s, side='{side}'))"),
            ("text", "card_in_batch = int(s - lookup[batch_num - 1])"),
            ("text", f"tab = manifest.iloc[batch_num - 1]['{tabcol}']"),
            ("text", f"batch = manifest.iloc[batch_num - 1]['{batchcol}']"),
            ("text", "card_id = f'{tab}-{batch}-{card_in_batch}'"),
            ("text", card),
            ("text", "cards.append(card)"),
            ("if", "tab == 'phantom'"),
            ("text", "mvr_phantoms.append(CVR(id=card_id, votes={}, phantom=True))"),
            ("endif",),
            ("text", "sample_order[card_id] = {}"),
            ("text", "sample_order[card_id]['selection_order'] = i"),
            ("expr", "sample_order[card_id]['serial']", "serial", ["s"], {}),
            ("endfor",),
            ("text", f"cards.sort(key=lambda x: x[{key}])"),
            ("text", "return (cards, sample_order, mvr_phantoms)")]


TARGETS = [
    dict(name="merge", kind="skeleton", file="shangrla/core/Audit.py", func="CVR.merge_cvrs",
         skeleton=[("text", "od = OrderedDict()"),
                   ("for", "c in cvr_list"),
                   ("if", "c.id not in od"),
                   ("text", "od[c.id] = c"),
                   ("else",),
                   ("text", "od[c.id].votes = {**od[c.id].votes, **c.votes}"),
                   ("text", "od[c.id].phantom = c.phantom and od[c.id].phantom"),
                   ("text", "od[c.id].pool = c.pool or od[c.id].pool"),
                   ("if", TP_TEST),
                   ("text", "pass"),
                   ("else",),
                   ("if", "od[c.id].tally_pool is None and c.tally_pool is not None"),
                   ("text", "od[c.id].tally_pool = c.tally_pool"),
                   ("else",),
                   ("text", "raise ValueError(f'two CVRs with the same ID have different tally_pools: \\nstr(od)={str(od)!r}\\nstr(c)={str(c)!r}')"),
                   ("endif",), ("endif",), ("endif",),
                   ("endfor",),
                   ("text", "return [v for v in od.values()]")],
         tail=TAIL_MERGE),
    dict(name="raire", kind="skeleton", file="shangrla/core/Audit.py", func="CVR.from_raire",
         skeleton=[("text", "skip = int(raire[0][0])"),
                   ("text", "cvr_list = []"),
                   ("for", "c in raire[skip + 1:]"),
                   ("text", "contest_id = c[0]"),
                   ("text", "id = c[1]"),
                   ("text", "votes = {}"),
                   ("for", "j in range(2, len(c))"),
                   ("expr", "votes[str(c[j])]", "rank", ["j"], {}),
                   ("endfor",),
                   ("text", "cvr_list.append(CVR.from_vote(votes, id=id, contest_id=contest_id, phantom=phantom))"),
                   ("endfor",),
                   ("text", "return (CVR.merge_cvrs(cvr_list), len(raire) - skip)")],
         tail=TAIL_RAIRE),
    dict(name="raire_file", kind="skeleton", file="shangrla/core/Audit.py", func="CVR.from_raire_file",
         skeleton=[("text", "cvr_in = []"),
                   ("with", "open(cvr_file) as f"),
                   ("text", "cvr_reader = csv.reader(f, delimiter=',', quotechar='\"')"),
                   ("for", "row in cvr_reader"),
                   ("text", "cvr_in.append(row)"),
                   ("endfor",), ("endwith",),
                   ("text", "cvrs, cvrs_read = CVR.from_raire(cvr_in)"),
                   ("text", "return (cvrs, cvrs_read, len(cvrs))")],
         tail=TAIL_RAIRE_FILE),
    dict(name="dprep", kind="skeleton", file="shangrla/formats/Dominion.py", func="Dominion.prep_manifest",
         skeleton=prep_skeleton("['Tray #', 'Tabulator Number', 'Batch Number', 'Total Ballots', 'VBMCart.Cart number']",
                                "Total Ballots",
                                "warnings.warn(f'manifest does not account for every card; appending batch of {phantoms} ' + f'phantom cards to the manifest')",
                                "{'Tray #': None, 'Tabulator Number': 'phantom', 'Batch Number': 1, 'Total Ballots': phantoms, 'VBMCart.Cart number': None}",
                                "manifest = pd.concat([manifest, pd.DataFrame([r])], ignore_index=True)",
                                "['Tray #', 'Tabulator Number', 'Batch Number', 'VBMCart.Cart number']"),
         tail=tail_prep("dprep", "Dominion", "Manifest.none_str")),
    dict(name="hprep", kind="skeleton", file="shangrla/formats/Hart.py", func="Hart.prep_manifest",
         skeleton=prep_skeleton("['Container', 'Tabulator', 'Batch Name', 'Number of Ballots']",
                                "Number of Ballots",
                                "warnings.warn(f'manifest does not account for every card; appending batch of {phantoms} phantom cards to the manifest')",
                                "{'Container': None, 'Tabulator': 'phantom', 'Batch Name': 1, 'Number of Ballots': phantoms}",
                                "manifest = pd.concat([manifest, pd.DataFrame([r])])",
                                "['Container', 'Tabulator', 'Batch Name', 'Number of Ballots']"),
         tail=tail_prep("hprep", "Hart", "0%Z")),
    dict(name="dsfm", kind="skeleton", file="shangrla/formats/Dominion.py", func="Dominion.sample_from_manifest",
         skeleton=sfm_skeleton("left", "Tabulator Number", "Batch Number",
                               "card = list(manifest.iloc[batch_num - 1][['VBMCart.Cart number', 'Tray #']]) + [tab, batch, card_in_batch, card_id, s]",
                               "-1"),
         tail=tail_lookup("dsfm", "Dominion", "left", "searchsorted_left")),
    dict(name="hsfm", kind="skeleton", file="shangrla/formats/Hart.py", func="Hart.sample_from_manifest",
         skeleton=sfm_skeleton("right", "Tabulator", "Batch Name",
                               "card = list(manifest.iloc[batch_num - 1][['Container']]) + [tab, batch, card_in_batch, card_id]",
                               "-2"),
         tail=tail_lookup("hsfm", "Hart", "right", "searchsorted_right")),
]
