"""Whole-function skeletons (group "status_skeletons") for the functions C08 and C09 are anchored in:
Assertion.set_p_values, Audit.summarize_status, Assertion.reset_p_values, CVR.make_phantoms (shangrla/core/Audit.py).
Every statement is listed; a statement that does not match is a refusal of the translator = broken proof obligations
(coq/gen/GenProofs_status_skeletons.v).  The `tail`s are the line-by-line Gallina reading of the exact-text lines."""

GROUP = "status_skeletons"
HEADER = "From SV Require Import Phantoms Status.\n"
F = "shangrla/core/Audit.py"

# Assertion.set_p_values: the two loop bodies and the initial values, line for line.  `r` is what asn.test.test(d) returned
# for d, u = asn.mvrs_to_data(mvr_sample, cvr_sample) (the test is a parameter of the model: Status.v).
TAIL_SETP = """Definition gen_setp_p_max_init : Xq := Fin 0.                                                 (* p_max = 0 *)
Definition gen_setp_contest_init : list (Z * Xq) * list (Z * bool) * Xq := ([], [], Fin 0).   (* con.p_values = {}; con.proved = {}; contest_max_p = 0 *)
Definition gen_setp_asn_step (risk_limit : Q) (r : Xq * list Xq) (asn : assertion)
    (st : list (Z * Xq) * list (Z * bool) * Xq) : assertion * (list (Z * Xq) * list (Z * bool) * Xq) :=
  let '(p_values, proved, contest_max_p) := st in
  let p_value := fst r in let p_history := snd r in                            (* asn.p_value, asn.p_history = asn.test.test(d) *)
  let asn_proved := (xle p_value (Fin risk_limit) || a_proved asn)%bool in      (* asn.proved = asn.p_value <= con.risk_limit or asn.proved *)
  let p_values := dict_update p_values (a_key asn) p_value in                  (* con.p_values.update({a: asn.p_value}) *)
  let proved := dict_update proved (a_key asn) asn_proved in                   (* con.proved.update({a: asn.proved}) *)
  let contest_max_p := xmax_np contest_max_p p_value in                        (* contest_max_p = np.max([contest_max_p, asn.p_value]) *)
  (mkasn (a_key asn) p_value p_history asn_proved, (p_values, proved, contest_max_p)).
Definition gen_setp_contest_step (p_max contest_max_p : Xq) : Xq * Xq :=
  let max_p := contest_max_p in                                                (* contests[c].max_p = contest_max_p *)
  (max_p, xmax_np p_max max_p).                                                (* p_max = np.max([p_max, contests[c].max_p]) *)
"""

# Audit.summarize_status: prints are not modelled
TAIL_SUM = """Definition gen_sumst_asn_step (cpmax : Xq) (a : assertion) : Xq :=
  xmax_np cpmax (a_p a).                                                       (* cpmax = np.max([cpmax, a.p_value]) *)
Definition gen_sumst_contest_step (done : bool) (con : contest) : bool :=
  let cpmax := Fin 0 in                                                        (* cpmax = 0 *)
  let cpmax := fold_left gen_sumst_asn_step (c_asns con) cpmax in              (* for i, a in con.assertions.items(): ... *)
  if xle cpmax (Fin (c_limit con)) then done else false.                       (* if cpmax <= contests[c].risk_limit: (print) else: done = False (prints) *)
Definition gen_sumst_tail (contests : list contest) : bool :=
  let done := true in                                                          (* done = True *)
  fold_left gen_sumst_contest_step contests done.                              (* for c, con in contests.items(): ...; return done *)
"""

TAIL_RESET = """Definition gen_resetp_asn (asn : assertion) : assertion :=
  mkasn (a_key asn) (Fin 1) [] false.                                          (* asn.p_value, asn.p_history = (1, []); asn.proved = False *)
Definition gen_resetp_contest (con : contest) : contest :=
  let asns := map gen_resetp_asn (c_asns con) in
  mkcon (c_key con) (c_limit con) asns
        (fold_left (fun d a => dict_update d (a_key a) (a_p a)) asns [])       (* con.p_values = {}; ... con.p_values.update({a: asn.p_value}) *)
        (fold_left (fun d a => dict_update d (a_key a) (a_proved a)) asns [])  (* con.proved = {}; ... con.proved.update({a: asn.proved}) *)
        (Fin 1).                                                               (* contests[c].max_p = 1 *)
Definition gen_resetp_tail (contests : list contest) : list contest * bool :=
  (map gen_resetp_contest contests, true).                                     (* return True *)
"""

# CVR.make_phantoms: the decisive statements; the two subtractions are regenerated from the source (gen_mp_nostyle_phantoms,
# gen_mp_needed), the rest is the reading of the exact-text lines
TAIL_MP = """Definition gen_mp_cvrs (cid : Z) (cvr_list : list card) : Z :=                     (* con.cvrs = int(np.sum([cvr.has_contest(con.id) for cvr in cvr_list if not cvr.phantom])) *)
  Z.of_nat (length (filter (fun cvr => negb (cphantom cvr) && has_contest cvr cid) cvr_list)).
Definition gen_mp_cards (use_style : bool) (max_cards cards : option Z) : option Z :=  (* con.cards = max_cards if con.cards is None or not use_style else con.cards *)
  match cards with
  | None => max_cards
  | Some b => if negb use_style then max_cards else Some b
  end.
Definition gen_mp_phantom (tally_pool : Z) (pool : bool) (k : Z) : card :=            (* CVR(id=prefix + str(k), votes={}, phantom=True, tally_pool=tally_pool, pool=pool) *)
  mkcard (Phant k) [] 0%Z true tally_pool pool.
Fixpoint gen_mp_while (tally_pool : Z) (pool : bool) (iterations : nat) (phantom_vrs : list card) : list card :=
  match iterations with                                                        (* while len(phantom_vrs) < phantoms_needed: *)
  | O => phantom_vrs
  | S n => gen_mp_while tally_pool pool n                                      (*     phantom_vrs.append(CVR(id=prefix + str(len(phantom_vrs) + 1), ...)) *)
             (phantom_vrs ++ [gen_mp_phantom tally_pool pool (Z.of_nat (length phantom_vrs) + 1)%Z])
  end.
Fixpoint gen_mp_list_contest (n : nat) (cid : Z) (phantom_vrs : list card) : list card :=
  match n, phantom_vrs with                                                    (* for i in range(phantoms_needed): phantom_vrs[i].votes[con.id] = {} *)
  | S n', c :: r => add_contest cid c :: gen_mp_list_contest n' cid r
  | _, _ => phantom_vrs
  end.
Definition gen_mp_style_body (tally_pool : Z) (pool : bool) (phantom_vrs : list card) (con : cstate) : result (list card) :=
  match cs_cards con with
  | None => Err EType                                                          (* None - int *)
  | Some cards =>
      let phantoms_needed := (cards - cs_cvrs con)%Z in                        (* phantoms_needed = con.cards - con.cvrs   [gen_mp_needed] *)
      let phantom_vrs := gen_mp_while tally_pool pool (Z.to_nat (phantoms_needed - Z.of_nat (length phantom_vrs))) phantom_vrs in
      Ok (gen_mp_list_contest (Z.to_nat phantoms_needed) (cs_id con) phantom_vrs)
  end.
Definition gen_mp_nostyle_list (tally_pool : Z) (pool : bool) (phantoms : Z) : list card :=   (* for i in range(phantoms): phantom_vrs.append(CVR(id=prefix + str(i + 1), ...)) *)
  map (fun i => gen_mp_phantom tally_pool pool (Z.of_nat i + 1)%Z) (seq 0 (Z.to_nat phantoms)).
"""

TARGETS = [
    dict(name="setp", kind="skeleton", file=F, func="Assertion.set_p_values",
         skeleton=[("text", "if cvr_sample is not None:\n    assert len(mvr_sample) == len(cvr_sample), 'unequal numbers of cvrs and mvrs'"),
                   ("text", "p_max = 0"),
                   ("for", "(c, con) in contests.items()"),
                   ("text", "con.p_values = {}"), ("text", "con.proved = {}"), ("text", "contest_max_p = 0"),
                   ("for", "(a, asn) in con.assertions.items()"),
                   ("text", "d, u = asn.mvrs_to_data(mvr_sample, cvr_sample)"), ("text", "asn.test.u = u"),
                   ("text", "asn.p_value, asn.p_history = asn.test.test(d)"),
                   ("text", "asn.proved = asn.p_value <= con.risk_limit or asn.proved"),
                   ("text", "con.p_values.update({a: asn.p_value})"), ("text", "con.proved.update({a: asn.proved})"),
                   ("text", "contest_max_p = np.max([contest_max_p, asn.p_value])"),
                   ("endfor",),
                   ("text", "contests[c].max_p = contest_max_p"), ("text", "p_max = np.max([p_max, contests[c].max_p])"),
                   ("endfor",),
                   ("text", "return p_max")],
         tail=TAIL_SETP),
    dict(name="sumst", kind="skeleton", file=F, func="Audit.summarize_status",
         skeleton=[("text", "done = True"),
                   ("for", "(c, con) in contests.items()"),
                   ("text", "print(f'\\np-values for assertions in contest {c}')"), ("text", "cpmax = 0"),
                   ("for", "(i, a) in con.assertions.items()"),
                   ("text", "cpmax = np.max([cpmax, a.p_value])"), ("text", "print(f'\\t{i}: {a.p_value}')"),
                   ("endfor",),
                   ("if", "cpmax <= contests[c].risk_limit"),
                   ("text", "print(f'\\ncontest {c} AUDIT COMPLETE at risk limit {con.risk_limit}. Measured risk {cpmax}')"),
                   ("else",),
                   ("text", "done = False"),
                   ("text", "print(f'\\ncontest {c} audit INCOMPLETE at risk limit {con.risk_limit}. Measured risk {cpmax}')"),
                   ("text", "print('assertions remaining to be proved:')"),
                   ("for", "(i, a) in con.assertions.items()"),
                   ("text", "if a.p_value > con.risk_limit:\n    print(f'\\t{i}\\t{a}: current risk {a.p_value}')"),
                   ("endfor",),
                   ("endif",),
                   ("endfor",),
                   ("text", "return done")],
         tail=TAIL_SUM),
    dict(name="resetp", kind="skeleton", file=F, func="Assertion.reset_p_values",
         skeleton=[("for", "(c, con) in contests.items()"),
                   ("text", "con.p_values = {}"), ("text", "con.proved = {}"),
                   ("for", "(a, asn) in con.assertions.items()"),
                   ("text", "asn.p_value, asn.p_history = (1, [])"), ("text", "asn.proved = False"),
                   ("text", "con.p_values.update({a: asn.p_value})"), ("text", "con.proved.update({a: asn.proved})"),
                   ("endfor",),
                   ("text", "contests[c].max_p = 1"),
                   ("endfor",),
                   ("text", "return True")],
         tail=TAIL_RESET),
    dict(name="mp", kind="skeleton", file=F, func="CVR.make_phantoms",
         skeleton=[("text", "if len(audit.strata) > 1:\n    raise NotImplementedError('stratified audits not implemented')"),
                   ("text", "stratum = next(iter(audit.strata.values()))"), ("text", "use_style = stratum.use_style"),
                   ("text", "max_cards = stratum.max_cards"), ("text", "phantom_vrs = []"), ("text", "n_cvrs = len(cvr_list)"),
                   ("for", "(c, con) in contests.items()"),
                   ("text", "con.cvrs = int(np.sum([cvr.has_contest(con.id) for cvr in cvr_list if not cvr.phantom]))"),
                   ("text", "con.cards = max_cards if con.cards is None or not use_style else con.cards"),
                   ("endfor",),
                   ("if", "not use_style"),
                   ("expr", "phantoms", "nostyle_phantoms", ["max_cards", "n_cvrs"], {}),
                   ("for", "i in range(phantoms)"),
                   ("text", "phantom_vrs.append(CVR(id=prefix + str(i + 1), votes={}, phantom=True, tally_pool=tally_pool, pool=pool))"),
                   ("endfor",),
                   ("else",),
                   ("for", "(c, con) in contests.items()"),
                   ("expr", "phantoms_needed", "needed", ["cards", "cvrs"], {"con.cards": "cards", "con.cvrs": "cvrs"}),
                   ("text", "while len(phantom_vrs) < phantoms_needed:\n    phantom_vrs.append(CVR(id=prefix + str(len(phantom_vrs) + 1), "
                            "votes={}, phantom=True, tally_pool=tally_pool, pool=pool))"),
                   ("for", "i in range(phantoms_needed)"),
                   ("text", "phantom_vrs[i].votes[con.id] = {}"),
                   ("endfor",),
                   ("endfor",),
                   ("text", "phantoms = len(phantom_vrs)"),
                   ("endif",),
                   ("text", "cvr_list = cvr_list + phantom_vrs"), ("text", "return (cvr_list, phantoms)")],
         tail=TAIL_MP),
]
