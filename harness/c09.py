"""C09 — the audit completes only when every assertion of every contest meets its risk limit.

Correspondence: multi-step sequences of Assertion.set_p_values / Audit.summarize_status / Assertion.reset_p_values on
shared contest objects of /repo against coq/theories/Status.v (evaluated in Run_Status.v), with every test.test(d)
recomputed by the harness from Assertion.mvrs_to_data; Audit.check_audit_parameters against Status.check_audit_parameters.
Oracle: the property text on the implementation alone."""
import contextlib
import copy
import io
import math
import re
import warnings
from fractions import Fraction as F

import numpy as np

from . import common as C

IMPORTS = "From SV Require Import Run_Status.\nOpen Scope Q_scope."
ANCHORS = [("shangrla/core/Audit.py",
            ["Assertion.set_p_values", "Audit.summarize_status", "Assertion.reset_p_values", "Audit.check_audit_parameters",
             "Assertion.mvrs_to_data"])]


def lib():
    from shangrla.core import Audit as A
    return A


def NM():
    from shangrla.core.NonnegMean import NonnegMean
    return NonnegMean


def fx(x):
    """implementation number -> Fraction, or the float itself for nan/inf"""
    if isinstance(x, F):
        return x
    if isinstance(x, (bool, np.bool_)):
        return F(int(x))
    if isinstance(x, (int, np.integer)):
        return F(int(x))
    x = float(x)
    return x if (math.isnan(x) or math.isinf(x)) else C.frac(x)


def same_num(a, b):
    if isinstance(a, float) and isinstance(b, float):
        return (math.isnan(a) and math.isnan(b)) or a == b
    if isinstance(a, float) or isinstance(b, float):
        return False
    return a == b


def le(a, b):
    """Python/numpy `a <= b` on the exact values (False whenever a NaN is involved)."""
    if isinstance(a, float) and math.isnan(a):
        return False
    if isinstance(b, float) and math.isnan(b):
        return False
    return a <= b


def npmax(vals, start=F(0)):
    m = start
    for v in vals:
        if (isinstance(m, float) and math.isnan(m)) or (isinstance(v, float) and math.isnan(v)):
            m = float("nan")
        else:
            m = v if v > m else m
    return m


# ---------------------------------------------------------------- representations a caller / a test legally produces
def repf(rng, x):
    """a float as Python float, np.float64, or a float that went through Fraction (same value)"""
    return rng.choice([float, float, np.float64, lambda v: float(F(*float(v).as_integer_ratio())) if math.isfinite(v) else float(v)])(x)


def repi(rng, x):
    return rng.choice([int, int, np.int64, np.int32])(x)


def repb(rng, x):
    return rng.choice([bool, bool, np.bool_])(x)


PCONV = {"float": float, "np.float64": np.float64, "0-d array": lambda v: np.array(float(v))}


class StubTest:
    """Stands in for a NonnegMean instance: a test whose result is a fixed function of the data (covers NaN, values
    exactly at the risk limit, values above 1) — set_p_values is parametric in the test."""

    def __init__(self, table, conv="float"):
        self.table, self.u, self.conv = [float(x) for x in table], 1, conv      # conv: how the p-value is represented

    def test(self, d):
        p = self.table[(len(d) + int(round(float(np.sum(d)) * 4)) + int(round(float(self.u) * 16))) % len(self.table)]   # data AND the bound u
        return PCONV[self.conv](p), np.array([min(1.0, p * (k + 1)) if not math.isnan(p) else p for k in range(len(d))][::-1])

    def __deepcopy__(self, memo):
        s = StubTest(list(self.table), self.conv)
        s.u = self.u
        return s


# ---------------------------------------------------------------- building audits with the library
CANDS = ["Alice", "Bob", "Candy", "Dan", "Eve", "Fay", "Gus"]
LIMITS = [0.05, 0.1, 0.01, 0.5, 0.25, 0.001, 0.2]


def gen_contest_dict(rng, cid, stub_rate):
    A, N = lib(), NM()
    kind = rng.choice(["plurality", "plurality", "supermajority", "irv"])
    at = rng.choice([A.Audit.AUDIT_TYPE.CARD_COMPARISON, A.Audit.AUDIT_TYPE.CARD_COMPARISON, A.Audit.AUDIT_TYPE.POLLING,
                     A.Audit.AUDIT_TYPE.ONEAUDIT])
    d = {"id": cid, "name": cid, "risk_limit": repf(rng, rng.choice(LIMITS)), "cards": repi(rng, 40), "audit_type": at,
         "use_style": repb(rng, rng.random() < 0.6), "n_winners": repi(rng, 1)}
    t = rng.choice(["alpha_fixed", "alpha_shrink", "alpha_opt", "bet_fixed", "bet_agrapa", "kk", "km", "kw", "sprt"])
    d["test_kwargs"] = {}
    if t.startswith("alpha"):
        d["test"] = N.alpha_mart
        d["estim"] = {"alpha_fixed": N.fixed_alternative_mean, "alpha_shrink": N.shrink_trunc, "alpha_opt": N.optimal_comparison}[t]
        if t == "alpha_opt" and at == A.Audit.AUDIT_TYPE.POLLING:
            d["estim"] = N.shrink_trunc
        if d["estim"] == N.shrink_trunc or d["estim"] == N.fixed_alternative_mean:
            d["test_kwargs"] = {"eta": rng.choice([0.625, 0.75, 0.875])}
    elif t.startswith("bet"):
        d["test"] = N.betting_mart
        d["bet"] = N.fixed_bet if t == "bet_fixed" else N.agrapa
        d["test_kwargs"] = {"lam": rng.choice([0.5, 0.25, 0.75])}
    else:
        d["test"] = {"kk": N.kaplan_kolmogorov, "km": N.kaplan_markov, "kw": N.kaplan_wald, "sprt": N.wald_sprt}[t]
        d["test_kwargs"] = {"eta": 0.75} if t == "sprt" else ({} if kind == "plurality" else {"g": 0.125})
        d["g"] = 0.125        # make_plurality_assertions passes contest.g itself
    d["testname"] = t
    if kind == "plurality":
        nc = rng.randint(2, 7)
        nw = 2 if (nc >= 4 and rng.random() < 0.3) else 1
        d.update(choice_function=A.Contest.SOCIAL_CHOICE_FUNCTION.PLURALITY, candidates=CANDS[:nc], winner=CANDS[:nw], n_winners=repi(rng, nw))
    elif kind == "supermajority":
        d.update(choice_function=A.Contest.SOCIAL_CHOICE_FUNCTION.SUPERMAJORITY, candidates=CANDS[:rng.randint(2, 4)],
                 winner=["Alice"], share_to_win=rng.choice([0.5, 0.625, 2 / 3]))
    else:
        nc = rng.randint(3, 4)
        js = []
        for _ in range(rng.randint(1, 6)):
            los = rng.choice(CANDS[1:nc])
            if rng.random() < 0.5:
                js.append({"winner": "Alice", "loser": los, "assertion_type": "WINNER_ONLY"})
            else:
                js.append({"winner": "Alice", "loser": los, "assertion_type": "IRV_ELIMINATION",
                           "already_eliminated": [c for c in CANDS[1:nc] if c != los and rng.random() < 0.5]})
        d.update(choice_function=A.Contest.SOCIAL_CHOICE_FUNCTION.IRV, candidates=CANDS[:nc], winner=["Alice"], assertion_json=js,
                 assertion_file="a.json")
    d["kind"] = kind
    d["stub"] = rng.random() < stub_rate
    return d


def gen_ballot(rng, d, honest):
    """votes in one contest: mostly for the reported winner (so that p-values get small), sometimes anything"""
    cands = d["candidates"]
    if d["kind"] == "irv":
        if rng.random() < honest:
            rest = [c for c in cands[1:] if rng.random() < 0.5]
            rng.shuffle(rest)
            order = ["Alice"] + rest
        else:
            order = rng.sample(cands, rng.randint(0, len(cands)))
        return {c: i + 1 for i, c in enumerate(order)}
    if rng.random() < honest:
        return {rng.choice(d["winner"]): rng.choice([1, True, "marked"])}
    r = rng.random()
    if r < 0.5:
        return {rng.choice(cands): 1}
    if r < 0.7:
        return {}
    return {c: 1 for c in rng.sample(cands, 2)} if len(cands) >= 2 else {}


def build_audit(rng, stub_rate=0.25):
    """contests (dict), the CVR list, with assertions made by the library and margins set"""
    A = lib()
    ncon = rng.choice([1, 1, 2, 2, 3, 4])
    names = rng.sample(["mayor", "DA", "measure_1", "council", "prop_7"], ncon)
    dicts = {n: gen_contest_dict(rng, n, stub_rate) for n in names}
    honest = rng.choice([0.95, 0.9, 0.8, 0.6])
    ncards = rng.randint(12, 40)
    cvrs = []
    for i in range(ncards):
        votes = {}
        for n in names:
            if rng.random() < 0.8:
                votes[n] = gen_ballot(rng, dicts[n], honest)
        cvrs.append(A.CVR(id=f"c{i}", votes=votes, tally_pool=rng.choice(["p1", "p2"]), pool=False))
    contests = A.Contest.from_dict_of_dicts({n: {k: v for k, v in d.items() if k not in ("kind", "stub", "testname")}
                                             for n, d in dicts.items()})
    A.Assertion.make_all_assertions(contests)
    audit = A.Audit.from_dict({"strata": {"s": {"use_style": True, "max_cards": ncards}}, "error_rate_1": 0.001, "error_rate_2": 0.0})
    for n, con in contests.items():
        for a, asn in con.assertions.items():
            r = rng.random()
            asn.margin = rng.choice([0.25, 0.5, 0.75, 0.125, 0.9375]) * float(asn.assorter.upper_bound)
            if r < 0.3:
                with warnings.catch_warnings():
                    warnings.simplefilter("ignore")
                    try:
                        audit.strata["s"].use_style = con.use_style
                        asn.set_margin_from_cvrs(audit, cvrs)
                        if not (0.03 < asn.margin < 1.9 * asn.assorter.upper_bound):
                            asn.margin = 0.5
                    except Exception:  # noqa
                        asn.margin = 0.5
            if con.audit_type == A.Audit.AUDIT_TYPE.ONEAUDIT:
                for c in cvrs:
                    c.pool = c.tally_pool == "p2"
                try:
                    asn.assorter.set_tally_pool_means(cvr_list=cvrs, tally_pools=["p1", "p2"], use_style=con.use_style)
                except Exception:  # noqa  (set-up only; not part of this property)
                    asn.assorter.tally_pool_means = {"p1": 0.5, "p2": 0.625}
            if dicts[n]["stub"]:
                lim = con.risk_limit
                lim = float(lim)
                asn.test = StubTest(conv=rng.choice(list(PCONV)), table=rng.sample([lim, lim, lim / 2, float(np.nextafter(lim, 1)), 0.0, 1.0, 0.75, float("nan"), 1.5,
                                                lim / 4, 0.3], rng.randint(2, 5)))
        con.sample_threshold = rng.choice([1.0, 1.0, 1.0, 0.5, 0.75])
        # one test object handed to several assertions (the test is a parameter of Assertion), their margins all different
        if len(con.assertions) >= 2 and con.audit_type != A.Audit.AUDIT_TYPE.POLLING and rng.random() < 0.35:
            group = rng.sample(list(con.assertions.values()), rng.randint(2, min(4, len(con.assertions))))
            ms = rng.sample([0.25, 0.5, 0.75, 0.125, 0.9375, 0.375, 0.625], len(group))
            for asn, m in zip(group, ms):
                asn.margin = m * float(asn.assorter.upper_bound)
                asn.test = group[0].test
            dicts[n]["shared_test"] = len(group)
    if rng.random() < 0.04:
        rng.choice(list(contests.values())).audit_type = "BATCH_COMPARISON"       # not implemented: set_p_values raises
    return audit, contests, cvrs, dicts, honest


def draw_sample(rng, contests, cvrs, dicts, honest, k=None):
    A = lib()
    k = k if k is not None else rng.choice([1, 2, 4, 6, 8, 12, 16])
    if rng.random() < 0.03:
        k = 0                                   # empty sample: most tests raise on it (C11's domain), the sequence then ends
    idx = [rng.randrange(len(cvrs)) for _ in range(k)]
    cvr_sample, mvr_sample = [], []
    for i in idx:
        c = cvrs[i]
        c.sample_num = rng.choice([0.125, 0.25, 0.5, 0.625, 0.875])
        cvr_sample.append(c)
        r = rng.random()
        if r < 0.06:
            m = A.CVR(id=c.id, votes={}, phantom=True)
        elif r < 0.2:
            votes = {n: gen_ballot(rng, dicts[n], honest / 2) for n in c.votes}
            m = A.CVR(id=c.id, votes=votes)
        else:
            m = A.CVR(id=c.id, votes=copy.deepcopy(c.votes))
        mvr_sample.append(m)
    return mvr_sample, cvr_sample


# ---------------------------------------------------------------- state snapshots
def read_state(contests):
    st = []
    for key, con in contests.items():
        asns = [(a, fx(asn.p_value), [fx(v) for v in list(asn.p_history)], bool(asn.proved)) for a, asn in con.assertions.items()]
        st.append({"key": key, "limit": fx(con.risk_limit), "asns": asns,
                   "p_values": [(a, fx(v)) for a, v in getattr(con, "p_values", {}).items()],
                   "proved": [(a, bool(v)) for a, v in getattr(con, "proved", {}).items()],
                   "max_p": fx(getattr(con, "max_p", 0))})
    return st


def recompute(contests, mvr_sample, cvr_sample):
    """What each assertion's configured test returns on that assertion's data — on deep copies, before the real call."""
    out = []
    with warnings.catch_warnings():
        warnings.simplefilter("ignore")
        cc = copy.deepcopy(contests)
        for key, con in cc.items():
            for a, asn in con.assertions.items():
                try:
                    d, u = asn.mvrs_to_data(mvr_sample, cvr_sample)
                    asn.test.u = u
                    p, h = asn.test.test(d)
                    out.append((key, a, (fx(p), [fx(v) for v in list(h)]), len(d)))
                except Exception as e:  # noqa
                    out.append((key, a, None, f"{type(e).__name__}: {e}"))
    return out


class Names:
    def __init__(self):
        self.t = {}

    def __call__(self, x):
        return self.t.setdefault(repr(x), len(self.t) + 1)


def state_lit(st, nm):
    def asn(a):
        return f"(mkasn {C.zlit(nm(a[0]))} {C.xlit(a[1])} {C.listlit([C.xlit(v) for v in a[2]])} {C.blit(a[3])})"
    return C.listlit([
        f"(mkcon {C.zlit(nm(c['key']))} {C.qlit(c['limit'])} {C.listlit([asn(a) for a in c['asns']])} "
        f"{C.listlit(['(' + C.zlit(nm(a)) + ', ' + C.xlit(v) + ')' for a, v in c['p_values']])} "
        f"{C.listlit(['(' + C.zlit(nm(a)) + ', ' + C.blit(v) + ')' for a, v in c['proved']])} {C.xlit(c['max_p'])})" for c in st])


def seq_lit(case):
    nm = Names()
    steps = []
    for s in case["steps"]:
        if s["op"] == "set":
            tb = C.listlit([f"({C.zlit(nm(k))}, {C.zlit(nm(a))}, " + C.optlit(r, lambda r_: f"({C.xlit(r_[0])}, {C.listlit([C.xlit(v) for v in r_[1]])})") + ")"
                            for k, a, r, _ in s["tests"]])
            steps.append(f"(StSet {C.blit(s['lens_ok'])} {tb} {C.optlit(s['ret'], C.xlit)} {state_lit(s['after'], nm)})")
        elif s["op"] == "sum":
            steps.append(f"(StSum {C.blit(s['ret'])} {state_lit(s['after'], nm)})")
        else:
            steps.append(f"(StReset {C.blit(s['ret'])} {state_lit(s['after'], nm)})")
    return f"({state_lit(case['init'], nm)}, {C.listlit(steps)})"


def seq_json(case):
    return C.jsonable(case)


# ---------------------------------------------------------------- oracle (property text on the implementation)
def viol(res, what, case, observed, sig):
    res.oracle_violations.append({"what": what, "input": seq_json({"config": case["config"], "steps_so_far": case["steps"]}),
                                  "observed": C.jsonable(observed), "signature": "C09:" + sig})


def oracle_set(res, case, before, s):
    res.oracle_runs += 1
    if s["ret"] is None:
        if all(r is not None for _, _, r, _ in s["tests"]) and s["lens_ok"]:
            viol(res, "set_p_values raises although every assertion's test returns", case, s.get("exc"), "set-raises")
        return
    exp = {(k, a): r for k, a, r, _ in s["tests"]}
    old = {(c["key"], a[0]): a[3] for c in before for a in c["asns"]}
    cmax = []
    for c in s["after"]:
        ps = []
        for a, p, h, proved in c["asns"]:
            r = exp.get((c["key"], a))
            ps.append(p)
            if r is None or not same_num(p, r[0]) or len(h) != len(r[1]) or not all(same_num(x, y) for x, y in zip(h, r[1])):
                viol(res, "recorded p-value / history differs from what the assertion's test returns on its data", case,
                     {"contest": c["key"], "assertion": a, "recorded": [p, h], "test_returns": r}, "recorded")
            if le(p, c["limit"]) and not proved:
                viol(res, "assertion with p-value at most the contest's risk limit is not marked proved", case,
                     {"contest": c["key"], "assertion": a, "p": p, "limit": c["limit"]}, "proved-flag")
            if proved and not le(p, c["limit"]) and not old.get((c["key"], a)):
                viol(res, "assertion marked proved although its p-value exceeds its contest's risk limit and it was not proved before",
                     case, {"contest": c["key"], "assertion": a, "p": p, "limit": c["limit"]}, "proved-flag")
        if dict(c["p_values"]).keys() != {a[0] for a in c["asns"]} or any(not same_num(dict(c["p_values"])[a[0]], a[1]) for a in c["asns"]) \
                or dict(c["proved"]) != {a[0]: a[3] for a in c["asns"]}:
            viol(res, "contest.p_values / contest.proved do not list the assertions' current values", case, c, "contest-dicts")
        want = npmax(ps)
        cmax.append(want)
        if not same_num(c["max_p"], want):
            viol(res, "contest.max_p is not the largest p-value among the contest's assertions", case,
                 {"contest": c["key"], "max_p": c["max_p"], "p_values": ps}, "contest-max")
    if not same_num(s["ret"], npmax(cmax)):
        viol(res, "set_p_values does not return the largest p-value among contests", case, {"returned": s["ret"], "contest_maxima": cmax},
             "audit-max")


def oracle_sum(res, case, before, s):
    res.oracle_runs += 1
    want = all(le(a[1], c["limit"]) for c in before for a in c["asns"])
    if s["ret"] != want:
        viol(res, "summarize_status: complete " + ("reported although some assertion's p-value exceeds its contest's risk limit"
                                                      if s["ret"] else "not reported although every assertion meets its contest's risk limit"),
             case, {"returned": s["ret"], "p_values": [[c["key"], c["limit"], [a[1] for a in c["asns"]]] for c in before]}, "done-iff")
    if s["after"] != before and repr(s["after"]) != repr(before):
        viol(res, "summarize_status changes the recorded state", case, s["after"], "summarize-mutates")


def oracle_reset(res, case, before, s):
    res.oracle_runs += 1
    ok = s["ret"] is True
    for c in s["after"]:
        ok = ok and all(p == 1 and h == [] and proved is False for _, p, h, proved in c["asns"])
        ok = ok and c["p_values"] == [(a[0], F(1)) for a in c["asns"]] and c["proved"] == [(a[0], False) for a in c["asns"]] \
            and c["max_p"] == 1
    ok = ok and [(c["key"], c["limit"], [a[0] for a in c["asns"]]) for c in s["after"]] == \
        [(c["key"], c["limit"], [a[0] for a in c["asns"]]) for c in before]
    if not ok:
        viol(res, "reset_p_values does not restore p-value 1, empty history and unconfirmed status everywhere", case, s["after"], "reset")


# ---------------------------------------------------------------- sequences
def run_sequence(rng, res, stats):
    A = lib()
    audit, contests, cvrs, dicts, honest = build_audit(rng)
    if rng.random() < 0.5 and len(contests) > 1:                       # the contests dict in another order
        keys = list(contests.keys())
        rng.shuffle(keys)
        contests = {k: contests[k] for k in keys}
    case = {"config": {n: {k: (v if isinstance(v, (int, float, str, list, bool, type(None))) else getattr(v, "__name__", str(v)))
                           for k, v in d.items() if k not in ("assertion_json",)} for n, d in dicts.items()},
            "order": list(contests.keys()), "init": read_state(contests), "steps": []}
    r = rng.random()
    if r < 0.3:
        ops = ["set", "sum"]
    elif r < 0.55:
        ops = ["set", "set", "sum"]                                    # two samples without a reset in between
    elif r < 0.7:
        ops = ["set", "sum", "set", "sum"]
    elif r < 0.8:
        ops = ["set", "reset", "sum", "set", "sum"]
    elif r < 0.9:
        ops = ["set", "sum", "reset", "set", "set", "sum", "reset"]
    else:
        ops = [rng.choice(["set", "sum", "reset"]) for _ in range(rng.randint(1, 6))]
    if rng.random() < 0.3 and ops.count("set") < 2:
        ops = ["set", "mutate", "set", "sum"]
    elif rng.random() < 0.5 and ops.count("set") >= 2:                # the assertions of a contest change between two rounds
        i = [k for k, o in enumerate(ops) if o == "set"][1]
        ops = ops[:i] + ["mutate"] + ops[i:]
    first = True
    cases = []
    for op in ops:
        if op == "mutate":
            how = mutate_assertions(rng, contests)
            stats["mutations"][how] = stats["mutations"].get(how, 0) + 1
            if case["steps"]:
                cases.append(case)
            # the model threads its own state through a case: a change made from outside starts a new case at the state read now
            case = {"config": dict(case["config"], assertions_changed_between_rounds=how), "order": list(contests.keys()),
                    "init": read_state(contests), "steps": []}
            continue
        before = read_state(contests)
        if op == "set":
            # a later sample is sometimes much smaller / less favourable than the first (p-values go back up)
            mvrs, cs = draw_sample(rng, contests, cvrs, dicts, honest if first else rng.choice([honest, 0.3]),
                                   k=None if first else rng.choice([1, 2, 3, 5, 12]))
            first = False
            polling_only = all(con.audit_type == A.Audit.AUDIT_TYPE.POLLING for con in contests.values())
            lens_ok = True
            if polling_only and rng.random() < 0.5:
                cs = None
            elif rng.random() < 0.03 and cs:
                cs = cs[:-1]
                lens_ok = False
            tests = recompute(contests, mvrs, cs) if lens_ok else []
            s = {"op": "set", "lens_ok": lens_ok, "tests": tests, "n": len(mvrs)}
            with warnings.catch_warnings():
                warnings.simplefilter("ignore")
                try:
                    s["ret"] = fx(A.Assertion.set_p_values(contests, mvrs, cs))
                except Exception as e:  # noqa
                    s["ret"], s["exc"] = None, f"{type(e).__name__}: {e}"
            s["after"] = read_state(contests)
            case["steps"].append(s)
            oracle_set(res, case, before, s)
            stats["set"] += 1
            if s["ret"] is None:
                stats["set_raises"] += 1
                break
        elif op == "sum":
            buf = io.StringIO()
            with contextlib.redirect_stdout(buf):
                ret = audit.summarize_status(contests)
            s = {"op": "sum", "ret": bool(ret), "after": read_state(contests)}
            case["steps"].append(s)
            oracle_sum(res, case, before, s)
            stats["sum"] += 1
            stats["sum_true"] += int(bool(ret))
        else:
            ret = A.Assertion.reset_p_values(contests)
            s = {"op": "reset", "ret": ret, "after": read_state(contests)}
            case["steps"].append(s)
            oracle_reset(res, case, before, s)
            stats["reset"] += 1
    if case["steps"]:
        cases.append(case)
    return cases


def mutate_assertions(rng, contests):
    """Between two rounds a contest's assertions dict shrinks, grows or is re-keyed (no reset): preferably the assertion
    with the largest recorded p-value is the one dropped / re-keyed."""
    cands = [c for c in contests.values() if len(c.assertions) >= 2] or list(contests.values())
    con = rng.choice(cands)
    keys = list(con.assertions)

    def pv(k):
        v = float(con.assertions[k].p_value)
        return -1.0 if math.isnan(v) else v
    top = max(keys, key=pv) if rng.random() < 0.7 else rng.choice(keys)
    how = rng.choice(["drop", "rekey", "grow"] if len(keys) >= 2 else ["rekey", "grow"])
    if how == "drop":
        del con.assertions[top]
    elif how == "rekey":
        con.assertions[str(top) + " (renamed)"] = con.assertions.pop(top)
    else:
        new = copy.deepcopy(con.assertions[top])
        new.contest = con
        new.p_value, new.p_history, new.proved = 1, [], False
        con.assertions[str(top) + " (second copy)"] = new
    return how


def run_poked(rng, res, stats):
    """summarize_status on states written directly into the objects (attributes reassigned after construction): mostly
    complete audits with zero, one or two offending assertions at random positions (first / last assertion, first / last
    contest), offenders just above the own limit, below ANOTHER contest's limit, NaN; then reset and summarize again."""
    A = lib()
    audit, contests, cvrs, dicts, honest = build_audit(rng, stub_rate=0.0)
    if rng.random() < 0.5 and len(contests) > 1:
        keys = list(contests.keys())
        rng.shuffle(keys)
        contests = {k: contests[k] for k in keys}
    lims = sorted({float(c.risk_limit) for c in contests.values()})
    slots = [(c, a) for c, con in contests.items() for a in con.assertions]
    r = rng.random()
    noff = 0 if r < 0.35 else (1 if r < 0.8 else rng.randint(2, 3))
    off = set(rng.sample(slots, min(noff, len(slots))))
    if noff and rng.random() < 0.5:                                    # the last assertion of a contest is the offender
        c = rng.choice(list(contests))
        off = (off - {rng.choice(sorted(off))}) | {(c, list(contests[c].assertions)[-1])}
    for c, con in contests.items():
        lim = float(con.risk_limit)
        for a, asn in con.assertions.items():
            if (c, a) in off:
                bigger = [x for x in lims if x > lim]
                asn.p_value = rng.choice([float(np.nextafter(lim, 1)), float("nan"), 1.0, lim * 1.5]
                                         + ([bigger[-1], (lim + bigger[0]) / 2] if bigger else []))
            else:
                asn.p_value = rng.choice([lim, lim, lim / 2, 0.0, lim / 8])
            asn.p_value = PCONV[rng.choice(list(PCONV))](asn.p_value)       # Python float, numpy scalar or 0-d array
            asn.proved = repb(rng, rng.random() < 0.5)
            asn.p_history = [1.0, float(asn.p_value)] if rng.random() < 0.5 else []
    case = {"config": {n: {"risk_limit": d["risk_limit"], "kind": d["kind"]} for n, d in dicts.items()},
            "order": list(contests.keys()), "poked": True, "init": read_state(contests), "steps": []}
    for op in (["sum"] if rng.random() < 0.7 else ["sum", "reset", "sum"]):
        before = read_state(contests)
        if op == "sum":
            with contextlib.redirect_stdout(io.StringIO()):
                ret = audit.summarize_status(contests)
            s = {"op": "sum", "ret": bool(ret), "after": read_state(contests)}
            case["steps"].append(s)
            oracle_sum(res, case, before, s)
            stats["sum"] += 1
            stats["sum_true"] += int(bool(ret))
            stats["poked_single_offender"] += int(len(off) == 1 and len(case["steps"]) == 1)
        else:
            ret = A.Assertion.reset_p_values(contests)
            s = {"op": "reset", "ret": ret, "after": read_state(contests)}
            case["steps"].append(s)
            oracle_reset(res, case, before, s)
            stats["reset"] += 1
    return case


def run_many(rng, res, stats, nw):
    """Oracle only (size-independent): a plurality contest with 25-40 candidates and nw winners (24-39 assertions for one
    winner, up to ~110 for three) next to a small second contest; every assertion meets its limit except one offender
    (just above the limit, NaN, 1, 1.5 x limit) placed at EVERY position in turn, and once nowhere.  summarize_status must
    be False exactly when there is an offender, contest.max_p / the returned value must be the true maxima."""
    A = lib()
    ncand = rng.randint(25, 40)
    cands = [f"cand{i:02d}" for i in range(ncand)]
    lim_big, lim_small = rng.sample(LIMITS, 2)
    dd = {"big": {"risk_limit": repf(rng, lim_big), "cards": repi(rng, 80), "choice_function": A.Contest.SOCIAL_CHOICE_FUNCTION.PLURALITY,
                  "n_winners": repi(rng, nw), "candidates": cands, "winner": cands[:nw], "audit_type": A.Audit.AUDIT_TYPE.POLLING,
                  "use_style": True, "test": NM().alpha_mart, "test_kwargs": {}},
          "small": {"risk_limit": repf(rng, lim_small), "cards": repi(rng, 80), "choice_function": A.Contest.SOCIAL_CHOICE_FUNCTION.PLURALITY,
                    "n_winners": 1, "candidates": ["Alice", "Bob"], "winner": ["Alice"],
                    "audit_type": A.Audit.AUDIT_TYPE.POLLING, "use_style": True, "test": NM().alpha_mart, "test_kwargs": {}}}
    order = ["big", "small"] if rng.random() < 0.5 else ["small", "big"]
    contests = A.Contest.from_dict_of_dicts({k: dd[k] for k in order})
    A.Assertion.make_all_assertions(contests)
    audit = A.Audit.from_dict({"strata": {"s": {"use_style": True, "max_cards": 80}}})
    keys = list(contests["big"].assertions)
    nas = len(keys)
    stats["many_assertions"].append(nas)
    mvrs = [A.CVR(id=f"m{i}", votes={"big": {rng.choice(cands): 1}, "small": {"Alice": 1}}) for i in range(3)]
    config = {"big": {"candidates": ncand, "winners": nw, "assertions": nas, "risk_limit": lim_big},
              "small": {"risk_limit": lim_small}, "order": order}
    offenders = [float(np.nextafter(lim_big, 1)), float("nan"), 1.0, lim_big * 1.5]
    for pos in [None] + list(range(nas)):
        good = {a: rng.choice([lim_big / 2, lim_big, 0.0, lim_big / 4, lim_big / 8]) for a in keys}
        via_set = pos is None or nas <= 45 or pos % 5 == 0 or pos >= nas - 3
        case = {"config": dict(config, offender_position=pos, offender_key=None if pos is None else keys[pos]),
                "order": order, "init": None, "steps": []}
        if pos is not None:
            good[keys[pos]] = offenders[pos % len(offenders)] if rng.random() < 0.8 else rng.choice(offenders)
        small_p = rng.choice([lim_small / 2, lim_small, 0.0])
        if via_set:
            for a, asn in contests["big"].assertions.items():
                asn.test = StubTest([good[a]], rng.choice(list(PCONV)))
            for a, asn in contests["small"].assertions.items():
                asn.test = StubTest([small_p], rng.choice(list(PCONV)))
            before = read_state(contests)
            tests = recompute(contests, mvrs, None)
            s_ = {"op": "set", "lens_ok": True, "tests": tests, "n": len(mvrs)}
            try:
                s_["ret"] = fx(A.Assertion.set_p_values(contests, mvrs, None))
            except Exception as e:  # noqa
                s_["ret"], s_["exc"] = None, f"{type(e).__name__}: {e}"
            s_["after"] = read_state(contests)
            case["steps"].append(s_)
            oracle_set(res, case, before, s_)
            stats["set"] += 1
        else:                                                          # state written directly into the objects
            for a, asn in contests["big"].assertions.items():
                asn.p_value = PCONV[rng.choice(list(PCONV))](good[a])
            for a, asn in contests["small"].assertions.items():
                asn.p_value = PCONV[rng.choice(list(PCONV))](small_p)
        before = read_state(contests)
        with contextlib.redirect_stdout(io.StringIO()):
            ret = audit.summarize_status(contests)
        s_ = {"op": "sum", "ret": bool(ret), "after": read_state(contests)}
        case["steps"].append(s_)
        oracle_sum(res, case, before, s_)
        stats["sum"] += 1
        stats["many_summaries"] += 1
        stats["sum_true"] += int(bool(ret))
        if rng.random() < 0.1:
            A.Assertion.reset_p_values(contests)


# ---------------------------------------------------------------- check_audit_parameters
CAP_MSG = [(1, "expected rate of 1-vote errors"), (2, "expected rate of 2-vote errors"), (3, "negative in contest"),
           (4, "exceeds 1/2 in contest"), (5, "unsupported choice function"), (6, "more winners than candidates"),
           (7, "number of reported winners does not equal"), (8, "is not a candidate in contest"), (9, "can have only 1 winner"),
           (10, "requires an assertion file")]
CHOICE = {"APPROVAL": 0, "PLURALITY": 1, "SUPERMAJORITY": 2, "IRV": 3}


def gen_cap(rng):
    A = lib()
    e1 = rng.choice([0.001, 0.0, 0.0, -0.001, 0.25])
    e2 = rng.choice([0.0, 0.0, 0.0001, -0.5, 0.125])
    if rng.random() < 0.7:
        e1, e2 = abs(e1), abs(e2)
    cons = {}
    for name in rng.sample(["mayor", "DA", "measure_1", "council"], rng.randint(1, 4)):
        nc = rng.randint(1, 5)
        cands = CANDS[:nc]
        nw = rng.randint(1, min(2, nc))
        d = {"risk_limit": rng.choice([0.05, 0.5, 0.25, 0.001, 0.1]), "choice_function": rng.choice(list(CHOICE)),
             "n_winners": nw, "candidates": cands, "winner": rng.sample(cands, nw), "assertion_file": "a.json"}
        if d["choice_function"] == "IRV":
            d["n_winners"], d["winner"] = 1, d["winner"][:1]
        if rng.random() < 0.45:                                         # one defect
            k = rng.randint(3, 10)
            if k == 3:
                d["risk_limit"] = rng.choice([0.0, -0.05])
            elif k == 4:
                d["risk_limit"] = rng.choice([0.5000000000000001, 0.75, 1.0])
            elif k == 5:
                d["choice_function"] = rng.choice(["BORDA", "plurality", ""])
            elif k == 6:
                d["n_winners"] = nc + 1
            elif k == 7:
                d["winner"] = d["winner"] + [rng.choice(cands)] if rng.random() < 0.5 else []
            elif k == 8:
                d["winner"] = ["Zed"] + d["winner"][1:]
            elif k == 9:
                d["choice_function"], d["n_winners"] = "IRV", 2
                d["winner"] = (cands * 2)[:2]
            else:
                d["choice_function"], d["assertion_file"] = "IRV", rng.choice([None, ""])
                d["n_winners"], d["winner"] = 1, d["winner"][:1]
        d["risk_limit"], d["n_winners"] = repf(rng, d["risk_limit"]), repi(rng, d["n_winners"])
        cons[name] = d
    e1, e2 = repf(rng, e1), repf(rng, e2)
    audit = A.Audit.from_dict({"strata": {"s": {"use_style": repb(rng, True), "max_cards": repi(rng, 10)}}, "error_rate_1": e1,
                               "error_rate_2": e2})
    contests = A.Contest.from_dict_of_dicts(copy.deepcopy(cons))
    out = None
    try:
        r = audit.check_audit_parameters(contests)
        out = None if r is None else (98, None)
    except AssertionError as e:
        msg = str(e)
        code = next((c for c, m in CAP_MSG if m in msg), 99)
        mm = re.search(r"contest (\S+?)(?: requires an assertion file)?$", msg)
        out = (code, mm.group(1) if mm else None)
    except Exception as e:  # noqa
        out = (97, None)
    return {"e1": e1, "e2": e2, "contests": cons, "out": out}


def cap_lit(c):
    nm = Names()
    cn = Names()
    ps = []
    for name, d in c["contests"].items():
        ps.append(f"(mkcp {C.zlit(nm(name))} {C.qlit(d['risk_limit'])} {C.zlit(CHOICE.get(d['choice_function'], 9))} {C.zlit(d['n_winners'])} "
                  f"{C.listlit([C.zlit(cn(x)) for x in d['candidates']])} {C.listlit([C.zlit(cn(x)) for x in d['winner']])} "
                  f"{C.blit(bool(d['assertion_file']))})")
    out = C.optlit(c["out"], lambda o: f"({C.natlit(o[0])}, {C.zlit(nm(o[1]) if o[1] is not None else 0)})")
    return f"({C.qlit(c['e1'])}, {C.qlit(c['e2'])}, {C.listlit(ps)}, {out})"


def cap_oracle(res, c):
    """risk limit in (0, 1/2], winners among candidates: accepted parameter sets satisfy them, and a set violating one is refused"""
    res.oracle_runs += 1
    bad_param = c["e1"] < 0 or c["e2"] < 0 or any(
        not (0 < d["risk_limit"] <= 0.5) or any(w not in d["candidates"] for w in d["winner"]) or len(d["winner"]) != d["n_winners"]
        or d["n_winners"] > len(d["candidates"]) for d in c["contests"].values())
    if bad_param and c["out"] is None:
        res.oracle_violations.append({"what": "check_audit_parameters accepts a risk limit outside (0,1/2] or winners that are not candidates",
                                      "input": C.jsonable(c), "observed": "returned None", "signature": "C09:params-accepted"})


def run(ctx, res):
    rng = ctx.rng
    from . import genarith
    # whole-function skeletons of set_p_values / summarize_status / reset_p_values: every statement must match, and their
    # line-by-line reading is proved equal to the model of Status.v (coq/gen/GenProofs_status_skeletons.v)
    genarith.regenerate(ctx.pid, "status_skeletons", res)
    stats = {"set": 0, "sum": 0, "reset": 0, "set_raises": 0, "sum_true": 0, "poked_single_offender": 0, "many_assertions": [],
             "many_summaries": 0, "mutations": {}}
    cases = []
    for _ in range(ctx.n(240, 3000)):
        cases.extend(run_sequence(rng, res, stats))
    for _ in range(ctx.n(300, 4000)):
        cases.append(run_poked(rng, res, stats))
    for nw in ([1, 1, 2, 3, 6] if ctx.quick else [1, 1, 1, 2, 2, 3, 3, 4, 6, 8]):   # 24 .. ~200 (quick) / ~280 assertions
        run_many(rng, res, stats, nw)
    cr = C.run_corr(ctx.pid, "seq", IMPORTS, "list contest * list step", cases, seq_lit, "agree_seq", shard=min(250, max(20, -(-len(cases) // 16))), show="show_seq")
    res.corr.append(("set_p_values / summarize_status / reset_p_values sequences vs Status.v", cr, seq_json))
    caps = [gen_cap(rng) for _ in range(ctx.n(300, 5000))]
    for c in caps:
        cap_oracle(res, c)
    cr2 = C.run_corr(ctx.pid, "cap", IMPORTS, "Q * Q * list cparams * option (nat * Z)", caps, cap_lit, "agree_cap", shard=300,
                     show="show_cap")
    res.corr.append(("Audit.check_audit_parameters vs Status.check_audit_parameters", cr2, C.jsonable))
    res.evaluations += sum(len(c["steps"]) for c in cases) + len(caps)
    # measured non-triviality: a sequence with >= 2 assertions whose p-values differ, or a mix of proved and unproved
    nasn, ncon, twice, back_up, nan_p, at_limit, mixed = {}, {}, 0, 0, 0, 0, 0
    for c in cases:
        ncon[len(c["init"])] = ncon.get(len(c["init"]), 0) + 1
        for k in c["init"]:
            nasn[len(k["asns"])] = nasn.get(len(k["asns"]), 0) + 1
        sets = [s for s in c["steps"] if s["op"] == "set" and s["ret"] is not None]
        ps = [a[1] for s in sets for k in s["after"] for a in k["asns"]]
        if len({repr(p) for p in ps}) > 1:
            res.nontrivial.add(repr((c["order"], [(s["op"], s.get("ret")) for s in c["steps"]], ps[:12])))
        nan_p += any(isinstance(p, float) and math.isnan(p) for p in ps)
        at_limit += any(same_num(a[1], k["limit"]) for s in sets for k in s["after"] for a in k["asns"])
        for i, s in enumerate(c["steps"]):
            if s["op"] == "set" and i > 0 and c["steps"][i - 1]["op"] != "reset" and any(t["op"] == "set" for t in c["steps"][:i]):
                twice += 1
            if s["op"] == "set" and s["ret"] is not None and any(a[3] and not le(a[1], k["limit"]) for k in s["after"] for a in k["asns"]):
                back_up += 1
            if s["op"] == "sum":
                fl = [le(a[1], k["limit"]) for k in s["after"] for a in k["asns"]]
                mixed += (any(fl) and not all(fl))
    stats.update({"sequences": len(cases), "contests_per_sequence": ncon, "assertions_per_contest": nasn,
                  "set_again_without_reset": twice, "set_leaving_proved_assertion_above_limit": back_up,
                  "sequences_with_nan_p": nan_p, "sequences_with_p_exactly_at_limit": at_limit,
                  "summaries_with_mixed_assertions": mixed, "cap_cases": len(caps),
                  "cap_refused": sum(1 for c in caps if c["out"] is not None)})
    res.stats.update(stats)
    res.samples = [seq_json({"config": c["config"], "order": c["order"], "steps": [{k: v for k, v in s.items() if k != "after"} for s in c["steps"]]})
                   for c in cases[:3]]
    res.rule = ("audits of 1-4 contests built by the library (plurality with 2-7 candidates and 1-2 winners, super-majority, IRV with "
                "1-6 JSON assertions), audit types comparison / ONEAudit / polling, nine test configurations plus 25% stub tests "
                "(NaN, p exactly at the limit, p > 1), risk limits from 0.001 to 0.5, contests dict shuffled in half the cases; "
                "sequences of set_p_values / summarize_status / reset_p_values on the same objects with a fresh sample per set; "
                "non-trivial = at least two different p-values recorded in the sequence. Oracle-only stream: plurality contests with "
                "25-40 candidates and 1-3 winners (24 to ~110 assertions) beside a small contest, one offending assertion at every "
                "position in turn")
    res.assumptions = ["the statistical test is a parameter of the model (test : contest -> assertion -> result); its value in the runs "
                       "is asn.test.test(asn.mvrs_to_data(...)) of /repo recomputed by the harness on deep copies before each call"]
