"""C03 — comparison audits test the right null: mean(B) - 1/2 = (2 mean(Abar) - 1) / (2 (2u - v))."""
from . import common as C, compare as K

ANCHORS = K.ANCHORS


def run(ctx, res):
    from . import genarith
    genarith.regenerate(ctx.pid, "audit", res)   # regenerated tie: overstatement assorter, u bound, tally margins (DESIGN 2.1)
    genarith.regenerate(ctx.pid, "audit_skeletons", res)   # whole-function skeletons: overstatement, overstatement_assorter(_mean/_margin), Assorter.mean, set_margin_from_cvrs
    nw = ctx.n(320, 4000)
    pool, cmp_, spv, viol, runs, stats, facts = K.run_worlds(ctx, nw)
    bviol, bruns, bstats = K.run_big(ctx, ctx.n(4, 40))      # large / awkward worlds: oracles only
    viol, runs = viol + bviol, runs + bruns
    stats.update(bstats)
    aviol, aruns, astats = K.run_alternating(ctx, ctx.n(60, 600))   # two worlds at a time: all setters, then all oracles
    viol, runs = viol + aviol, runs + aruns
    stats.update(astats)
    K.correspondences(ctx, res, pool, cmp_, [])
    res.oracle_runs += runs
    for v in viol:
        if v.get("prop", "C03") == "C03":
            res.oracle_violations.append(v)
    K.report(ctx, res, pool, cmp_, [], stats, facts)
    res.assumptions = [
        "the assorter is a black box A (its values are read from the implementation's assort() on every record); "
        "theorems assume 0 <= A <= u on the cards under audit and A = 1/2 on phantom CVRs outside pools "
        "(true of the plurality, super-majority and IRV assorters on records built by make_phantoms; checked by the oracle)",
        "pool means, margin and overstatements are computed with the same use_style flag from the same CVR list "
        "(the identity is about that situation; other combinations are covered by the correspondence only)",
    ]
