"""C13 — shipped estimators and bets keep every martingale factor non-negative."""
import math
from fractions import Fraction as F

from . import common as C, nnm, genarith

ANCHORS = nnm.ANCHORS
EPSF = 2.0 ** -52


def oracle(case):
    cfg, xs, o = case["cfg"], case["xs"], case["impl"]
    bad = []
    if o["exc"]:
        return bad
    u = float(cfg["u"])
    mus = [float(m) for m in nnm.mu_exact(cfg, xs)]
    k = cfg["kind"]
    if k.startswith("alpha"):
        for e, m in zip(o["aux"], mus):
            # exact comparison with the bound the caller passed: every shipped estimator ends in a clip / minimum with u
            if math.isnan(e) or e < 0 or e > u:
                bad.append("alternative-mean estimate outside [0,u]")
                break
            if k == "alpha_shrink" and 0 < m < u * (1 - 4 * EPSF) and not e > m:
                bad.append("shrink-truncate estimate not strictly above the null conditional mean")
                break
    if k.startswith("bet"):
        mimpl = o.get("m_impl") or []
        for j, (l, m) in enumerate(zip(o["aux"], mus)):
            if 0 < m <= u and (math.isnan(l) or l < 0 or l > (1 / m) * (1 + 1e-12)):
                bad.append("bet outside [0, 1/mu_j]")
                break
            # exactly, against the null mean the test itself multiplies with: lambda_j * mu_j <= 1 in rational arithmetic
            # of the two doubles (aGRAPA caps at c/mu_j with c <= 1 - 2^-52, so the rounded quotient times mu_j stays below 1)
            if k == "bet_agrapa" and j < len(mimpl) and 0 < mimpl[j] <= u and not math.isnan(l) \
                    and C.frac(l) * C.frac(mimpl[j]) > 1:
                bad.append("bet times the null conditional mean exceeds 1 (a factor can be negative)")
                break
    if any((not math.isnan(h)) and h < 0 for h in o["hist"]) or ((not math.isnan(o["p"])) and o["p"] < 0):
        bad.append("negative p-value (a martingale factor was negative)")
    return bad


def gen_extreme(rng):
    """margins down to u -> 1+, error rates above the margin, long runs of zeros in small populations"""
    kind = rng.choice(["alpha_optcomp", "alpha_fixed", "alpha_shrink", "bet_agrapa", "bet_fixed", "sprt"])
    cfg = nnm.gen_cfg(rng, kind=kind, finite=rng.random() < 0.8)
    if kind == "alpha_optcomp":
        cfg["u"] = 1 + F(1, 2 ** rng.choice([4, 8, 12, 20, 30]))
        if rng.random() < 0.5:       # the bound of a comparison audit, 2/(2 - v) for an everyday (non-dyadic) margin v
            v = rng.choice([0.8, 0.5, 0.9, 1 / 3, 0.05, 0.677, 0.2, 0.75, 0.999, 0.1])
            cfg["u"] = C.frac(2 / (2 - v))
        cfg["t"] = F(1, 2)
        cfg["p"]["rate_error_2"] = rng.choice([F(0), F(0), C.frac(1e-4), F(1, 64), F(1, 8), F(3, 16), F(1, 4)])
    xs = nnm.gen_xs(rng, cfg, maxlen=14)
    if rng.random() < 0.5:
        n = len(xs)
        z = rng.randint(0, n)
        xs = [F(0)] * z + xs[z:]
    return cfg, xs


def run(ctx, res):
    if getattr(ctx, "replay", None):
        nnm.run_replay(ctx, res, oracle)
        return
    genarith.regenerate(ctx.pid, "nnm", res)   # regenerated tie: lam_to_eta, eta_to_lam, optimal_comparison
    genarith.regenerate(ctx.pid, "nnm_estims", res)   # whole-function skeletons + formulas of every shipped estimator and bet
    cases, cr = nnm.run_corr(ctx.pid, ctx.rng, ctx.n(600, 8000),
                             kinds=["alpha_fixed", "alpha_shrink", "alpha_optcomp", "bet_fixed", "bet_agrapa", "sprt"],
                             maxlen=ctx.n(12, 14))
    extra = []
    for _ in range(ctx.n(500, 6000)):
        cfg, xs = gen_extreme(ctx.rng)
        extra.append({"cfg": cfg, "xs": xs, "impl": nnm.run_impl(cfg, xs), "tag": "extreme"})
    cr2 = C.run_corr(ctx.pid, "nnm_ext", nnm.IMPORTS, "nnm_case", [c for c in extra if not nnm.ill_conditioned(c) and C.frac(c["cfg"]["u"]).denominator <= 2 ** 32], nnm.case_lit, "agree_nnm", shard=150, show="show_nnm")
    res.corr.append(("NonnegMean.estim/bet/test vs NNM model (grid stream)", cr, nnm.case_json))
    res.corr.append(("NonnegMean.estim/bet/test vs NNM model (extreme stream: tiny margins, error rates above the margin, runs of zeros)", cr2, nnm.case_json))
    nd = []
    for i in range(ctx.n(600, 8000)):
        cfg, xs = nnm.gen_nondyadic(ctx.rng)
        if cfg["kind"] in ("kk", "km", "kw"):
            continue
        nd.append({"cfg": cfg, "xs": xs, "impl": nnm.run_impl(cfg, xs, variant=i), "tag": "non-dyadic (oracle only)"})
    # the same buffer object refilled in place with a very different sample of the same length (a caller streaming
    # batches through one array): the second answer must be that of a fresh array
    refill = []
    for i in range(ctx.n(80, 800)):
        kind = ["alpha_shrink", "bet_agrapa", "alpha_fixed", "sprt"][i % 4]
        cfg = nnm.gen_cfg(ctx.rng, kind=kind, finite=True)
        n = ctx.rng.randint(3, 12)
        cfg["N"] = n + ctx.rng.randint(0, 4)
        hi = [cfg["u"] if ctx.rng.random() < 0.8 else cfg["u"] / 2 for _ in range(n)]
        lo = [F(0) if ctx.rng.random() < 0.8 else cfg["u"] / 8 for _ in range(n)]
        first, second = (hi, lo) if i % 2 == 0 else (lo, hi)
        if i % 3 == 1:       # a run of zeros first, then (through the same buffer) high values followed by a zero
            k = ctx.rng.randint(1, n - 1)
            first = [F(0)] * n
            second = [cfg["u"]] * k + [F(0) if ctx.rng.random() < 0.7 else cfg["u"] for _ in range(n - k)]
        if i % 3 == 0:       # two unrelated samples of the same length
            first, second = nnm.gen_xs(ctx.rng, cfg, n=n, maxlen=n), nnm.gen_xs(ctx.rng, cfg, n=n, maxlen=n)
            if len(first) != len(second):
                continue
        nnm.run_impl(cfg, first, variant=0)                       # variant 0: the shared float buffer of that length
        refill.append({"cfg": cfg, "xs": second, "impl": nnm.run_impl(cfg, second, variant=0), "tag": "same buffer refilled in place"})
    cr3 = C.run_corr(ctx.pid, "nnm_refill", nnm.IMPORTS, "nnm_case", [c for c in refill if not nnm.ill_conditioned(c)], nnm.case_lit, "agree_nnm", shard=150, show="show_nnm")
    res.corr.append(("NonnegMean.estim/bet/test vs NNM model (second sample through the same buffer object)", cr3, nnm.case_json))
    extra = extra + refill
    # aGRAPA sitting at its cap for thousands of draws in finite populations of awkward size (0/1 data, non-dyadic t):
    # the exact clause lambda_j * mu_j <= 1 is checked on every one of them (oracle only)
    capped = []
    for i in range(ctx.n(40, 300)):
        N = ctx.rng.choice([65, 130, 1000, 3001, 4999, 7777, 10007])
        n = min(N, ctx.rng.choice([60, 120, 900, 2500, 3000]))
        t = C.frac(ctx.rng.choice([0.7, 0.55, 0.6, 0.51, 1 / 3, 0.9]))
        cfg = {"kind": "bet_agrapa", "N": N, "t": t, "u": F(1), "ro": True, "long": "capped aGRAPA",
               "p": {"lam": F(1, 2), "c_grapa_0": 1 - nnm.EPS, "c_grapa_max": 1 - nnm.EPS, "c_grapa_grow": F(0)}, "defaults": ["lam", "c_grapa_0", "c_grapa_max", "c_grapa_grow"]}
        q = ctx.rng.choice([0.9, 0.97, 0.8])
        xs = [F(1) if ctx.rng.random() < q else F(0) for _ in range(n)]
        capped.append({"cfg": cfg, "xs": xs, "impl": nnm.run_impl(cfg, xs, variant=2 * i + 1), "tag": "aGRAPA at its cap (oracle only)"})
    lg = capped + [c for c in nnm.long_cases(ctx.rng, ctx.n(120, 1200), kinds=["alpha_fixed", "alpha_shrink", "bet_fixed", "bet_agrapa", "sprt", "alpha_optcomp"])]
    for c in cases + extra + nd + lg:
        res.evaluations += 1
        res.oracle_runs += 1
        if len(set(c["xs"])) > 1:
            res.nontrivial.add(repr((c["cfg"], c["xs"])))
        for what in oracle(c):
            res.oracle_violations.append({"what": f"{c['cfg']['kind']}: {what}", "input": nnm.case_json(c),
                                          "signature": f"C13:{c['cfg']['kind']}:{what}"})
    res.rule = ("all shipped estimators/bets over the parameter grid (c,d,f,minsd; aGRAPA c0,cmax,grow; error rates 0..1/4; "
                "u from 1+2^-30 to 2), finite and infinite N, samples incl. runs of zeros that make a fixed alternative impossible; "
                "non-trivial = non-constant sample")
    res.samples = [nnm.case_json(c) for c in (cases[:2] + extra[:2])]
    res.stats = dict(nnm.branch_stats(cases + extra), **nnm.long_stats(lg))
    res.assumptions = ["np.sqrt: any function with 0 < x -> 0 < sqrt x and 0 <= sqrt x (theorems); Z.sqrt to 2^-60 (runs)"]
