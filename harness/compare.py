"""Generators, implementation runner and Coq literal writers for the comparison-audit glue of shangrla/core/Audit.py
(overstatement, overstatement_assorter, margins from CVRs, ONEAudit pool means and pool contests, mvrs_to_data, the
u installed by set_p_values).  Shared by C03 and C06.

A *world* is one small election built with the library's own constructors: 1-3 contests (plurality, super-majority,
IRV via make_assertions_from_json), a CVR list with phantoms inside and outside pooled batches, one manual record per
card with arbitrary discrepancies, sample numbers and per-contest thresholds.  `run_world` drives the REAL code through
add_pool_contests -> set_tally_pool_means -> margins -> overstatement_assorter on every pair -> mvrs_to_data ->
set_p_values and records every intermediate value, both for the Coq comparison and for the property oracles."""
import copy
import warnings
from fractions import Fraction as F

import numpy as np

from . import common as C

IMPORTS = "From SV Require Import Run_Compare.\nOpen Scope Q_scope.\nOpen Scope float_scope."
ANCHORS = [("shangrla/core/Audit.py",
            ["Assorter.overstatement", "Assertion.overstatement_assorter", "Assertion.set_margin_from_cvrs",
             "Assertion.set_all_margins_from_cvrs", "Assorter.set_tally_pool_means", "Assorter.mean",
             "CVR.pool_contests", "CVR.add_pool_contests", "CVR.update_votes", "CVR.has_contest",
             "Assertion.mvrs_to_data", "Assertion.set_p_values", "Assertion.make_assertions_from_json",
             "Assertion.make_plurality_assertions", "Assertion.make_supermajority_assertion",
             "CVR.rcv_lfunc_wo", "CVR.rcv_votefor_cand", "CVR.has_one_vote", "CVR.get_vote_for"])]

TOL = F(1, 10 ** 9)
CAND = ["A", "B", "C", "D"]
EXTRA_CONTEST = "zz"          # a contest no Contest object exists for (appears on some MVRs / CVRs)


def lib():
    from shangrla.core import Audit as M
    from shangrla.core.NonnegMean import NonnegMean
    return M, NonnegMean


def exc_kind(e):
    return "EValue" if isinstance(e, ValueError) else "EKey" if isinstance(e, KeyError) else "EOther"


# ---------------------------------------------------------------------------------------------- generation
MARKS = [True, True, 1, 1, "x", 3, "marked", 5, 2, "0", "no"]      # every one is truthy in python (also "0" and "no")


def gen_votes(rng, kind, cands, w=None, blank=0.1):
    """vote dict for one contest on one card (w: candidate weights, blank: probability of an empty vote)"""
    r = rng.random()
    if kind == "irv":
        if r < blank:
            return {}
        k = rng.randint(1, len(cands))
        order = rng.sample(cands, k)
        if rng.random() < 0.5 and "A" in cands:           # keep the reported winner plausible
            order = ["A"] + [c for c in order if c != "A"]
        v = {c: i + 1 for i, c in enumerate(order)}
        if rng.random() < 0.1:
            v[rng.choice(cands)] = 0                       # a falsy rank
        return v
    mark = lambda: rng.choice(MARKS)
    w = (w or [4, 2, 1, 1])[:len(cands)]
    if r < blank:
        return {}
    if r < 0.72:
        return {rng.choices(cands, w)[0]: mark()}
    if r < 0.82:
        a, b = rng.sample(cands, 2)
        return {a: mark(), b: mark()}                      # overvote
    c = rng.choices(cands, w)[0]
    return {x: (mark() if x == c else rng.choice([False, 0, ""])) for x in cands}


def gen_world(rng):
    """A json-able specification; `run_world` builds the library objects from it."""
    ncon = rng.choice([1, 1, 2, 2, 2, 3])
    s_style = rng.random() < 0.6
    w_type = rng.choice(["CARD_COMPARISON", "CARD_COMPARISON", "ONEAUDIT", "ONEAUDIT", "POLLING"])
    cons = []
    for k in range(ncon):
        kind = rng.choice(["plur", "plur", "super", "irv"])
        ncand = rng.randint(3, 4) if kind == "irv" else rng.randint(2, 4)
        cands = CAND[:ncand]
        con = {"id": f"c{k}", "kind": kind, "cands": cands,
               "atype": w_type if rng.random() < 0.8 else rng.choice(["CARD_COMPARISON", "ONEAUDIT", "POLLING"]),
               "style": s_style if rng.random() < 0.88 else (not s_style),
               "share": rng.choice([F(1, 2), F(5, 8), F(3, 4), F(2, 3), F(1, 4), F(9, 16), F(3, 5), F(3, 8), F(1, 3), F(2, 5)]),
               "direct": rng.random() < 0.5,     # super-majority: Assertion.make_supermajority_assertion called directly
               "ctor": rng.random() < 0.3}       # assertions re-created by calling the Assertion constructor directly
        if kind == "irv":
            ja = []
            for _ in range(rng.randint(1, 2)):
                wl = rng.sample(cands, 2)
                if rng.random() < 0.6:
                    wl = ["A", rng.choice(cands[1:])]
                if rng.random() < 0.5:
                    ja.append({"winner": wl[0], "loser": wl[1], "assertion_type": "WINNER_ONLY"})
                else:
                    rest = [c for c in cands if c not in wl]
                    elim = rng.sample(rest, rng.randint(0, len(rest)))
                    ja.append({"winner": wl[0], "loser": wl[1], "assertion_type": "IRV_ELIMINATION",
                               "already_eliminated": elim})
            con["json"] = ja
        cons.append(con)
    # ---- cards
    n = rng.randint(2, 11)
    labels = rng.sample(["p1", "p2", 7, None], rng.choice([0, 1, 2, 2, 3]))
    pooled = {repr(l): rng.random() < 0.7 for l in labels}
    cards = []
    for i in range(n):
        votes = {}
        for con in cons:
            if rng.random() < 0.78:
                votes[con["id"]] = gen_votes(rng, con["kind"], con["cands"])
        if rng.random() < 0.06:
            votes[EXTRA_CONTEST] = {"Q": True}
        if labels and rng.random() < 0.8:
            lab = rng.choice(labels)
            pool = pooled[repr(lab)] if rng.random() < 0.9 else (not pooled[repr(lab)])
        else:
            lab, pool = None, False
        cards.append({"id": f"card{i}", "votes": votes, "phantom": False, "tally_pool": lab, "pool": pool})
    # ---- phantoms
    ph_mode = rng.choice(["none", "hand", "hand", "make", "make"])
    ph = {"mode": ph_mode}
    if ph_mode == "hand":
        for j in range(rng.randint(1, 3)):
            votes = {con["id"]: {} for con in cons if rng.random() < 0.6}
            if labels and rng.random() < 0.6:
                lab = rng.choice(labels)
                pool = pooled[repr(lab)] if rng.random() < 0.9 else (not pooled[repr(lab)])
            else:
                lab, pool = None, False
            cards.insert(rng.randint(0, len(cards)),
                         {"id": f"phantom-{j}", "votes": votes, "phantom": True, "tally_pool": lab, "pool": pool})
    elif ph_mode == "make":
        # CVR.make_phantoms: different shortfalls per contest => phantoms that do not list every contest
        ph["extra"] = {con["id"]: rng.randint(0, 3) for con in cons}
        if labels and rng.random() < 0.5:
            lab = rng.choice(labels)
            ph["tally_pool"], ph["pool"] = lab, pooled[repr(lab)]
        else:
            ph["tally_pool"], ph["pool"] = None, False
    return {"s_style": s_style, "cons": cons, "cards": cards, "ph": ph, "seed": rng.randint(0, 2 ** 30)}


def gen_mvr(rng, spec, cons, cvr):
    """manual record for one card, given the (final) CVR object"""
    kinds = {c["id"]: c for c in cons}
    r = rng.random()
    base = {k: copy.deepcopy(v) for k, v in cvr.votes.items()}
    if cvr.phantom:
        r = r * 0.5 + 0.5 if rng.random() < 0.7 else r          # mostly "card not found"
    if r < 0.5:
        return {"votes": base, "phantom": False, "why": "same"}
    if r < 0.72:
        for k in list(base):
            if k in kinds and rng.random() < 0.7:
                base[k] = gen_votes(rng, kinds[k]["kind"], kinds[k]["cands"])
        return {"votes": base, "phantom": False, "why": "revote"}
    if r < 0.80:
        for k in list(base):
            if rng.random() < 0.6:
                del base[k]
        return {"votes": base, "phantom": False, "why": "lacks"}
    if r < 0.90:
        return {"votes": {}, "phantom": True, "why": "notfound"}
    if r < 0.94:
        return {"votes": {k: {} for k in base}, "phantom": True, "why": "phantom-listing"}
    if r < 0.97:
        return {"votes": {}, "phantom": False, "why": "empty"}
    for c in cons:
        if c["id"] not in base and rng.random() < 0.7:
            base[c["id"]] = gen_votes(rng, c["kind"], c["cands"])
    return {"votes": base, "phantom": False, "why": "extra"}


# ---------------------------------------------------------------------------------------------- literals
class Ids:
    """names -> numbers for the Coq side"""

    def __init__(self):
        self.con, self.tp = {}, {}

    def c(self, name):
        return self.con.setdefault(name, len(self.con))

    def p(self, label):
        return self.tp.setdefault(repr(label), len(self.tp))


def card_lit(ids, obj, handle, contests=None):
    keys = list(obj.votes.keys()) if contests is None else contests
    sn = obj.sample_num if obj.sample_num is not None else 0
    return (f"(mkcard {C.blit(bool(obj.phantom))} {C.blit(bool(obj.pool))} {C.zlit(ids.p(obj.tally_pool))} "
            f"{C.listlit([C.zlit(ids.c(k)) for k in keys])} {C.qlit(F(sn))} {C.zlit(handle)})")


def res_lit(r, f):
    return f"(Raise {r[1]})" if r[0] == "raise" else f"(Ok {f(r[1])})"


ATYPE = {"POLLING": "Polling", "CARD_COMPARISON": "Comparison", "ONEAUDIT": "OneAudit"}


def fl_lit(v):
    """IEEE double -> Coq primitive float literal (exact; hex).  Parsing a 16-digit numeral into Z/positive costs ~1 ms
    in Coq, a primitive float literal nothing; Run_Compare.fx converts it exactly to Xq inside Coq."""
    v = float(v)
    if v != v:
        return "nan"
    if v in (float("inf"), float("-inf")):
        return "infinity" if v > 0 else "neg_infinity"
    h = v.hex()
    return f"({h})" if h.startswith("-") else h


def nl(l):
    return C.listlit([C.natlit(i) for i in l])


def fll(l):
    return C.listlit([fl_lit(x) for x in l])


def dict_lit(items, f):
    return C.listlit([f"({C.zlit(k)}, {f(v)})" for k, v in items])


def pool_case_lit(c):
    return (f"mkpool {C.listlit(c['cards'])} "
            f"{C.optlit(c['arg'], lambda a: dict_lit(a, lambda s: C.listlit([C.zlit(x) for x in s])))} "
            f"{dict_lit(c['pc'], lambda s: C.listlit([C.zlit(x) for x in s]))} "
            f"{C.listlit([C.listlit([C.zlit(x) for x in s]) for s in c['after']])} "
            f"{C.blit(c['added'])} {C.blit(c['added2'])}")


def cmp_case_lit(c):
    pairs = C.listlit([f"({C.natlit(m)}, {C.natlit(v)})" for m, v in c["pairs"]])
    means = res_lit(c["impl_means"], lambda d: dict_lit(d, fl_lit))
    data = res_lit(c["impl_data"], lambda du: f"({fll(du[0])}, {fl_lit(du[1])})")
    bl = lambda l: C.listlit([res_lit(r, fl_lit) for r in l])
    return (f"mkcmp {fll(c['tab'])} {C.zlit(c['cid'])} {fl_lit(c['ua'])} {ATYPE[c['atype']]} {C.listlit(c['objs'])} "
            f"{C.natlit(c['ncvr'])} "
            f"{C.zlit(c['means_mode'])} {C.listlit([C.zlit(x) for x in c['means_arg']])} {C.blit(c['means_style'])} "
            f"{means} {C.blit(c['s_style'])} {C.blit(c['c_style'])} {C.optlit(c['margin_given'], fl_lit)} "
            f"{fl_lit(c['impl_margin'])} {fl_lit(c['impl_u0'])} {pairs} {bl(c['impl_B_on'])} {bl(c['impl_B_off'])} "
            f"{nl(c['mvrs'])} {nl(c['scvrs'])} {C.qlit(c['thr'])} {C.blit(c['use_all'])} {data}")


def spv_case_lit(c):
    asns = C.listlit([
        f"(mkspv_asn {fll(a['tab'])} {C.zlit(a['cid'])} {C.blit(a['style'])} {ATYPE[a['atype']]} {C.qlit(a['thr'])} "
        f"{fl_lit(a['margin'])} {fl_lit(a['ua'])} {C.optlit(a['means'], lambda d: dict_lit(d, fl_lit))} "
        f"{fl_lit(a['u_before'])} {C.optlit(a['override'], fl_lit)})" for a in c["asns"]])
    setall = C.optlit(c["setall"], lambda s: f"({C.natlit(s[0])}, {C.blit(s[1])})")
    isa = f"({C.listlit([f'({fl_lit(m)}, {fl_lit(u)})' for m, u in c['impl_setall'][0]])}, {fl_lit(c['impl_setall'][1])})"
    impl = res_lit(c["impl"], lambda l: C.listlit([f"({fl_lit(u)}, {fll(d)}, {fl_lit(ue)})" for u, d, ue in l]))
    return f"mkspv {C.listlit(c['objs'])} {asns} {setall} {isa} {nl(c['mvrs'])} {nl(c['cvrs'])} {impl}"


# ---------------------------------------------------------------------------------------------- the real code
def build_contests(M, NonnegMean, spec, n_cards):
    d = {}
    for con in spec["cons"]:
        scf = {"plur": M.Contest.SOCIAL_CHOICE_FUNCTION.PLURALITY, "super": M.Contest.SOCIAL_CHOICE_FUNCTION.SUPERMAJORITY,
               "irv": M.Contest.SOCIAL_CHOICE_FUNCTION.IRV}[con["kind"]]
        d[con["id"]] = {"name": con["id"], "risk_limit": 0.05, "cards": n_cards, "choice_function": scf,
                        "n_winners": 1, "share_to_win": float(con["share"]) if con["kind"] == "super" else None,
                        "candidates": list(con["cands"]), "winner": ["A"], "audit_type": con["atype"],
                        "test": NonnegMean.alpha_mart, "estim": NonnegMean.fixed_alternative_mean,
                        "use_style": con["style"], "sample_threshold": None}
        if con["kind"] == "irv":
            d[con["id"]]["assertion_json"] = copy.deepcopy(con["json"])
    contests = M.Contest.from_dict_of_dicts(d)
    M.Assertion.make_all_assertions(contests)
    for con in spec["cons"]:
        if con["kind"] == "super" and con.get("direct"):
            # the way the library's own unit test builds it: no share_to_win keyword, the share is the contest's
            c = contests[con["id"]]
            c.assertions = M.Assertion.make_supermajority_assertion(
                contest=c, winner="A", loser=[x for x in con["cands"] if x != "A"], test=c.test, estim=c.estim)
    for con in spec["cons"]:
        if con.get("ctor"):
            # the Assertion / Assorter constructors called directly, every optional argument at a non-default value:
            # preliminary pool means for every label, a preliminary margin, an earlier p-value history.  The setters
            # called later on the final CVR list must replace all of it.
            c = contests[con["id"]]
            labels = ["p1", "p2", 7, None] + sorted({x["tally_pool"] for x in spec["cards"] if isinstance(x["tally_pool"], str)})
            for k, (a, old) in enumerate(list(c.assertions.items())):
                stale = {lab: [0.0625, 0.875, 0.3125][(j + k) % 3] * float(old.assorter.upper_bound) for j, lab in enumerate(labels)}
                c.assertions[a] = M.Assertion(
                    contest=c, assorter=M.Assorter(contest=c, assort=old.assorter.assort, upper_bound=old.assorter.upper_bound),
                    winner=old.winner, loser=old.loser, margin=[0.3, 0.0625][k % 2], test=old.test, estim=c.estim, bet=None,
                    test_kwargs={}, p_value=0.7, p_history=[0.9, 0.7], proved=(k % 2 == 1), sample_size=5 + k,
                    tally_pool_means=stale)
    return contests


def fl(x):
    """implementation number -> python float (NaN stays NaN)"""
    return float(x)


def snapshot_votes(cvrs):
    return [copy.deepcopy(c.votes) for c in cvrs]


def run_pool(M, ids, rng, cvrs):
    """pool_contests / add_pool_contests on a deep copy of the list: one pool_case + the property oracle"""
    cv = copy.deepcopy(cvrs)
    before = snapshot_votes(cv)
    before_lits = [card_lit(ids, c, i) for i, c in enumerate(cv)]
    pc = M.CVR.pool_contests(cv)
    pc_items = [(ids.p(k), [ids.c(x) for x in v]) for k, v in pc.items()]
    arg = None
    tps = pc
    if rng.random() < 0.25:       # an arbitrary dict instead of pool_contests' output
        labs = list({repr(c.tally_pool): c.tally_pool for c in cv}.values())
        tps = {l: set(rng.sample([f"c{k}" for k in range(3)] + [EXTRA_CONTEST], rng.randint(0, 3)))
               for l in labs if rng.random() < 0.6}
        arg = [(ids.p(k), [ids.c(x) for x in v]) for k, v in tps.items()]
    added = bool(M.CVR.add_pool_contests(cv, tps))
    after = [[ids.c(k) for k in c.votes.keys()] for c in cv]
    added2 = bool(M.CVR.add_pool_contests(cv, tps))
    case = {"cards": before_lits, "arg": arg, "pc": pc_items, "after": after, "added": added, "added2": added2,
            "votes_kept": all(all(c.votes.get(k) == v for k, v in b.items()) for c, b in zip(cv, before)),
            "json": {"cards": [{"votes": b, "pool": bool(c.pool), "tally_pool": repr(c.tally_pool), "phantom": bool(c.phantom)}
                               for b, c in zip(before, cv)], "arg": C.jsonable(arg)}}
    # oracle (C03, "every pooled CVR lists every contest of its pool"), only for the standard argument
    viol = []
    if arg is None:
        want = {}
        for b, c in zip(before, cv):
            if c.pool:
                want.setdefault(repr(c.tally_pool), set()).update(b.keys())
        for i, c in enumerate(cv):
            if c.pool and not want[repr(c.tally_pool)] <= set(c.votes.keys()):
                viol.append({"what": "after add_pool_contests a pooled card does not list every contest of its pool",
                             "input": case["json"], "observed": {"card": i, "lists": list(c.votes.keys()),
                                                                 "pool_contests": sorted(want[repr(c.tally_pool)])},
                             "signature": "C03:pool-contests"})
                break
    return case, viol


def assort_table(asn, objs):
    """assort() of every record; a record on which it raises gets 0 and is listed in errs"""
    tab, errs = [], []
    for k, o in enumerate(objs):
        try:
            tab.append(C.frac(fl(asn.assorter.assort(o))))
        except Exception as e:  # noqa  (e.g. the old has_one_vote KeyError on a ballot lacking the contest)
            tab.append(F(0))
            errs.append((k, f"{type(e).__name__}: {e}"))
    return tab, errs


def real_sample_nums(rng, n):
    """n distinct sample numbers of the magnitude CVR.assign_sample_nums produces (256-bit integers), clustered: neighbours
    differ by 1, 2, a few thousand or by 2^k, so that a comparison through float64 cannot separate them"""
    base = rng.getrandbits(255) | (1 << 255) if rng.random() < 0.7 else rng.getrandbits(256)
    offs = {0}
    pool = [1, -1, 2, -2, 3, 1000, -4097] + [s * 2 ** k for k in (60, 100, 150, 200, 202, 203, 230) for s in (1, -1)]
    while len(offs) < n:
        offs.add(rng.choice(pool) if rng.random() < 0.75 else rng.getrandbits(256) - base)
    nums = [base + o for o in offs if base + o > 0]
    while len(nums) < n:
        nums.append(rng.getrandbits(256) + 1)
    rng.shuffle(nums)
    return nums[:n]


def other_list(rng, cvrs):
    """a different CVR list for the same contests, as in "preliminary values first, final list later": a prefix of the
    final list, the list before phantom records were added, or a random non-empty sub-list"""
    k = rng.randrange(3)
    if k == 0:
        l = cvrs[: max(1, len(cvrs) // 2)]
    elif k == 1:
        l = [c for c in cvrs if not c.phantom]
    else:
        l = rng.sample(cvrs, rng.randint(1, len(cvrs))) if cvrs else []
    return l if l and len(l) != len(cvrs) else cvrs[: max(1, len(cvrs) - 1)]


def preliminary_pass(M, rng, audit, contests, asns, cvrs, s_style):
    """setters run once on another list before the final list is known: bulk and single-assertion margin setters, and
    set_tally_pool_means with other pools.  Whatever they leave behind must be replaced by the final calls."""
    first = other_list(rng, cvrs)
    if rng.random() < 0.6:
        call(lambda: M.Assertion.set_all_margins_from_cvrs(audit=audit, contests=contests, cvr_list=first))
    for _, _, asn in asns:
        if rng.random() < 0.4:
            call(lambda: asn.set_margin_from_cvrs(audit, first))
        if rng.random() < 0.4:
            labs = list({repr(c.tally_pool): c.tally_pool for c in first if c.pool}.values())
            call(lambda: asn.assorter.set_tally_pool_means(
                cvr_list=first, tally_pools=(rng.sample(labs, rng.randint(0, len(labs))) or None), use_style=s_style))


def cvrs_as_mvrs(rng, cvrs, mvrs):
    """in a share of the worlds the SAME python object is manual record and CVR (Contest.find_sample_size passes the CVR
    list as the MVRs): the whole list, or some positions; phantoms, pooled and unlisted-contest records included"""
    r = rng.random()
    if r < 0.08:
        return list(cvrs), "all"
    if r < 0.22:
        return [c if rng.random() < 0.4 else m for c, m in zip(cvrs, mvrs)], "some"
    return mvrs, None


def differs(a, b):
    """two implementation floats differ by more than the tolerance (non-finite values differ from everything else)"""
    a, b = float(a), float(b)
    if a != a or b != b or abs(a) == float("inf") or abs(b) == float("inf"):
        return not (a == b)
    return abs(C.frac(a) - C.frac(b)) > TOL


def call(f):
    try:
        with warnings.catch_warnings():
            warnings.simplefilter("ignore")
            return ("ok", f())
    except Exception as e:  # noqa
        return ("raise", exc_kind(e), f"{type(e).__name__}: {e}")


def run_world(rng, spec):
    """Drive the implementation.  Returns dict(pool=[...], cmp=[...], spv=[...], oracle=[violations], runs=int, stats)."""
    M, NonnegMean = lib()
    ids = Ids()
    for k in range(3):
        ids.c(f"c{k}")
    ids.c(EXTRA_CONTEST)
    out = {"pool": [], "cmp": [], "spv": [], "oracle": [], "runs": 0, "stats": {}, "facts": []}
    st = out["stats"]

    def hit(k, n=1):
        st[k] = st.get(k, 0) + n

    cons = spec["cons"]
    s_style = spec["s_style"]
    cvrs = [M.CVR(id=c["id"], votes=copy.deepcopy(c["votes"]), phantom=c["phantom"], tally_pool=c["tally_pool"],
                  pool=c["pool"]) for c in spec["cards"]]
    contests = build_contests(M, NonnegMean, spec, len(cvrs) + 3)
    audit = M.Audit.from_dict({"seed": 1, "sim_seed": 2, "quantile": 0.8, "error_rate_1": 0.001, "error_rate_2": 0.0,
                               "reps": 10, "strata": {"s": {"max_cards": len(cvrs), "use_style": s_style,
                                                            "replacement": False, "audit_type": cons[0]["atype"],
                                                            "test": NonnegMean.alpha_mart,
                                                            "estimator": NonnegMean.fixed_alternative_mean,
                                                            "test_kwargs": {}}}})
    ph = spec["ph"]
    if ph["mode"] == "make":
        for con in cons:
            have = sum(1 for c in cvrs if c.has_contest(con["id"]))
            contests[con["id"]].cards = have + ph["extra"][con["id"]]
        audit.strata["s"].max_cards = len(cvrs) + max(ph["extra"].values())
        cvrs, nph = M.CVR.make_phantoms(audit=audit, contests=contests, cvr_list=cvrs, prefix="phantom-",
                                        tally_pool=ph["tally_pool"], pool=ph["pool"])
        hit("phantoms from make_phantoms", int(nph))
    wr = C.Rng(spec["seed"])
    # ---- ONEAudit bookkeeping on the list
    pcase, pviol = run_pool(M, ids, wr, cvrs)
    out["pool"].append(pcase)
    out["oracle"] += pviol
    out["runs"] += 1
    pools_completed = wr.random() < 0.75
    if pools_completed:
        M.CVR.add_pool_contests(cvrs, M.CVR.pool_contests(cvrs))
    # ---- sample numbers, thresholds, manual records
    n = len(cvrs)
    nums = list(range(1, n + 1))
    wr.shuffle(nums)
    rr = wr.random()
    if rr < 0.05:
        nums = [x * 2 ** 70 + wr.randint(0, 2 ** 32) for x in nums]
    elif rr < 0.17:
        nums = real_sample_nums(wr, n)
        hit("256-bit sample numbers")
    for c, s in zip(cvrs, nums):
        c.sample_num = s
    mvr_specs = [gen_mvr(wr, spec, cons, c) for c in cvrs]
    mvrs = [M.CVR(id=c.id, votes=copy.deepcopy(m["votes"]), phantom=m["phantom"]) for c, m in zip(cvrs, mvr_specs)]
    mvrs, same = cvrs_as_mvrs(wr, cvrs, mvrs)
    if same:
        hit(f"CVR objects used as their own manual records ({same})")
    objs = cvrs + mvrs                      # handle of a record = its index in objs
    hcvr = {id(c): i for i, c in enumerate(cvrs)}
    hmvr = {id(m): n + i for i, m in enumerate(mvrs)}
    for con in cons:
        thr = wr.choice(sorted(nums)) if wr.random() < 0.85 else wr.choice([0, max(nums) + 1])
        contests[con["id"]].sample_threshold = thr
    top = max(contests[c["id"]].sample_threshold for c in cons)
    order = sorted(range(n), key=lambda i: cvrs[i].sample_num)
    sample = [i for i in order if cvrs[i].sample_num <= top]
    if wr.random() < 0.25:
        sample = sorted(wr.sample(range(n), wr.randint(0, n)), key=lambda i: cvrs[i].sample_num)
    elif wr.random() < 0.15:
        sample = order
    s_cvrs = [cvrs[i] for i in sample]
    s_mvrs = [mvrs[i] for i in sample]

    def clit(o):
        return card_lit(ids, o, hcvr[id(o)] if id(o) in hcvr else hmvr[id(o)])

    all_asns = [(con, a, asn) for con in cons for a, asn in contests[con["id"]].assertions.items()]
    tabs = {}
    # ---- in a share of the worlds the real workflow order: pool means of ALL assertions of ALL contests are set first
    #      (in dict, reverse or shuffled order), and only then is each assertion evaluated.  No attribute of the
    #      assertion / assorter objects is reassigned by the harness in these worlds.
    preset = wr.random() < 0.4
    if preset:
        if wr.random() < 0.5:
            preliminary_pass(M, wr, audit, contests, all_asns, cvrs, s_style)
            hit("preliminary setters on another CVR list, then the final list")
        set_order = list(all_asns)
        wr.choice([lambda l: None, lambda l: l.reverse(), wr.shuffle])(set_order)
        for _, _, asn_ in set_order:
            call(lambda: asn_.assorter.set_tally_pool_means(cvr_list=cvrs, tally_pools=None, use_style=s_style))
        if wr.random() < 0.5:
            call(lambda: M.Assertion.set_all_margins_from_cvrs(audit=audit, contests=contests, cvr_list=cvrs))
        hit("workflow order: all pool means set before any assertion is evaluated")
    # ---- per assertion: pool means, margin, B on every pair, mvrs_to_data
    for con, a, asn in all_asns:
        cid, c_style, ua = con["id"], con["style"], C.frac(asn.assorter.upper_bound)
        tab, aerrs = assort_table(asn, objs)
        tabs[(cid, a)] = tab
        if aerrs:
            hit("assort raised")
        # pool means
        mode = wr.choice([0, 1, 1, 1, 2, 2]) if any(c.pool for c in cvrs) else wr.choice([0, 1, 2])
        m_style = s_style if wr.random() < 0.85 else (not s_style)
        arg_labels = []
        if mode == 2:
            labs = list({repr(c.tally_pool): c.tally_pool for c in cvrs if c.pool}.values())
            extra = [l for l in ["p1", "p2", 7, None] if repr(l) not in {repr(x) for x in labs}]
            rr = wr.random()
            if rr < 0.6:
                arg_labels = labs + (wr.sample(extra, 1) if extra and wr.random() < 0.4 else [])
            elif rr < 0.8:
                arg_labels = wr.sample(labs, wr.randint(0, len(labs)))
            else:
                arg_labels = list(M.CVR.pool_contests(cvrs).keys())
        if preset:
            mode, m_style, arg_labels = 1, s_style, []
        elif mode and wr.random() < 0.2:       # an earlier call with other settings is overwritten
            call(lambda: asn.assorter.set_tally_pool_means(cvr_list=cvrs, tally_pools=None, use_style=not m_style))
            asn.assorter.tally_pool_means = None if wr.random() < 0.5 else asn.assorter.tally_pool_means
            if asn.assorter.tally_pool_means is not None:
                hit("pool means overwritten")
        prior = asn.assorter.tally_pool_means
        if preset:      # set before the loop started; whatever the assorter holds now is what the code will use
            impl_means = ("ok", [(ids.p(k), fl(v)) for k, v in prior.items()]) if prior is not None else ("raise", "EOther")
        elif mode == 0:
            asn.assorter.tally_pool_means = prior = None
            impl_means = ("ok", [])
        else:
            if prior is not None:
                asn.assorter.tally_pool_means = None       # so that a raise leaves None, as the model assumes
            rc = call(lambda: asn.assorter.set_tally_pool_means(
                cvr_list=cvrs, tally_pools=(None if mode == 1 else list(arg_labels)), use_style=m_style))
            if rc[0] == "ok":
                impl_means = ("ok", [(ids.p(k), fl(v)) for k, v in asn.assorter.tally_pool_means.items()])
            else:
                impl_means = ("raise", rc[1])
                hit("set_tally_pool_means raised " + rc[1])
        # margin
        how = wr.choice(["cvrs", "cvrs", "setall", "setall", "twice", "setall_twice", "setall_twice", "direct"])
        if how == "direct":
            mg = wr.choice([F(1, 4), F(1, 8), F(3, 8), F(1, 64), F(0), F(-1, 8), F(1, 2), F(1)])
            asn.margin = float(mg)
            margin_given = float(mg)
        else:
            if how == "twice":
                audit.strata["s"].use_style = not s_style
                call(lambda: asn.set_margin_from_cvrs(audit, cvrs[: max(1, n // 2)]))
                audit.strata["s"].use_style = s_style
            if how == "setall_twice":     # margins recomputed for a changed CVR list: first another list, then the final one
                first = other_list(wr, cvrs)
                call(lambda: (asn.set_margin_from_cvrs(audit, first) if wr.random() < 0.3 else
                              M.Assertion.set_all_margins_from_cvrs(audit=audit, contests=contests, cvr_list=first)))
                hit("margins recomputed: another CVR list first, then the final list")
                how = "setall"
            if how == "setall":     # Assertion.set_all_margins_from_cvrs: every assertion of every contest, this one included
                rc = call(lambda: M.Assertion.set_all_margins_from_cvrs(audit=audit, contests=contests, cvr_list=cvrs))
                hit("margin from set_all_margins_from_cvrs (per-assertion stage)")
            else:
                rc = call(lambda: asn.set_margin_from_cvrs(audit, cvrs))
            margin_given = None
            if rc[0] != "ok":
                hit("set_margin_from_cvrs raised")
                out["facts"].append(("margin-raise", cid, a, rc[2]))
                asn.margin = float("nan")
                margin_given = float("nan")
        impl_margin, impl_u0 = fl(asn.margin), fl(asn.test.u)
        # overstatement assorter on every card's own pair plus a few crossed pairs
        pair_idx = [(i, i) for i in range(n)] + [(wr.randrange(n), wr.randrange(n)) for _ in range(min(4, n))]
        B_on, B_off = [], []
        for mi, ci in pair_idx:
            for flag, acc in ((True, B_on), (False, B_off)):
                rc = call(lambda: asn.overstatement_assorter(mvrs[mi], cvrs[ci], use_style=flag))
                acc.append(("ok", fl(rc[1])) if rc[0] == "ok" else ("raise", rc[1]))
        # mvrs_to_data
        use_all = wr.random() < 0.2
        thr = contests[cid].sample_threshold
        rc = call(lambda: asn.mvrs_to_data(s_mvrs, s_cvrs, use_all=use_all))
        if rc[0] == "ok":
            d_impl, u_impl = [fl(x) for x in np.atleast_1d(rc[1][0])], fl(rc[1][1])
            impl_data = ("ok", (d_impl, u_impl))
        else:
            impl_data = ("raise", rc[1])
            hit("mvrs_to_data raised " + rc[1])
        case = {"tab": tab, "cid": ids.c(cid), "ua": ua, "atype": con["atype"], "objs": [clit(o) for o in objs], "ncvr": n,
                "means_mode": mode, "means_arg": [ids.p(l) for l in arg_labels], "means_style": m_style,
                "impl_means": impl_means, "s_style": s_style, "c_style": c_style, "margin_given": margin_given,
                "impl_margin": impl_margin, "impl_u0": impl_u0,
                "pairs": [(n + mi, ci) for mi, ci in pair_idx],
                "impl_B_on": B_on, "impl_B_off": B_off, "mvrs": [n + i for i in sample],
                "scvrs": list(sample), "thr": F(thr), "use_all": use_all, "impl_data": impl_data,
                "meta": {"contest": cid, "assertion": a, "kind": con["kind"], "how": how, "sample": sample,
                         "pools_completed": pools_completed}}
        out["cmp"].append(case)
        # ------------------------------------------------------------------ oracles on the implementation alone
        wjson = lambda: world_json(spec, cvrs, mvrs, contests, sample, extra={"contest": cid, "assertion": a})
        case["world"] = wjson()
        out["runs"] += 1
        # C03: the assorter must be defined on the records the identity is about
        if aerrs and con["atype"] != "POLLING":
            for k, msg in aerrs:
                i = k if k < n else k - n
                in_scope = (not s_style) or cvrs[i].has_contest(cid)
                needed = in_scope and (k < n or not (mvrs[i].phantom or (s_style and not mvrs[i].has_contest(cid))))
                if needed:
                    out["oracle"].append({"what": "the assorter raises on a record under audit, so its overstatement is undefined",
                                          "input": wjson(), "observed": {"record": ("cvr" if k < n else "mvr"), "index": i,
                                                                         "error": msg, "use_style": s_style},
                                          "signature": "C03:assorter-raises", "prop": "C03"})
                    break
        # C03: identity over all cards under audit
        consistent = (mode == 0 or (impl_means[0] == "ok" and m_style == s_style)) and margin_given is None and not aerrs
        if consistent and con["atype"] != "POLLING":
            v03 = (oracle_pool_means(asn, cid, tab, cvrs, s_style) if mode else []) + \
                oracle_margin(asn, cid, tab, cvrs, s_style, impl_margin) + \
                oracle_identity(asn, cid, ua, cvrs, mvrs, tab, n, s_style, impl_margin)
            for w, obs in v03:
                out["oracle"].append({"what": w, "input": wjson(), "observed": obs, "signature": "C03:" + w[:40],
                                      "prop": "C03"})
            hit("C03 identity evaluated")
        # C06: range, u, filter
        v06 = oracle_data(asn, con, cid, ua, s_mvrs, s_cvrs, thr, use_all, impl_data, impl_margin, impl_means, mode,
                          aerrs, rc)
        for w, obs in v06:
            out["oracle"].append({"what": w, "input": wjson(), "observed": obs, "signature": "C06:" + w[:40],
                                  "prop": "C06"})
        # facts for the non-triviality rule / histograms
        for mi, ci in pair_idx[:n]:
            if cvrs[ci].phantom:
                hit("phantom CVR" + (" pooled" if cvrs[ci].pool else ""))
                if not cvrs[ci].has_contest(cid):
                    hit("phantom CVR not listing the contest")
            if cvrs[ci].pool:
                hit("pooled CVR")
            if mvrs[mi].phantom:
                hit("phantom MVR" + ("" if mvrs[mi].votes else " listing nothing"))
            elif not mvrs[mi].has_contest(cid) and cvrs[ci].has_contest(cid):
                hit("MVR lacks the contest")
            dv = tab[hmvr[id(mvrs[mi])]] - tab[hcvr[id(cvrs[ci])]]
            if dv and not mvrs[mi].phantom:
                hit(f"discrepancy {'+' if dv > 0 else '-'}{round(float(abs(dv) / ua), 2)} u")
        hit(f"assertion {con['kind']}/{con['atype']}/style={c_style}")
        if con["kind"] == "super" and con.get("direct"):
            hit("super-majority assertion built by a direct call, share " + ("< 1/2" if con["share"] < F(1, 2) else ">= 1/2"))
    # ---- all assertions together: margins set in different ways, then set_p_values
    sp = run_spv(M, ids, wr, spec, contests, audit, cvrs, mvrs, sample, all_asns, tabs, [clit(o) for o in objs], hit, out)
    out["spv"].append(sp)
    return out


def oracle_identity(asn, cid, ua, cvrs, mvrs, tab, n, style, margin):
    """C03 on the implementation's numbers: mean(B) - 1/2 == (2 mean(Abar) - 1) / (2 (2u - v)) over the cards under audit."""
    bad = []
    scope = [i for i in range(n) if (not style) or cvrs[i].has_contest(cid)]
    if not scope or margin != margin or abs(margin) == float("inf"):
        return bad
    # phantom CVRs outside pools must be blank-like for the assorter (1/2); the shipped assorters satisfy this
    for i in scope:
        if cvrs[i].phantom and not (cvrs[i].pool and asn.assorter.tally_pool_means is not None) and tab[i] != F(1, 2):
            return bad
    v = C.frac(margin)
    if 2 * ua - v == 0:
        return bad
    Bs = []
    for i in scope:
        rc = call(lambda: asn.overstatement_assorter(mvrs[i], cvrs[i], use_style=style))
        if rc[0] != "ok":
            bad.append(("overstatement_assorter raises on a card under audit", {"card": i, "error": rc[2]}))
            return bad
        b = fl(rc[1])
        if b != b:
            bad.append(("overstatement_assorter is NaN on a card under audit", {"card": i}))
            return bad
        Bs.append(C.frac(b))
    abar = [F(0) if (mvrs[i].phantom or (style and not mvrs[i].has_contest(cid))) else tab[n + i] for i in scope]
    mB, mA = sum(Bs) / len(Bs), sum(abar) / len(abar)
    rhs = (2 * mA - 1) / (2 * (2 * ua - v))
    if abs((mB - F(1, 2)) - rhs) > TOL:
        bad.append(("mean(B) - 1/2 differs from (2 mean(Abar) - 1)/(2(2u - v)) over the cards under audit",
                    {"mean_B": float(mB), "mean_Abar": float(mA), "v": float(v), "u": float(ua), "lhs": float(mB - F(1, 2)),
                     "rhs": float(rhs), "style": style}))
    elif abs(mA - F(1, 2)) > TOL and abs(mB - F(1, 2)) > TOL and ((mB > F(1, 2)) != (mA > F(1, 2))) and 2 * ua - v > 0:
        bad.append(("mean(B) > 1/2 is not equivalent to mean(Abar) > 1/2", {"mean_B": float(mB), "mean_Abar": float(mA)}))
    return bad


def oracle_data(asn, con, cid, ua, s_mvrs, s_cvrs, thr, use_all, impl_data, margin, impl_means, mode, aerrs, rc):
    """C06 on the implementation: 0 <= d <= u, u is the documented bound, only the right cards contribute."""
    bad = []
    style, polling = con["style"], con["atype"] == "POLLING"
    means = asn.assorter.tally_pool_means
    if margin != margin or abs(margin) == float("inf"):
        return bad
    v = C.frac(margin)
    if not polling and not (0 < v < 2 * ua):          # the property is about positive margins
        return bad
    contributing = [i for i in range(len(s_cvrs)) if polling or (not style) or
                    (s_cvrs[i].has_contest(cid) and (use_all or s_cvrs[i].sample_num <= thr))]
    if not polling and any(s_cvrs[i].pool and means is not None and s_cvrs[i].tally_pool not in means
                           for i in contributing):
        return bad                                     # pool means not set for a sampled pool: outside the property
    if not polling and not style and any(not s_cvrs[i].has_contest(cid) and False for i in contributing):
        return bad
    if impl_data[0] != "ok":
        bad.append((f"mvrs_to_data raises {rc[2].split(':')[0]} on a valid sample", {"error": rc[2], "style": style}))
        return bad
    d, u = impl_data[1]
    want_u = ua if polling else 2 / (2 - v / ua)
    if differs(u, float(want_u)):
        bad.append(("the u returned by mvrs_to_data is not the documented bound",
                    {"u": u, "expected": float(want_u), "audit_type": con["atype"]}))
        return bad
    if any(x != x for x in d):
        if not polling and means is not None and any(
                s_cvrs[i].pool and means[s_cvrs[i].tally_pool] != means[s_cvrs[i].tally_pool] for i in contributing):
            return bad                                 # empty pool mean (NaN) reached through inconsistent style flags
        bad.append(("NaN datum from mvrs_to_data", {"d": C.jsonable(d)}))
        return bad
    fu = C.frac(u)
    out_of = [x for x in d if C.frac(x) < -TOL or C.frac(x) > fu + TOL]
    if out_of:
        bad.append(("a datum from mvrs_to_data lies outside [0, u]", {"d": C.jsonable(d), "u": u}))
    if len(d) != len(contributing):
        bad.append(("mvrs_to_data: the cards contributing are not those whose CVR lists the contest with sample_num <= threshold"
                    if style and not polling else "mvrs_to_data: number of data differs from the number of sampled cards",
                    {"n_data": len(d), "expected_cards": contributing, "threshold": str(thr), "use_all": use_all,
                     "sample_nums": [str(c.sample_num) for c in s_cvrs]}))
    elif not polling:
        # any contributing card may turn out to be unfindable (phantom manual record): that datum must be in [0, u] too
        M, _ = lib()
        for i in contributing:
            r3 = call(lambda: asn.overstatement_assorter(M.CVR(id=s_cvrs[i].id, votes={}, phantom=True), s_cvrs[i],
                                                         use_style=style))
            if r3[0] == "ok" and fl(r3[1]) == fl(r3[1]) and (C.frac(fl(r3[1])) < -TOL or C.frac(fl(r3[1])) > fu + TOL):
                bad.append(("the datum of a sampled card whose ballot cannot be found lies outside [0, u]",
                            {"card": i, "datum": fl(r3[1]), "u": u, "assort(cvr)": C.jsonable(fl(asn.assorter.assort(s_cvrs[i]))),
                             "assorter upper_bound": C.jsonable(asn.assorter.upper_bound)}))
                break
        for x, i in zip(d, contributing):
            r2 = call(lambda: asn.overstatement_assorter(s_mvrs[i], s_cvrs[i], use_style=style))
            if r2[0] != "ok" or abs(C.frac(fl(r2[1])) - C.frac(x)) > TOL:
                bad.append(("mvrs_to_data: a datum is not the overstatement assorter of the contributing card",
                            {"card": i, "datum": x}))
                break
    return bad


def run_spv(M, ids, wr, spec, contests, audit, cvrs, mvrs, sample, all_asns, tabs, obj_lits, hit, out):
    cons = spec["cons"]
    n = len(cvrs)
    s_cvrs, s_mvrs = [cvrs[i] for i in sample], [mvrs[i] for i in sample]
    s_style = spec["s_style"]
    # state before
    asns_lit = []
    for con, a, asn in all_asns:
        means = asn.assorter.tally_pool_means
        asns_lit.append({"tab": tabs[(con["id"], a)], "cid": ids.c(con["id"]), "style": con["style"], "atype": con["atype"],
                         "thr": F(contests[con["id"]].sample_threshold), "margin": fl(asn.margin),
                         "ua": C.frac(asn.assorter.upper_bound),
                         "means": None if means is None else [(ids.p(k), fl(v)) for k, v in means.items()],
                         "u_before": fl(asn.test.u), "override": None})
    setall, impl_setall = None, ([], float("inf"))
    if wr.random() < 0.45:
        npop = n if wr.random() < 0.8 else max(1, n // 2)
        pop = cvrs[:npop]
        if wr.random() < 0.4:
            call(lambda: M.Assertion.set_all_margins_from_cvrs(audit=audit, contests=contests, cvr_list=other_list(wr, cvrs)))
            hit("set_all_margins_from_cvrs twice (another list first)")
        rc = call(lambda: M.Assertion.set_all_margins_from_cvrs(audit=audit, contests=contests, cvr_list=pop))
        if rc[0] == "ok":
            setall = (npop, s_style)
            impl_setall = ([(fl(asn.margin), fl(asn.test.u)) for _, _, asn in all_asns], fl(rc[1]))
            hit("set_all_margins_from_cvrs")
        else:
            out["facts"].append(("set_all raised", rc[2]))
            for k, (_, _, asn) in enumerate(all_asns):      # state may be partly updated: re-read it
                asns_lit[k]["margin"], asns_lit[k]["u_before"] = fl(asn.margin), fl(asn.test.u)
    # margins (re)assigned some other way afterwards
    for k, (con, a, asn) in enumerate(all_asns):
        rr = wr.random()
        if rr < 0.2:
            asn.margin = float(wr.choice([F(1, 4), F(1, 8), F(3, 8), F(1, 16), F(1, 2)]))
            asns_lit[k]["override"] = fl(asn.margin)
            hit("margin assigned directly")
        elif rr < 0.45 and con["kind"] in ("plur", "super"):
            # Contest.find_margins_from_tally with a reported tally
            c = contests[con["id"]]
            c.tally = {x: 0 for x in con["cands"]}
            for cv in cvrs:
                if cv.has_contest(con["id"]):
                    marks = [x for x in con["cands"] if cv.get_vote_for(con["id"], x)]
                    if len(marks) == 1:
                        c.tally[marks[0]] += 1
            c.tally["A"] += 2                                # make sure the reported winner leads
            rc = call(lambda: c.find_margins_from_tally())
            if rc[0] == "ok" and asn.margin == asn.margin and abs(asn.margin) != float("inf"):
                hit("margin from tally")
            for k2, (con2, _, asn2) in enumerate(all_asns):
                if con2["id"] == con["id"]:
                    asns_lit[k2]["override"] = fl(asn2.margin)
    # margin == 2 u_a exactly makes `2 / (2 - margin / u_a)` a division by zero whose outcome depends on the number's
    # python type (ZeroDivisionError for float, inf for np.float64): outside the model (and outside any margin that
    # can come from votes, which is <= 2 u_a - 1); such cases are regenerated with a directly assigned margin
    for k, (con, a, asn) in enumerate(all_asns):
        m = fl(asn.margin)
        if m == m and abs(m) != float("inf") and C.frac(m) == 2 * C.frac(asn.assorter.upper_bound):
            asn.margin = 0.25
            asns_lit[k]["override"] = 0.25
            hit("margin == 2 u_a regenerated")
    # spy on the tests: what u does the test hold when it runs, and on which data
    log = []
    for con, a, asn in all_asns:
        def spy(x, _asn=asn, _key=(con["id"], a), **kw):
            log.append((_key, fl(_asn.test.u), [fl(v) for v in np.atleast_1d(x)]))
            return 0.5, np.full(max(len(np.atleast_1d(x)), 1), 0.5)
        asn.test.test = spy
    polling_only = all(con["atype"] == "POLLING" for con in cons)
    rc = call(lambda: M.Assertion.set_p_values(contests, s_mvrs, None if (polling_only and wr.random() < 0.5) else s_cvrs))
    if rc[0] == "ok" and len(log) == len(all_asns):
        impl = ("ok", [(log[k][1], log[k][2], fl(asn.test.u)) for k, (_, _, asn) in enumerate(all_asns)])
    elif rc[0] == "ok":
        impl = ("raise", "EOther")
    else:
        impl = ("raise", rc[1])
        hit("set_p_values raised " + rc[1])
    out["runs"] += 1
    # C06 oracle: the u installed is the u returned with the data, and the data given to the test are inside it
    if rc[0] == "ok":
        for k, (con, a, asn) in enumerate(all_asns):
            r2 = call(lambda: asn.mvrs_to_data(s_mvrs, s_cvrs))
            if r2[0] != "ok" or k >= len(log):
                continue
            u_ret = fl(r2[1][1])
            key, u_call, d_call = log[k]
            margin = fl(asn.margin)
            ua = C.frac(asn.assorter.upper_bound)
            if margin != margin or abs(margin) == float("inf") or u_ret != u_ret or abs(u_ret) == float("inf"):
                continue
            if con["atype"] != "POLLING" and not (0 < C.frac(margin) < 2 * ua):
                continue
            inp = lambda: world_json(spec, cvrs, mvrs, contests, None, extra={
                "contest": con["id"], "assertion": a, "margin": margin, "sample_ids": [c.id for c in s_cvrs]})
            if key != (con["id"], a):
                out["oracle"].append({"what": "set_p_values runs the tests in an unexpected order", "input": inp(),
                                      "observed": [l[0] for l in log], "signature": "C06:order", "prop": "C06"})
                break
            if differs(u_call, u_ret):
                out["oracle"].append({"what": "set_p_values runs the test before the bound u returned by mvrs_to_data is installed",
                                      "input": inp(), "observed": {"test.u when test() ran": u_call, "u returned": u_ret},
                                      "signature": "C06:u-not-installed", "prop": "C06"})
            elif differs(fl(asn.test.u), u_ret):
                out["oracle"].append({"what": "after set_p_values assertion.test.u differs from the u returned by mvrs_to_data",
                                      "input": inp(), "observed": {"test.u": fl(asn.test.u), "u returned": u_ret},
                                      "signature": "C06:u-after", "prop": "C06"})
            if any(x == x and (x < -1e-12 or x > u_call * (1 + 1e-12) + 1e-12) for x in d_call):
                out["oracle"].append({"what": "a datum handed to the test lies outside [0, test.u]", "input": inp(),
                                      "observed": {"data": d_call, "test.u": u_call}, "signature": "C06:data-outside-u",
                                      "prop": "C06"})
    return {"world": world_json(spec, cvrs, mvrs, contests, sample), "objs": obj_lits, "asns": asns_lit, "setall": setall, "impl_setall": impl_setall,
            "mvrs": [n + i for i in sample], "cvrs": list(sample), "impl": impl,
            "meta": {"assertions": [(c["id"], a) for c, a, _ in all_asns]}}


def world_json(spec, cvrs, mvrs, contests, sample, extra=None):
    d = {"use_style(stratum)": spec["s_style"],
         "contests": [{k: C.jsonable(v) for k, v in c.items()} | {"sample_threshold": str(contests[c["id"]].sample_threshold)}
                      for c in spec["cons"]],
         "cvrs": [{"id": c.id, "votes": C.jsonable(c.votes), "phantom": bool(c.phantom), "pool": bool(c.pool),
                   "tally_pool": repr(c.tally_pool), "sample_num": str(c.sample_num)} for c in cvrs],
         "mvrs": [{"id": m.id, "votes": C.jsonable(m.votes), "phantom": bool(m.phantom)} for m in mvrs]}
    if sample is not None:
        d["sample (indices into cvrs)"] = list(sample)
    if extra:
        d.update(extra)
    return d


def case_json(case):
    """replay form of a case: the readable world first, then the raw fields (Coq literals of the records last)"""
    d = {"world": case.get("world"), "meta": C.jsonable(case.get("meta"))}
    d.update({k: C.jsonable(v) for k, v in case.items() if k not in ("world", "meta", "objs")})
    d["objs"] = case.get("objs")
    return d


def run_worlds(ctx, n_worlds):
    """Generate and run n worlds; returns (pool_cases, cmp_cases, spv_cases, oracle_violations, oracle_runs, stats, facts)."""
    pool, cmp_, spv, viol, runs, stats, facts = [], [], [], [], 0, {}, []
    for _ in range(n_worlds):
        spec = gen_world(ctx.rng)
        o = run_world(ctx.rng, spec)
        pool += o["pool"]
        cmp_ += o["cmp"]
        spv += o["spv"]
        viol += o["oracle"]
        runs += o["runs"]
        facts += o["facts"]
        for k, v in o["stats"].items():
            stats[k] = stats.get(k, 0) + v
    return pool, cmp_, spv, viol, runs, stats, facts


def correspondences(ctx, res, pool, cmp_, spv):
    """the three differential runs shared by C03 and C06"""
    # cards whose existing votes were altered by add_pool_contests cannot be expressed in the model: planted as a
    # disagreement by falsifying the recorded return value
    for c in pool:
        if not c["votes_kept"]:
            c["added2"] = not c["added2"]
    cr = C.run_corr(ctx.pid, "pool", IMPORTS, "pool_case", pool, pool_case_lit, "agree_pool", shard=120, show="show_pool")
    res.corr.append(("CVR.pool_contests / CVR.add_pool_contests vs Compare.pool_contests / add_pool_contests", cr,
                     lambda c: c.get("json", {})))
    cr = C.run_corr(ctx.pid, "cmp", IMPORTS, "cmp_case", cmp_, cmp_case_lit, "agree_cmp", shard=60, show="show_cmp")
    res.corr.append(("set_tally_pool_means, set_margin_from_cvrs, overstatement_assorter on every pair, mvrs_to_data "
                     "vs Compare.v", cr, case_json))
    cr = C.run_corr(ctx.pid, "spv", IMPORTS, "spv_case", spv, spv_case_lit, "agree_spv", shard=60, show="show_spv")
    res.corr.append(("set_all_margins_from_cvrs / reassigned margins / set_p_values (u held by each test when it runs, "
                     "data, u afterwards) vs Compare.set_p_values", cr, case_json))
    res.evaluations += len(pool) + len(cmp_) + len(spv)


def report(ctx, res, pool, cmp_, spv, stats, facts):
    """non-triviality (measured), samples, histograms"""
    for c in cmp_:
        nt = any(r[0] == "ok" and abs(r[1] - 1 / (2 - c["impl_margin"] / float(c["ua"]))) > 1e-12
                 for r in c["impl_B_on"] + c["impl_B_off"] if r[0] == "raise" or r[1] == r[1]) \
            if c["impl_margin"] == c["impl_margin"] else False
        if nt:
            res.nontrivial.add(repr((c["objs"], c["pairs"], c["tab"], c["means_mode"], c["thr"])))
    for c in pool:
        if c["added"]:
            res.nontrivial.add(repr((c["cards"], c["arg"])))
    for c in spv:
        if c["impl"][0] == "ok" and any(abs(u - ue) > 0 or True for u, d, ue in c["impl"][1] if d):
            res.nontrivial.add(repr((c["objs"], c["cvrs"], [a["margin"] for a in c["asns"]])))
    res.rule = ("worlds of 1-3 contests (plurality / super-majority / IRV from json) x 2-14 cards built with the library: phantoms "
                "by hand and by CVR.make_phantoms (inside/outside pools, not listing every contest), pooled and unpooled "
                "batches with per-card pool flags, one MVR per card (same / re-voted / lacking contests / not found / "
                "phantom listing contests / empty / extra contests), sample numbers with per-contest thresholds, "
                "stratum vs contest use_style, pool means set with None / explicit labels / never, margins from "
                "set_margin_from_cvrs (once, twice), set_all_margins_from_cvrs, find_margins_from_tally, direct assignment. "
                "non-trivial: an assertion case where some pair's B differs from the no-error value 1/(2 - v/u) "
                "(or raises), a pool case where a contest was added, a set_p_values case with data; distinct by content")
    res.samples = [case_json(c) for c in cmp_[:2]] + [c.get("json") for c in pool[:1]] + [case_json(c) for c in spv[:1]]
    stats = dict(stats)
    stats["worlds"] = len(pool)
    stats["assertion cases"] = len(cmp_)
    if facts:
        stats["implementation raised in set-up"] = len(facts)
    res.stats = stats


# ---------------------------------------------------------------------------------------------- large / awkward worlds
def oracle_margin(asn, cid, tab, cvrs, style, margin):
    """Assertion.margin must be 2*mean(A(cvr)) - 1 over the cards under audit, recomputed from the per-card values"""
    scope = [i for i in range(len(cvrs)) if (not style) or cvrs[i].has_contest(cid)]
    if not scope or margin != margin or abs(margin) == float("inf"):
        return []
    want = 2 * sum(tab[i] for i in scope) / len(scope) - 1
    if abs(C.frac(margin) - want) > TOL:
        return [("Assertion.margin differs from 2*mean(A(cvr)) - 1 over the cards under audit",
                 {"margin": margin, "recomputed": float(want), "cards_under_audit": len(scope), "use_style": style})]
    return []


def oracle_pool_means(asn, cid, tab, cvrs, style):
    """every stored pool mean is the mean of A over the pooled cards of that pool that are under audit"""
    means = asn.assorter.tally_pool_means
    if means is None:
        return []
    tot, cnt = {}, {}
    for i, c in enumerate(cvrs):
        if c.pool and ((not style) or c.has_contest(cid)):
            k = repr(c.tally_pool)
            tot[k] = tot.get(k, 0) + tab[i]
            cnt[k] = cnt.get(k, 0) + 1
    for lab, m in means.items():
        k = repr(lab)
        if cnt.get(k) and (fl(m) != fl(m) or abs(C.frac(fl(m)) - tot[k] / cnt[k]) > TOL):
            return [("a tally-pool mean differs from the mean assorter value of the pool's cards under audit",
                     {"tally_pool": k, "stored": fl(m), "recomputed": float(tot[k] / cnt[k]), "pool_size": cnt[k]})]
    return []


def gen_big_world(rng):
    """1 000 - 2 500 cards (count not a multiple of 1 000, 256, 100 ...) whose composition changes along the list:
    vote shares, contests listed, batches (ONEAudit pools of uneven sizes) and phantoms all depend on the position."""
    while True:
        n = rng.randint(1000, 2500)
        if all(n % k for k in (1000, 500, 256, 128, 100, 64, 50)):
            break
    s_style = rng.random() < 0.6
    w_type = rng.choice(["ONEAUDIT", "ONEAUDIT", "CARD_COMPARISON"])
    kinds = rng.choice([["super"], ["super", "plur"], ["plur", "super"], ["irv", "super"], ["plur"]])
    cons = []
    for k, kind in enumerate(kinds):
        cands = CAND[:rng.randint(3, 4) if kind == "irv" else rng.randint(2, 4)]
        con = {"id": f"c{k}", "kind": kind, "cands": cands, "atype": w_type, "style": s_style,
               "share": rng.choice([F(11, 20), F(2, 3), F(2, 5), F(11, 20), F(3, 5), F(1, 3)]), "direct": rng.random() < 0.5,
               "ctor": rng.random() < 0.3}
        if kind == "irv":
            con["json"] = [{"winner": "A", "loser": "B", "assertion_type": "WINNER_ONLY"},
                           {"winner": "A", "loser": "C", "assertion_type": "IRV_ELIMINATION", "already_eliminated": ["B"]}]
        cons.append(con)
    # segments with their own composition
    nseg = rng.randint(3, 6)
    cuts = sorted(rng.sample(range(50, n - 50), nseg - 1)) + [n]
    segs = []
    for _ in range(nseg):
        w = [rng.randint(1, 9) for _ in range(4)]
        if rng.random() < 0.6:
            w[0] += rng.randint(3, 12)
        segs.append({"w": w, "blank": rng.choice([0.02, 0.1, 0.3, 0.6]), "lists": [rng.choice([1.0, 0.9, 0.5, 0.15]) for _ in cons]})
    cards, seg, batch, left, pooled_batch = [], 0, 0, 0, False
    for i in range(n):
        while i >= cuts[seg]:
            seg += 1
        if left == 0:
            batch, left = batch + 1, rng.choice([7, 13, 37, 61, 150, 333, 410])
            pooled_batch = rng.random() < (0.65 if w_type == "ONEAUDIT" else 0.25)
        left -= 1
        sg = segs[seg]
        votes = {}
        for k, con in enumerate(cons):
            if rng.random() < sg["lists"][k]:
                votes[con["id"]] = gen_votes(rng, con["kind"], con["cands"], w=sg["w"], blank=sg["blank"])
        ph = rng.random() < 0.012
        if ph:
            votes = {cid: {} for cid in votes}
        cards.append({"id": f"card{i}", "votes": votes, "phantom": ph, "tally_pool": f"b{batch}",
                      "pool": pooled_batch if rng.random() < 0.97 else (not pooled_batch)})
    return {"s_style": s_style, "cons": cons, "cards": cards, "ph": {"mode": "none"}, "seed": rng.randint(0, 2 ** 30)}


def run_big_world(spec):
    """the real code on a large world; oracles only (nothing is sent to Coq)"""
    M, NonnegMean = lib()
    out, st = [], {}

    def hit(k, v=1):
        st[k] = st.get(k, 0) + v

    wr = C.Rng(spec["seed"])
    cons, s_style = spec["cons"], spec["s_style"]
    cvrs = [M.CVR(id=c["id"], votes=c["votes"], phantom=c["phantom"], tally_pool=c["tally_pool"], pool=c["pool"])
            for c in spec["cards"]]
    n = len(cvrs)
    contests = build_contests(M, NonnegMean, spec, n + 10)
    audit = M.Audit.from_dict({"seed": 1, "sim_seed": 2, "quantile": 0.8, "error_rate_1": 0.001, "error_rate_2": 0.0,
                               "reps": 10, "strata": {"s": {"max_cards": n, "use_style": s_style, "replacement": False,
                                                            "audit_type": cons[0]["atype"], "test": NonnegMean.alpha_mart,
                                                            "estimator": NonnegMean.fixed_alternative_mean,
                                                            "test_kwargs": {}}}})
    if wr.random() < 0.8:
        M.CVR.add_pool_contests(cvrs, M.CVR.pool_contests(cvrs))
    # sample numbers of real magnitude; thresholds equal to one of them, neighbours at +-1, +-2^k
    nums = [wr.getrandbits(256) + 1 for _ in range(n)]
    order = sorted(range(n), key=lambda i: nums[i])
    cut = wr.randint(25, 60)
    anchor = nums[order[cut]]
    for j, off in zip(wr.sample(range(n), 14), [1, -1, 2, -2, 2 ** 190, -2 ** 190, 2 ** 203, -2 ** 203, 1000, -1000, 3, -3,
                                                 2 ** 140, -2 ** 140]):
        if j != order[cut] and anchor + off > 0:
            nums[j] = anchor + off
    for c, x in zip(cvrs, nums):
        c.sample_num = x
    for con in cons:
        contests[con["id"]].sample_threshold = anchor if wr.random() < 0.6 else wr.choice([anchor + 1, anchor - 1, anchor + 2 ** 190])
    top = max(contests[c["id"]].sample_threshold for c in cons)
    order = sorted(range(n), key=lambda i: cvrs[i].sample_num)
    sample = [i for i in order if cvrs[i].sample_num <= top + 2 ** 204][:90]
    mvr_specs = [gen_mvr(wr, spec, cons, c) if wr.random() < 0.35 else {"votes": c.votes, "phantom": False} for c in cvrs]
    mvrs = [M.CVR(id=c.id, votes=m["votes"], phantom=m["phantom"]) for c, m in zip(cvrs, mvr_specs)]
    mvrs, _same = cvrs_as_mvrs(wr, cvrs, mvrs)
    s_cvrs, s_mvrs = [cvrs[i] for i in sample], [mvrs[i] for i in sample]
    all_asns = [(con, a, asn) for con in cons for a, asn in contests[con["id"]].assertions.items()]
    bulk = wr.random() < 0.5
    if wr.random() < 0.5:
        preliminary_pass(M, wr, audit, contests, all_asns, cvrs, s_style)
    if bulk:
        call(lambda: M.Assertion.set_all_margins_from_cvrs(audit=audit, contests=contests, cvr_list=cvrs))
    for con, a, asn in all_asns:
        cid, ua = con["id"], C.frac(asn.assorter.upper_bound)
        tab, aerrs = assort_table(asn, cvrs + mvrs)
        rc = call(lambda: asn.assorter.set_tally_pool_means(cvr_list=cvrs, tally_pools=None, use_style=s_style))
        if not bulk:
            call(lambda: asn.set_margin_from_cvrs(audit, cvrs))
        margin = fl(asn.margin) if asn.margin is not None else float("nan")
        brief = {"cards": n, "use_style": s_style, "contest": {k: C.jsonable(v) for k, v in con.items()}, "assertion": a,
                 "margins_from": "set_all_margins_from_cvrs" if bulk else "set_margin_from_cvrs",
                 "world_seed": spec["seed"], "note": "large world: regenerate with compare.gen_big_world / run_big_world"}
        found = []
        if rc[0] == "ok" and not aerrs:
            found += [("C03", w, o) for w, o in oracle_margin(asn, cid, tab, cvrs, s_style, margin)]
            found += [("C03", w, o) for w, o in oracle_pool_means(asn, cid, tab, cvrs, s_style)]
            found += [("C03", w, o) for w, o in oracle_identity(asn, cid, ua, cvrs, mvrs, tab, n, s_style, margin)]
            hit("large world: C03 identity / margin / pool means evaluated")
        thr = contests[cid].sample_threshold
        r2 = call(lambda: asn.mvrs_to_data(s_mvrs, s_cvrs))
        impl_data = ("ok", ([fl(x) for x in np.atleast_1d(r2[1][0])], fl(r2[1][1]))) if r2[0] == "ok" else ("raise", r2[1])
        found += [("C06", w, o) for w, o in oracle_data(asn, con, cid, ua, s_mvrs, s_cvrs, thr, False, impl_data, margin,
                                                        None, 1, aerrs, r2)]
        hit("large world: C06 filter on 256-bit sample numbers evaluated")
        for prop, w, o in found:
            inp = dict(brief)
            inp["sample"] = [{"id": c.id, "sample_num": str(c.sample_num), "lists_contest": c.has_contest(cid),
                              "phantom": bool(c.phantom), "votes": C.jsonable(c.votes), "mvr_votes": C.jsonable(m.votes),
                              "mvr_phantom": bool(m.phantom)} for c, m in zip(s_cvrs[:40], s_mvrs[:40])]
            inp["sample_threshold"] = str(thr)
            out.append({"what": w, "input": inp, "observed": o, "signature": f"{prop}:big:" + w[:40], "prop": prop})
    hit("large worlds")
    hit("large world cards", n)
    return out, len(all_asns), st


def run_big(ctx, n_worlds):
    viol, runs, stats = [], 0, {}
    for _ in range(n_worlds):
        v, r, st = run_big_world(gen_big_world(ctx.rng))
        viol += v
        runs += r
        for k, x in st.items():
            stats[k] = stats.get(k, 0) + x
    return viol, runs, stats


# ---------------------------------------------------------------------------------------------- worlds evaluated alternately
def prepare_world(spec):
    """build everything of a world with the library (contests, ALL assertions, CVRs, phantoms, pools, sample, MVRs)
    without setting any pool mean or margin yet"""
    M, NonnegMean = lib()
    wr = C.Rng(spec["seed"] + 17)
    cons, s_style = spec["cons"], spec["s_style"]
    cvrs = [M.CVR(id=c["id"], votes=copy.deepcopy(c["votes"]), phantom=c["phantom"], tally_pool=c["tally_pool"],
                  pool=c["pool"]) for c in spec["cards"]]
    contests = build_contests(M, NonnegMean, spec, len(cvrs) + 3)
    audit = M.Audit.from_dict({"seed": 1, "sim_seed": 2, "quantile": 0.8, "error_rate_1": 0.001, "error_rate_2": 0.0,
                               "reps": 10, "strata": {"s": {"max_cards": len(cvrs), "use_style": s_style,
                                                            "replacement": False, "audit_type": cons[0]["atype"],
                                                            "test": NonnegMean.alpha_mart,
                                                            "estimator": NonnegMean.fixed_alternative_mean,
                                                            "test_kwargs": {}}}})
    ph = spec["ph"]
    if ph["mode"] == "make":
        for con in cons:
            contests[con["id"]].cards = sum(1 for c in cvrs if c.has_contest(con["id"])) + ph["extra"][con["id"]]
        audit.strata["s"].max_cards = len(cvrs) + max(ph["extra"].values())
        cvrs, _ = M.CVR.make_phantoms(audit=audit, contests=contests, cvr_list=cvrs, prefix="phantom-",
                                      tally_pool=ph["tally_pool"], pool=ph["pool"])
    if wr.random() < 0.8:
        M.CVR.add_pool_contests(cvrs, M.CVR.pool_contests(cvrs))
    n = len(cvrs)
    nums = list(range(1, n + 1))
    wr.shuffle(nums)
    for c, x in zip(cvrs, nums):
        c.sample_num = x
    for con in cons:
        contests[con["id"]].sample_threshold = wr.choice(nums)
    top = max(contests[c["id"]].sample_threshold for c in cons)
    sample = [i for i in sorted(range(n), key=lambda i: cvrs[i].sample_num) if cvrs[i].sample_num <= top]
    mvrs = []
    for c in cvrs:
        m = gen_mvr(wr, spec, cons, c)
        mvrs.append(M.CVR(id=c.id, votes=copy.deepcopy(m["votes"]), phantom=m["phantom"]))
    mvrs, _same = cvrs_as_mvrs(wr, cvrs, mvrs)
    all_asns = [(con, a, asn) for con in cons for a, asn in contests[con["id"]].assertions.items()]
    return {"M": M, "spec": spec, "rng": wr, "cvrs": cvrs, "mvrs": mvrs, "contests": contests, "audit": audit,
            "sample": sample, "asns": all_asns, "bulk": wr.random() < 0.5}


def reorder(rng, l):
    l = list(l)
    k = rng.randrange(3)
    if k == 1:
        l.reverse()
    elif k == 2:
        rng.shuffle(l)
    return l


def set_phase(W):
    """pool means and margins of ALL assertions of the world, as an audit script does"""
    M, cvrs, s_style = W["M"], W["cvrs"], W["spec"]["s_style"]
    if W["rng"].random() < 0.5:
        preliminary_pass(M, W["rng"], W["audit"], W["contests"], W["asns"], cvrs, s_style)
    for _, _, asn in reorder(W["rng"], W["asns"]):
        call(lambda: asn.assorter.set_tally_pool_means(cvr_list=cvrs, tally_pools=None, use_style=s_style))
        if not W["bulk"]:
            call(lambda: asn.set_margin_from_cvrs(W["audit"], cvrs))
    if W["bulk"]:
        call(lambda: M.Assertion.set_all_margins_from_cvrs(audit=W["audit"], contests=W["contests"], cvr_list=cvrs))


def eval_phase(W):
    """the oracles for every assertion of the world, after every setter of this (and possibly another) world ran"""
    spec, cvrs, mvrs, contests, sample = W["spec"], W["cvrs"], W["mvrs"], W["contests"], W["sample"]
    s_style, n = spec["s_style"], len(cvrs)
    s_cvrs, s_mvrs = [cvrs[i] for i in sample], [mvrs[i] for i in sample]
    out, runs = [], 0
    for con, a, asn in reorder(W["rng"], W["asns"]):
        cid, ua = con["id"], C.frac(asn.assorter.upper_bound)
        tab, aerrs = assort_table(asn, cvrs + mvrs)
        margin = fl(asn.margin) if asn.margin is not None else float("nan")
        found = []
        if not aerrs:
            found += [("C03", w, o) for w, o in oracle_pool_means(asn, cid, tab, cvrs, s_style)]
            found += [("C03", w, o) for w, o in oracle_margin(asn, cid, tab, cvrs, s_style, margin)]
            if con["atype"] != "POLLING":
                found += [("C03", w, o) for w, o in oracle_identity(asn, cid, ua, cvrs, mvrs, tab, n, s_style, margin)]
        if con["style"] == s_style:
            r2 = call(lambda: asn.mvrs_to_data(s_mvrs, s_cvrs))
            impl_data = ("ok", ([fl(x) for x in np.atleast_1d(r2[1][0])], fl(r2[1][1]))) if r2[0] == "ok" else ("raise", r2[1])
            found += [("C06", w, o) for w, o in oracle_data(asn, con, cid, ua, s_mvrs, s_cvrs, contests[cid].sample_threshold,
                                                            False, impl_data, margin, None, 1, aerrs, r2)]
        runs += 1
        for prop, w, o in found:
            out.append({"what": w, "observed": o, "signature": f"{prop}:workflow:" + w[:40], "prop": prop,
                        "input": world_json(spec, cvrs, mvrs, contests, sample, extra={
                            "contest": cid, "assertion": a, "all assertions of the world": [(c["id"], x) for c, x, _ in W["asns"]],
                            "workflow": "every assertion's set_tally_pool_means and margin setter ran (for this and for a second "
                                        "world built in the same process) before this assertion was evaluated"})})
    return out, runs


def run_alternating(ctx, n_pairs):
    """two worlds in one process: build A, build B, set A, set B, then evaluate both (either order)"""
    viol, runs, stats = [], 0, {}
    for _ in range(n_pairs):
        A, B = prepare_world(gen_world(ctx.rng)), prepare_world(gen_world(ctx.rng))
        set_phase(A)
        set_phase(B)
        for W in ((A, B) if ctx.rng.random() < 0.5 else (B, A)):
            v, r = eval_phase(W)
            viol += v
            runs += r
        stats["pairs of worlds set first, evaluated afterwards"] = stats.get("pairs of worlds set first, evaluated afterwards", 0) + 1
    return viol, runs, stats
