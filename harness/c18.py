"""C18 — merging records for one card loses nothing and keeps its flags meaningful; RAIRE-format reading.

Correspondence: CVR.merge_cvrs / CVR.from_raire / CVR.from_raire_file (real CVR objects, objects reused across
successive calls) against coq/theories/Merge.v.  Oracle: the property evaluated on the implementation's outputs."""
import csv
import itertools
import os
import tempfile

import numpy as np

from . import common as C, genarith

ANCHORS = [("shangrla/core/Audit.py", ["CVR.merge_cvrs", "CVR.from_raire", "CVR.from_raire_file", "CVR.from_vote",
                                       "CVR.__init__"])]
IMPORTS = "From SV Require Import Run_Merge.\nOpen Scope Z_scope."
BAD = -777777


def CVRc():
    from shangrla.core.Audit import CVR
    return CVR


def exc_enum(e):
    for t, n in ((AssertionError, "EAssert"), (IndexError, "EIndex"), (KeyError, "EKey"), (ValueError, "EValue"),
                 (AttributeError, "EAttr"), (TypeError, "EType")):
        if isinstance(e, t):
            return n
    return "EOther"


class Table:
    """strings / ids -> numbers, '' is 0"""

    def __init__(self):
        self.t = {"": 0}

    def __call__(self, s):
        if isinstance(s, np.integer):
            s = int(s)              # np.int64(7) == 7 and hash alike: the same dict key
        if not isinstance(s, (str, int)) or isinstance(s, bool):
            return BAD
        key = (type(s).__name__, s)
        if s == "":
            return 0
        if key not in self.t:
            self.t[key] = len(self.t)
        return self.t[key]


def z(n):
    n = int(n)
    return str(n) if n >= 0 else f"({n})"


def pv_lit(v, tab):
    if v is None:
        return "PNone"
    if isinstance(v, np.integer):
        v = int(v)
    if isinstance(v, (bool, np.bool_)):
        return f"(PBool {C.blit(v)})"
    if isinstance(v, int):
        return f"(PInt {z(v)})"
    if isinstance(v, str):
        return f"(PStr {z(tab(v))})"
    return f"(PStr ({BAD}))"          # e.g. a CVR object: no encoding, forces a disagreement


def votes_lit(votes, tab):
    if not isinstance(votes, dict):
        return f"[({BAD}, [])]"
    out = []
    for k, cv in votes.items():
        if isinstance(cv, dict):
            inner = C.listlit([f"({z(tab(a))}, {z(int(b)) if isinstance(b, int) else BAD})" for a, b in cv.items()])
        else:
            inner = f"[({BAD}, 0)]"
        out.append(f"({z(tab(k))}, {inner})")
    return C.listlit(out)


def snap(c):
    """field values of a CVR object right now (votes copied two levels deep)"""
    votes = {k: (dict(v) if isinstance(v, dict) else v) for k, v in c.votes.items()} if isinstance(c.votes, dict) else c.votes
    return {"id": c.id, "votes": votes, "phantom": c.phantom, "pool": c.pool, "tally_pool": c.tally_pool}


def rec_lit(s, tab):
    return (f"(mkrec {z(tab(s['id']))} {votes_lit(s['votes'], tab)} {pv_lit(s['phantom'], tab)} "
            f"{pv_lit(s['pool'], tab)} {pv_lit(s['tally_pool'], tab)})")


def merge_lit(case):
    tab = Table()
    ins = C.listlit([rec_lit(s, tab) for s in case["in"]])
    o = case["out"]
    ol = f"(Err {o[1]})" if o[0] == "err" else "(Ok " + C.listlit([rec_lit(s, tab) for s in o[1]]) + ")"
    return f"({ins},\n    {ol})"


def merge_json(case):
    return {"records": C.jsonable(case["in"]), "result": C.jsonable(case["out"]), "step": case.get("step", 0)}


# ------------------------------------------------------------------ generation: merge_cvrs
IDS = ["b1", "b2", "b3", 7, "7", "", "b-10", np.int64(7), 0]
CONTESTS = ["c1", "c2", "c3", "AvB"]
CANDS = ["A", "B", "C", "D"]
TPOOLS = [None, None, None, 0, "", "p1", "p2", 1, 2, "0", False, np.int64(0), np.int64(2)]
ODD_FLAGS = [None, 0, 1, 0, 1, "", "x", np.bool_(True), np.bool_(False), np.int64(1)]


def gen_votes(rng):
    r = rng.random()
    if r < 0.1:
        return {}
    votes = {}
    for k in rng.sample(CONTESTS, rng.randint(1, 3)):
        cands = rng.sample(CANDS, rng.randint(0, 4))
        votes[k] = {a: rng.choice([1, 1, 2, 3, 0, 4]) for a in cands}
    return votes


def gen_spec(rng, ids, bool_only, tpools):
    def flag(p_true):
        if not bool_only and rng.random() < 0.25:
            return rng.choice(ODD_FLAGS)
        return rng.random() < p_true
    return {"id": rng.choice(ids), "votes": gen_votes(rng), "phantom": flag(0.5), "pool": flag(0.35),
            "tally_pool": rng.choice(tpools)}


def intended(spec):
    """the values the caller passes (deep copy, taken BEFORE any implementation code runs): the model's input"""
    return {"id": spec["id"], "votes": {k: dict(v) for k, v in spec["votes"].items()}, "phantom": spec["phantom"],
            "pool": spec["pool"], "tally_pool": spec["tally_pool"]}


def build(spec, rng=None):
    """a real CVR from the spec, through the constructor or (half of the time, when rng is given) CVR.from_dict with
    default-valued keys sometimes left out.  spec['votes'] is passed as is (specs may share dict objects)."""
    CVR = CVRc()
    if rng is not None and rng.random() < 0.5:
        d = {"id": spec["id"], "votes": spec["votes"]}
        for k, default in (("phantom", False), ("pool", False), ("tally_pool", None)):
            if not (spec[k] is default and rng.random() < 0.5):
                d[k] = spec[k]
        return CVR.from_dict([d])[0]
    kw = {"id": spec["id"], "votes": spec["votes"], "phantom": spec["phantom"], "pool": spec["pool"],
          "tally_pool": spec["tally_pool"]}
    if rng is not None:
        if spec["votes"] == {} and rng.random() < 0.6:
            del kw["votes"]            # no votes argument: the constructor's (shared) default dict
        for k, default in (("phantom", False), ("pool", False), ("tally_pool", None)):
            if spec[k] is default and rng.random() < 0.3:
                del kw[k]
    return CVR(**kw)


def call_merge(objs, step=0, passed=None):
    """passed[j] = intended(spec) for an object constructed from a spec for this call, None for an object that comes out
    of an earlier call (then its current field values are the input).  Never read a fresh object's fields back."""
    CVR = CVRc()
    passed = passed or [None] * len(objs)
    case = {"in": [p if p is not None else snap(c) for p, c in zip(passed, objs)], "step": step, "first_obj": {}}
    for c, r in zip(objs, case["in"]):
        case["first_obj"].setdefault(repr(idkey(r["id"])), id(c))
    try:
        out = CVR.merge_cvrs(objs)
    except Exception as e:  # noqa
        case["out"] = ("err", exc_enum(e), f"{type(e).__name__}"[:100])
        return case, None
    case["out"] = ("ok", [snap(c) for c in out])
    case["same_obj"] = [case["first_obj"].get(repr(idkey(c.id))) == id(c) for c in out]
    return case, out


def gen_merge_cases(rng, n):
    """record lists with repeated ids; ~half of the lists are followed by further calls that reuse the objects:
    the merged output extended with new records, and the original list again."""
    cases = []
    while len(cases) < n:
        ids = rng.sample(IDS, rng.randint(1, 3))
        bool_only = rng.random() < 0.8
        mode = rng.random()
        tpools = [None] if mode < 0.25 else ([None, rng.choice(TPOOLS[3:])] if mode < 0.6 else TPOOLS)
        k = rng.choice([1, 2, 2, 3, 4, 5, 7])
        specs = [gen_spec(rng, ids, bool_only, tpools) for _ in range(k)]
        if k >= 2 and rng.random() < 0.25:      # two records share one votes dict, or one contest dict (as from_vote callers may)
            a, b = rng.sample(specs, 2)
            if a["votes"] and rng.random() < 0.5:
                kk = rng.choice(list(a["votes"]))
                b["votes"] = dict(b["votes"])
                b["votes"][kk] = a["votes"][kk]
            else:
                b["votes"] = a["votes"]
        passed = [intended(sp) for sp in specs]
        objs = [build(sp, rng) for sp in specs]
        case, out = call_merge(objs, 0, passed)
        cases.append(case)
        if rng.random() < 0.5:
            mspecs = [gen_spec(rng, ids, bool_only, tpools) for _ in range(rng.randint(0, 3))]
            mpassed = [intended(sp) for sp in mspecs]
            more = [build(sp, rng) for sp in mspecs]
            old = list(out) if out is not None else objs[:1]
            case2, out2 = call_merge(old + more, 1, [None] * len(old) + mpassed)
            cases.append(case2)
            case3, _ = call_merge(objs, 2)          # the original objects (the first of each id was updated in place)
            cases.append(case3)
    return cases


def flag_combinations():
    """every combination of (phantom, pool, tally_pool) for two and three records with one id"""
    tps = [None, 0, "", "p1", "p2"]
    for (p1, q1, t1), (p2, q2, t2) in itertools.product(itertools.product([False, True], [False, True], tps), repeat=2):
        yield [{"id": "b1", "votes": {"c1": {"A": 1, "B": 2}}, "phantom": p1, "pool": q1, "tally_pool": t1},
               {"id": "b1", "votes": {"c1": {"A": 1}, "c2": {"C": 1}}, "phantom": p2, "pool": q2, "tally_pool": t2}]
    for t in itertools.product(tps, repeat=3):
        for p in itertools.product([False, True], repeat=3):
            yield [{"id": "b2", "votes": {f"c{j}": {"A": j}}, "phantom": p[j], "pool": p[(j + 1) % 3], "tally_pool": t[j]}
                   for j in range(3)]


# ------------------------------------------------------------------ oracle: merge_cvrs
def py_same(a, b):
    return bool(a == b)


def is_tf(x):
    return isinstance(x, (bool, np.bool_))


def idkey(i):
    i = int(i) if isinstance(i, np.integer) else i
    return (type(i).__name__, i)


def oracle_merge(case):
    recs = case["in"]
    groups = {}
    for r in recs:
        groups.setdefault(idkey(r["id"]), []).append(r)
    conflict = False
    for g in groups.values():
        tps = [r["tally_pool"] for r in g if r["tally_pool"] is not None]
        if any(not py_same(a, b) for a, b in itertools.combinations(tps, 2)):
            conflict = True
    o = case["out"]
    if conflict:
        return [] if o[0] == "err" else ["records of one card with different tally pools are merged without an error"]
    if o[0] == "err":
        return [f"merge_cvrs raises {o[2]} although no card has conflicting tally pools"]
    out = o[1]
    bad = []
    if [idkey(r["id"]) for r in out] != list(groups):
        return ["result is not one record per identifier in first-appearance order"]
    for r, g in zip(out, groups.values()):
        want = {}
        for x in g:
            for k, cv in x["votes"].items():
                want[k] = cv
        if not isinstance(r["votes"], dict) or set(r["votes"]) != set(want):
            bad.append("merged contests are not the union of the records' contests")
        elif any(r["votes"][k] != want[k] for k in want):
            bad.append("within a contest the merged votes are not those of the latest record")
        # truthiness for any flag representation (bool, np.bool_, 0/1, None ...); true/false-valuedness when all inputs are
        if bool(r["phantom"]) != all(bool(x["phantom"]) for x in g):
            bad.append("merged card is a phantom although not all records were (or the reverse)")
        elif all(is_tf(x["phantom"]) for x in g) and not is_tf(r["phantom"]):
            bad.append("phantom flag of a merged card is not a true/false value")
        try:
            pooled = bool(r["pool"])
        except Exception:  # noqa
            pooled = None
        if all(is_tf(x["pool"]) for x in g) and not is_tf(r["pool"]):
            bad.append("pool of a merged card is not a true/false value")
        elif pooled != any(bool(x["pool"]) for x in g):
            bad.append("merged card is pooled although no record was (or the reverse)")
        tps = [x["tally_pool"] for x in g if x["tally_pool"] is not None]
        if (not tps and r["tally_pool"] is not None) or (tps and (r["tally_pool"] is None or not py_same(r["tally_pool"], tps[0])
                                                                  or type(r["tally_pool"]) is not type(tps[0]))):
            bad.append("merged card does not keep the records' common tally pool")
    return bad


# ------------------------------------------------------------------ RAIRE
QUOTING = ["{}, Bob", 'Ann "{}" Lee', " {}", "{} ", "{},", ",{}", '"{}"', "O'{}", "{};x", "a {} b"]


def fancy(rng, name):
    """an identifier that needs CSV quoting (embedded comma / quote / leading or trailing blank), or is left alone"""
    return rng.choice(QUOTING).format(name) if rng.random() < 0.6 else name


def gen_raire(rng, malformed=False):
    ncon = rng.randint(1, 3)
    quoted = rng.random() < 0.35      # names as real exports have them: "Jones, Bob" (well-formed CSV needs quoting)
    contests = [f"{300 + j}" for j in range(ncon)]
    cand_sets = {c: [str(10 * (j + 1) + k) for k in range(rng.randint(2, 5))] for j, c in enumerate(contests)}
    if quoted:
        ren = {c: fancy(rng, "Mayor" + c) for c in contests}
        cand_sets = {ren[c]: [fancy(rng, "C" + x) for x in v] for c, v in cand_sets.items()}
        contests = [ren[c] for c in contests]
    rows = [[str(ncon)]]
    for c in contests:
        rows.append(["Contest", c, str(len(cand_sets[c]))] + cand_sets[c])
    bids = [f"{rng.choice(['1', '2', '99'])}-{rng.randint(1, 3)}" for _ in range(rng.randint(1, 4))]
    if quoted:
        bids = [fancy(rng, b) for b in bids]
    nb = rng.choice([0, 1, 2, 3, 5, 8])
    for _ in range(nb):
        c = rng.choice(contests)
        cs = cand_sets[c]
        rows.append([c, rng.choice(bids)] + rng.sample(cs, rng.randint(0, len(cs))))
    if nb >= 1 and rng.random() < 0.6:      # a contest repeated for one ballot id, later ranking listing fewer candidates
        src = rng.choice(rows[ncon + 1:])
        cs = cand_sets[src[0]]
        rows.insert(rng.randint(rows.index(src) + 1, len(rows)), [src[0], src[1]] + rng.sample(cs, rng.randint(0, len(cs) - 1)))
    skip = ncon
    wellformed = True
    if malformed:
        kind = rng.choice(["short", "empty", "dupcand", "skip_less", "skip_more"])
        if kind == "short":
            rows.insert(rng.randint(ncon + 1, len(rows)), [contests[0]])
            wellformed = False
        elif kind == "empty":
            rows.insert(rng.randint(ncon + 1, len(rows)), [])
            wellformed = False
        elif kind == "dupcand":
            cs = cand_sets[contests[0]]
            rows.append([contests[0], rng.choice(bids), cs[0], cs[1], cs[0]])
            wellformed = False
        elif kind == "skip_less":
            skip = rng.randint(0, ncon - 1)
        else:
            skip = ncon + rng.randint(1, 3)
        rows[0] = [str(skip)]
    return skip, rows, wellformed


def gen_raire_large(rng):
    """300..1500 ballot rows, 2..4 contests, a few hundred ballot ids; rows grouped by contest (all of contest 1, then all
    of contest 2, ...: one id's rows are far apart) or interleaved; some (contest, id) pairs repeated (later wins)."""
    ncon = rng.randint(2, 4)
    contests = [f"{300 + j}" for j in range(ncon)]
    cand_sets = {c: [str(10 * (j + 1) + k) for k in range(rng.randint(2, 5))] for j, c in enumerate(contests)}
    rows = [[str(ncon)]] + [["Contest", c, str(len(cand_sets[c]))] + cand_sets[c] for c in contests]
    nrows = rng.randint(300, 1500)
    nids = rng.randint(max(60, nrows // (ncon + 1)), max(61, nrows // 2))
    ids = [f"{1 + j % 7}-{1 + j // 7}-{j}" for j in range(nids)]
    ballots = []
    for _ in range(nrows):
        c = rng.choice(contests)
        ballots.append([c, rng.choice(ids)] + rng.sample(cand_sets[c], rng.randint(0, len(cand_sets[c]))))
    if rng.random() < 0.7:
        ballots.sort(key=lambda r: r[0])          # stable: grouped by contest
    return ncon, rows + ballots, True


def raire_expected(skip, rows):
    """the property, computed directly: rank k for the k-th listed candidate, header lines skipped, a card's contests merged"""
    want = {}
    for c in rows[skip + 1:]:
        want.setdefault(c[1], {})[c[0]] = {cand: k + 1 for k, cand in enumerate(c[2:])}
    return want


def run_raire(skip, rows, phantom, wellformed, via_file):
    CVR = CVRc()
    case = {"skip": skip, "rows": rows, "phantom": phantom, "file": via_file, "wellformed": wellformed}
    try:
        if via_file:
            fd, path = tempfile.mkstemp(prefix="c18_", suffix=".raire", dir="/dev/shm")
            try:
                with os.fdopen(fd, "w") as fh:
                    csv.writer(fh, lineterminator="\n").writerows(rows)       # well-formed CSV (quotes where needed)
                cvrs, n_read, n_unique = CVR.from_raire_file(path)
            finally:
                os.unlink(path)
            case["out"] = ("ok", [snap(c) for c in cvrs], int(n_read), int(n_unique))
        else:
            cvrs, n_read = CVR.from_raire([list(r) for r in rows], phantom=phantom)
            case["out"] = ("ok", [snap(c) for c in cvrs], int(n_read))
            case["_objs"] = list(cvrs)
    except Exception as e:  # noqa
        case["out"] = ("err", exc_enum(e), type(e).__name__)
    return case


def oracle_raire(case):
    if not case["wellformed"]:
        return []
    o = case["out"]
    if o[0] == "err":
        return [f"from_raire raises {o[2]} on a well-formed RAIRE input"]
    want = raire_expected(case["skip"], case["rows"])
    got = o[1]
    bad = []
    if [r["id"] for r in got] != list(want):
        return ["from_raire: not one record per ballot id in first-appearance order (header lines skipped)"]
    for r in got:
        if r["votes"] != want[r["id"]]:
            bad.append("from_raire: the k-th listed candidate does not get rank k / a card's contests are not merged")
        if r["phantom"] is not (case["phantom"] if not case["file"] else False):
            bad.append("from_raire: phantom flag is not the one requested")
        if r["pool"] is not False or r["tally_pool"] is not None:
            bad.append("from_raire: pool / tally_pool are not the defaults")
    if case["file"] and o[3] != len(got):
        bad.append("from_raire_file: number of distinct identifiers is not the number of records returned")
    return bad


def raire_lit(case):
    tab = Table()
    rows = C.listlit([C.listlit([z(tab(x)) for x in r]) for r in case["rows"]])
    o = case["out"]
    if o[0] == "err":
        ol = f"(Err {o[1]})"
    elif case["file"]:
        ol = "(Ok (" + C.listlit([rec_lit(s, tab) for s in o[1]]) + f", {z(o[2])}, {z(o[3])}))"
    else:
        ol = "(Ok (" + C.listlit([rec_lit(s, tab) for s in o[1]]) + f", {z(o[2])}))"
    if case["file"]:
        return f"({C.natlit(case['skip'])}, {rows},\n    {ol})"
    return f"({C.natlit(case['skip'])}, {rows}, {C.blit(case['phantom'])},\n    {ol})"


def raire_json(case):
    return {"skip": case["skip"], "rows": case["rows"], "phantom": case["phantom"], "via_file": case["file"],
            "result": C.jsonable(case["out"])}


# ------------------------------------------------------------------ driver
def run(ctx, res):
    rng = ctx.rng
    stats = {}
    cases = []
    for j, specs in enumerate(flag_combinations()):
        passed = [intended(sp) for sp in specs]
        case, _ = call_merge([build(sp, rng if j % 2 else None) for sp in specs], 0, passed)
        cases.append(case)
    stats["flag_combinations"] = len(cases)
    cases += gen_merge_cases(rng, ctx.n(1400, 20000))
    cr = C.run_corr(ctx.pid, "merge", IMPORTS, "list rec * res (list rec)", cases, merge_lit, "agree_merge",
                    shard=-(-len(cases) // 16), show="show_merge")
    res.corr.append(("CVR.merge_cvrs vs Merge.merge_cvrs", cr, merge_json))
    res.evaluations += len(cases)
    for c in cases:
        res.oracle_runs += 1
        for what in dict.fromkeys(oracle_merge(c)):
            res.oracle_violations.append({"what": what, "input": merge_json(c), "signature": f"C18:{what}"})
        ids = [repr(r["id"]) for r in c["in"]]
        if len(set(ids)) < len(ids):
            res.nontrivial.add(repr(c["in"]))
    stats["merge_errors"] = sum(c["out"][0] == "err" for c in cases)
    stats["merge_no_votes_argument"] = "constructor default dict used for ~60% of records with empty votes"
    stats["merge_reused_objects"] = sum(c["step"] > 0 for c in cases)
    stats["merge_with_repeated_id"] = sum(len({repr(r["id"]) for r in c["in"]}) < len(c["in"]) for c in cases)
    stats["merge_nonbool_flags"] = sum(any(not isinstance(r["phantom"], bool) or not isinstance(r["pool"], bool)
                                           for r in c["in"]) for c in cases)
    stats["merge_contest_overwritten"] = sum(
        any(k in a["votes"] for i, a in enumerate(c["in"]) for b in c["in"][i + 1:] if idkey(b["id"]) == idkey(a["id"])
            for k in b["votes"]) for c in cases)

    rcases, fcases = [], []
    for j in range(ctx.n(500, 6000)):
        skip, rows, wf = gen_raire(rng, malformed=rng.random() < 0.25)
        if j % 3 == 0:          # the same content through both readers: file, then in memory
            fcases.append(run_raire(skip, rows, False, wf, True))
            rcases.append(run_raire(skip, rows, False, wf, False))
            a, b = fcases[-1]["out"], rcases[-1]["out"]
            if a[:3] != b[:3]:
                res.oracle_violations.append({"what": "from_raire_file and from_raire disagree on the same content",
                                              "input": raire_json(fcases[-1]), "observed": C.jsonable([a, b]),
                                              "signature": "C18:readers disagree"})
        else:
            rcases.append(run_raire(skip, rows, rng.random() < 0.3, wf, False))
    # objects returned by from_raire merged again with new records for the same cards (and the reader called again after)
    mix = []
    for c in [c for c in rcases if c.get("_objs")][:ctx.n(60, 600)]:
        objs = c["_objs"]
        ids = [o.id for o in objs][:3] + ["zz"]
        specs = [gen_spec(rng, ids, True, [None, None, "p1"]) for _ in range(rng.randint(1, 3))]
        passed = [intended(sp) for sp in specs]
        case, _ = call_merge(objs + [build(sp, rng) for sp in specs], 3, [None] * len(objs) + passed)
        mix.append(case)
        again = run_raire(c["skip"], c["rows"], c["phantom"], c["wellformed"], False)
        if again["out"] != c["out"]:
            res.oracle_violations.append({"what": "from_raire gives a different result when called again on the same rows",
                                          "input": raire_json(c), "observed": C.jsonable(again["out"]),
                                          "signature": "C18:from_raire not repeatable"})
    crm = C.run_corr(ctx.pid, "mix", IMPORTS, "list rec * res (list rec)", mix, merge_lit, "agree_merge",
                     shard=-(-max(len(mix), 1) // 4), show="show_merge")
    res.corr.append(("CVR.merge_cvrs on from_raire's objects plus new records vs Merge.merge_cvrs", crm, merge_json))
    res.evaluations += len(mix)
    for c in mix:
        res.oracle_runs += 1
        for what in dict.fromkeys(oracle_merge(c)):
            res.oracle_violations.append({"what": what, "input": merge_json(c), "signature": f"C18:{what}"})
    stats["merge_of_reader_objects"] = len(mix)
    cr2 = C.run_corr(ctx.pid, "raire", IMPORTS, "nat * list (list Z) * bool * res (list rec * Z)", rcases, raire_lit,
                     "agree_raire", shard=-(-len(rcases) // 8), show="show_raire")
    res.corr.append(("CVR.from_raire vs Merge.from_raire", cr2, raire_json))
    cr3 = C.run_corr(ctx.pid, "rfile", IMPORTS, "nat * list (list Z) * res (list rec * Z * Z)", fcases, raire_lit,
                     "agree_raire_file", shard=-(-len(fcases) // 8), show="show_raire_file")
    res.corr.append(("CVR.from_raire_file (csv file under /dev/shm) vs Merge.from_raire_file", cr3, raire_json))
    res.evaluations += len(rcases) + len(fcases)
    for c in rcases + fcases:
        res.oracle_runs += 1
        for what in dict.fromkeys(oracle_raire(c)):
            res.oracle_violations.append({"what": what, "input": raire_json(c), "signature": f"C18:{what}"})
        if len(c["rows"]) - c["skip"] - 1 >= 2:
            res.nontrivial.add(repr((c["skip"], c["rows"], c["phantom"], c["file"])))
    # RAIRE inputs with many rows and merge_cvrs on long lists: oracle on the implementation only, nothing sent to Coq
    big = []
    for j in range(ctx.n(10, 80)):
        skip, rows, wf = gen_raire_large(rng)
        big.append(run_raire(skip, rows, rng.random() < 0.3 and j % 2 == 1, wf, j % 2 == 0))
    for c in big:
        res.oracle_runs += 1
        res.evaluations += 1
        for what in dict.fromkeys(oracle_raire(c)):
            j = raire_json(c)
            j["n_rows"], j["rows"] = len(c["rows"]), j["rows"][:6] + ["..."]
            j["result"] = C.jsonable((c["out"][0], len(c["out"][1]) if c["out"][0] == "ok" else c["out"][1:],
                                      len(raire_expected(c["skip"], c["rows"]))))
            res.oracle_violations.append({"what": what + " (many rows)", "input": j, "signature": f"C18:{what}"})
        res.nontrivial.add(repr((len(c["rows"]), c["rows"][5:9])))
    for _ in range(ctx.n(4, 30)):
        ids = [f"k{j}" for j in range(rng.randint(100, 400))]
        specs = [gen_spec(rng, ids, True, [None, None, "p1"]) for _ in range(rng.randint(600, 1500))]
        case, _ = call_merge([build(sp, rng) for sp in specs], 0, [intended(sp) for sp in specs])
        res.oracle_runs += 1
        res.evaluations += 1
        for what in dict.fromkeys(oracle_merge(case)):
            res.oracle_violations.append({"what": what + " (long list)", "input": {"n_records": len(specs), "n_ids": len(ids)},
                                          "signature": f"C18:{what}"})
    stats["raire_many_rows_cases"] = len(big)
    stats["raire_many_rows_max"] = max(len(c["rows"]) for c in big)
    stats["raire_cases"] = len(rcases)
    stats["raire_file_cases"] = len(fcases)
    stats["raire_errors"] = sum(c["out"][0] == "err" for c in rcases + fcases)
    stats["raire_malformed_or_odd_skip"] = sum(not c["wellformed"] or c["skip"] != int(c["rows"][0][0]) for c in rcases + fcases)
    res.rule = ("ids / pool labels / flags also as np.int64 / np.bool_ / 0-1 ints; records with empty votes mostly built WITHOUT a votes "
                "argument (constructor default); every file case is also read in memory and the two results compared; from_raire's "
                "objects are merged again with new records and the reader is called again. "
                "the model and the oracle get the values PASSED to the constructor / CVR.from_dict (half each, default keys "
                "sometimes omitted), never values read back from a fresh object; merge_cvrs: every (phantom, pool, tally_pool in None/0/''/'p1'/'p2') combination for two records of one id and "
                "all tally-pool triples for three; generated lists of 1..7 real CVR objects over 1..3 ids (str/int/'' ids), votes over "
                "4 contests x 4 candidates incl. empty votes / empty contests / later record omitting candidates, bool flags (80%) or "
                "None/0/1/''/'x', tally pools incl. None, 0, '', '0', False, conflicting values; a quarter with two records sharing a votes / contest dict object; half of the lists are followed by a call on "
                "the merged output plus new records and a call on the original objects again. RAIRE: files written with csv.writer, a third of the inputs with contest / candidate / ballot identifiers that need CSV quoting (embedded commas, quotes, leading / trailing blanks); 1..3 contests, 0..8 ballot rows, "
                "repeated ballot ids, a contest repeated for one id, rows with no candidates, 25% malformed (short / empty row, repeated "
                "candidate, declared header count smaller / larger than the contest lines); one third through a csv file. ORACLE ONLY: RAIRE "
                "inputs of 300..1500 ballot rows grouped by contest (an id's contests far apart) or interleaved, half through a file, and "
                "merge_cvrs on 600..1500 records over 100..400 ids. "
                "Non-trivial = some identifier repeated (merge), at least two ballot rows (RAIRE); distinct inputs")
    res.samples = [merge_json(c) for c in cases[200:202]] + [merge_json(c) for c in cases[-2:]] + \
                  [raire_json(c) for c in rcases[:1]] + [raire_json(c) for c in fcases[:1]]
    res.stats = stats
    res.assumptions = ["Python dict / OrderedDict semantics (insertion order, {**a, **b}), `and`/`or` returning an operand and == "
                       "between None / bool / int / str are modelled (Merge.pv), not verified; csv.reader and file I/O trusted",
                       "one list never contains the same CVR object twice (aliasing inside one call is outside the model); "
                       "objects are reused across calls"]
    # regenerated tie: whole-function skeletons of merge_cvrs / from_raire / prep_manifest / sample_from_manifest and the
    # lemmas tying them to Merge.v / Manifest.v (coq/gen/GenProofs_merge_skeletons.v), re-checked against the current source
    genarith.regenerate(ctx.pid, "merge_skeletons", res)
