"""C17 — each sample number maps to exactly one card; manifests account for every card.

Correspondence: Dominion/Hart prep_manifest -> sample_from_manifest (real pandas frames, the returned frame reused for
several samples) and sample_from_cvrs, against coq/theories/Manifest.v.  Oracle: the property evaluated on the
implementation's outputs alone."""
import itertools
import warnings

import numpy as np
import pandas as pd

from . import common as C, genarith

ANCHORS = [("shangrla/formats/Dominion.py", ["Dominion.prep_manifest", "Dominion.sample_from_manifest",
                                              "Dominion.sample_from_cvrs"]),
           ("shangrla/formats/Hart.py", ["Hart.prep_manifest", "Hart.sample_from_manifest", "Hart.sample_from_cvrs"])]
IMPORTS = "From SV Require Import Run_Manifest.\nOpen Scope Z_scope."
STR_BASE = 10 ** 6
BAD = -777777            # a value the implementation produced that has no encoding: forces a disagreement


def impl():
    from shangrla.formats.Dominion import Dominion
    from shangrla.formats.Hart import Hart
    from shangrla.core.Audit import CVR
    return {"D": Dominion, "H": Hart}, CVR


def exc_enum(e):
    for t, n in ((AssertionError, "EAssert"), (IndexError, "EIndex"), (KeyError, "EKey"), (ValueError, "EValue"),
                 (AttributeError, "EAttr"), (TypeError, "EType")):
        if isinstance(e, t):
            return n
    return "EOther"


# ------------------------------------------------------------------ frames
DCOLS = {"cart": "VBMCart.Cart number", "tray": "Tray #", "tab": "Tabulator Number", "batch": "Batch Number",
         "size": "Total Ballots"}
HCOLS = {"cart": "Container", "tab": "Tabulator", "batch": "Batch Name", "size": "Number of Ballots"}


INDEX_KINDS = ["default", "default", "sorted", "filtered", "gapped", "string"]
LABEL_DTYPES = ["int64", "int64", "int32", "object", "str"]
SIZE_DTYPES = ["int64", "int64", "int32", "object"]
SAMPLE_KINDS = ["list", "ndarray", "tuple", "series", "npints"]


def gen_rep(rng):
    """a representation of a legal manifest / call: how the frame's index came about, column dtypes, column order,
    an unrelated extra column, the type of the bounds and of the sample container"""
    return {"index": rng.choice(INDEX_KINDS), "label_dtype": rng.choice(LABEL_DTYPES), "size_dtype": rng.choice(SIZE_DTYPES),
            "shuffle_cols": rng.random() < 0.5, "extra_col": rng.random() < 0.3, "col_seed": rng.randrange(10 ** 6),
            "np_bounds": rng.random() < 0.4, "sample_kind": rng.choice(SAMPLE_KINDS)}


def make_frame(vendor, rows, rng=None, rep=None):
    """rows: list of dict(cart, tray, tab, batch, size) with int entries, in manifest order.  A real pandas frame in the
    representation `rep`: index 0..n-1, or permuted (the frame was sorted), gapped (rows were filtered out), explicit
    gapped or string labels; label columns int64 / int32 / object / str, counts int64 / int32 / object."""
    import random as _r
    if rep is None:
        rep = gen_rep(rng) if rng is not None else {"index": "default"}
    cols = DCOLS if vendor == "D" else HCOLS
    names = list(cols.items())
    cr = _r.Random(rep.get("col_seed", 0))
    if rep.get("shuffle_cols"):
        cr.shuffle(names)
    n = len(rows)
    kind = rep.get("index", "default")
    d = {cn: [r[k] for r in rows] for k, cn in names}
    if rep.get("extra_col"):
        d["Comment"] = ["x"] * n
    if kind == "sorted":          # built in another order, then sorted into manifest order: index is a permutation
        perm = list(range(n))
        cr.shuffle(perm)
        d2 = {cn: [None] * n for cn in d}
        d2["_ord"] = [0] * n
        for pos, j in enumerate(perm):
            for cn in d:
                d2[cn][j] = d[cn][pos]
            d2["_ord"][j] = pos
        df = pd.DataFrame(d2).sort_values("_ord").drop(columns="_ord")
    elif kind == "filtered":      # rows of other elections filtered out: index has gaps
        keep, d2 = [], {cn: [] for cn in d}
        for pos in range(n):
            for _ in range(cr.randint(0, 2)):
                keep.append(False)
                for cn in d:
                    d2[cn].append(d[cn][pos])
            keep.append(True)
            for cn in d:
                d2[cn].append(d[cn][pos])
        df = pd.DataFrame(d2)
        df = df[pd.Series(keep)]
    else:
        df = pd.DataFrame(d)
        if kind == "gapped":
            df.index = sorted(cr.sample(range(1, 3 * n + 3), n))
        elif kind == "string":
            df.index = [f"r{cr.randint(0, 99)}_{j}" for j in range(n)]
    ld, sd = rep.get("label_dtype", "int64"), rep.get("size_dtype", "int64")
    for k, cn in cols.items():
        dt = sd if k == "size" else ld
        if dt != "int64":
            df[cn] = df[cn].astype(dt)
    return df


def as_sample(sample, kind):
    if kind == "ndarray" and len(sample):
        return np.array(sample, dtype=int)
    if kind == "tuple":
        return tuple(sample)
    if kind == "series":
        return pd.Series(list(sample), dtype="int64")
    if kind == "npints":
        return [np.int64(x) for x in sample]
    return list(sample)


def enc(x):
    """frame cell -> Z of the model: 'phantom' -> 0, missing (None/NaN/'None') -> -1, digit strings / ints -> the integer"""
    if x is None or (isinstance(x, float) and x != x):
        return -1           # missing value: None / NaN (pandas 3 renders astype(str) of None as a missing str)
    if isinstance(x, (int, np.integer)) and not isinstance(x, bool):
        return int(x)
    if isinstance(x, str):
        if x == "phantom":
            return 0
        if x in ("None", "nan"):
            return -1
        if x.isdigit():
            return int(x)
    return BAD


def parse_id(s):
    if not isinstance(s, str):
        return (BAD, BAD, BAD)
    p = s.split("-")
    if len(p) != 3:
        return (BAD, BAD, BAD)
    return tuple(enc(t) for t in p)


def frame_rows(vendor, m):
    cols = DCOLS if vendor == "D" else HCOLS
    out = []
    for j in range(len(m)):
        r = m.iloc[j]
        try:
            size = int(r[cols["size"]])
        except Exception:  # noqa
            size = BAD
        out.append({"cart": enc(r[cols["cart"]]), "tray": enc(r[cols["tray"]]) if vendor == "D" else 0,
                    "tab": enc(r[cols["tab"]]), "batch": enc(r[cols["batch"]]), "size": size})
    return out


def conv_sfm(vendor, out):
    cards, so, mv = out
    if vendor == "D":
        cs = [[enc(c[0]), enc(c[1]), enc(c[2]), enc(c[3]), int(c[4])] + list(parse_id(c[5])) + [int(c[6])]
              if len(c) == 7 else [BAD] for c in cards]
    else:
        cs = [[enc(c[0]), enc(c[1]), enc(c[2]), int(c[3])] + list(parse_id(c[4])) if len(c) == 5 else [BAD]
              for c in cards]
    sol = []
    for k, v in so.items():
        if isinstance(v, dict) and set(v) == {"selection_order", "serial"}:
            sol.append((parse_id(k), (int(v["selection_order"]), int(v["serial"]))))
        else:
            sol.append(((BAD, BAD, BAD), (BAD, BAD)))
    return ("ok", cs, sol, [parse_id(c.id) for c in mv]), {"mv_ok": all(c.phantom is True and c.votes == {} for c in mv)}


def prep_phase(vendor, rows, max_cards, n_cvrs, rng=None, rep=None, frame=None):
    """one prep_manifest call on a real frame (or on `frame`, an object that already went through the implementation)"""
    V = impl()[0][vendor]
    if vendor == "H":
        rows = [dict(r, tray=0) for r in rows]      # Hart manifests have no tray column
    if rep is None:
        rep = gen_rep(rng) if rng is not None else {"index": "default", "sample_kind": "list"}
    df = make_frame(vendor, rows, rng, rep) if frame is None else frame
    case = {"vendor": vendor, "rows": rows, "max": int(max_cards), "ncvrs": int(n_cvrs), "runs": [], "raw": [],
            "rep": dict(rep, index_labels=[str(x) for x in list(df.index)[:12]], reused_frame=frame is not None)}
    mx, nc = (np.int64(max_cards), np.int64(n_cvrs)) if rep.get("np_bounds") else (int(max_cards), int(n_cvrs))
    m2 = None
    try:
        with warnings.catch_warnings():
            warnings.simplefilter("ignore")
            m2, mc, ph = V.prep_manifest(df, mx, nc)
        case["prep"] = ("ok", frame_rows(vendor, m2), [int(v) for v in m2["cum_cards"]], int(mc), int(ph))
    except Exception as e:  # noqa
        case["prep"] = ("err", exc_enum(e), f"{type(e).__name__}: {e}"[:200])
    return case, df, m2


def sample_phase(case, m2, sample, kind=None):
    vendor = case["vendor"]
    V = impl()[0][vendor]
    arg = as_sample(sample, kind or case["rep"].get("sample_kind", "list"))
    try:
        out = V.sample_from_manifest(m2, arg)
    except Exception as e:  # noqa
        case["runs"].append((list(sample), ("err", exc_enum(e), f"{type(e).__name__}: {e}"[:200])))
        case["raw"].append(None)
        return
    o, raw = conv_sfm(vendor, out)
    case["runs"].append((list(sample), o))
    case["raw"].append(raw)


def run_manifest_group(specs, rng=None):
    """specs: (vendor, rows, max_cards, n_cvrs, samples, rep).  All manifests are prepared first, then their lookups are
    made alternately (round-robin) in this one process; each lookup must be what a fresh process would return."""
    prepared = [prep_phase(v, rows, mx, nc, rng, rep) + (samples,) for v, rows, mx, nc, samples, rep in specs]
    depth = max([len(p[3]) for p in prepared] + [0])
    for j in range(depth):
        for case, _, m2, samples in prepared:
            if m2 is not None and j < len(samples):
                kind = None if j == 0 or rng is None else rng.choice(SAMPLE_KINDS)
                sample_phase(case, m2, samples[j], kind)
    return [p[0] for p in prepared], prepared


def run_manifest(vendor, rows, max_cards, n_cvrs, samples, rng=None, as_array=False, rep=None):
    """prep_manifest, then sample_from_manifest on the RETURNED frame once per sample (the frame is reused)."""
    if rep is None and rng is None:
        rep = {"index": "default", "sample_kind": "ndarray" if as_array else "list"}
    return run_manifest_group([(vendor, rows, max_cards, n_cvrs, samples, rep)], rng)[0][0]


def reprep_cases(prepared_entry, rng):
    """the same manifest prepared again: (i) the caller's frame object a second time (prep_manifest may have written to
    it), (ii) the frame prep_manifest returned, prepared again with the same bound.  Dominion only: Hart's prepared
    frames carry their counts as strings, which Hart.prep_manifest itself cannot read (reported, not judged here)."""
    case, df, m2, samples = prepared_entry
    out = []
    if case["vendor"] != "D" or m2 is None:
        return out
    c2, _, m3 = prep_phase("D", case["rows"], case["max"], case["ncvrs"], rng, dict(case["rep"]), frame=df)
    if m3 is not None and samples:
        sample_phase(c2, m3, samples[0])
    out.append(c2)
    c3, _, m4 = prep_phase("D", case["prep"][1], case["max"], case["ncvrs"], rng, dict(case["rep"]), frame=m2)
    if m4 is not None and samples:
        sample_phase(c3, m4, samples[-1])
    out.append(c3)
    return out


# ------------------------------------------------------------------ literals
def z(n):
    n = int(n)
    return str(n) if n >= 0 else f"({n})"


def zl(xs):
    return C.listlit([z(x) for x in xs])


def row_lit(r):
    return f"(mkrow {z(r['cart'])} {z(r['tray'])} {z(r['tab'])} {z(r['batch'])} {z(r['size'])})"


def id_lit(t):
    return f"({z(t[0])}, {z(t[1])}, {z(t[2])})"


def sfm_lit(o):
    if o[0] == "err":
        return f"(Err {o[1]})"
    _, cs, sol, mvl = o
    return ("(Ok (" + C.listlit([zl(c) for c in cs]) + ", "
            + C.listlit([f"({id_lit(k)}, ({z(a)}, {z(b)}))" for k, (a, b) in sol]) + ", "
            + C.listlit([id_lit(t) for t in mvl]) + "))")


def man_lit(c):
    p = c["prep"]
    if p[0] == "err":
        pl = f"(Err {p[1]})"
    else:
        pl = f"(Ok ({C.listlit([row_lit(r) for r in p[1]])}, {zl(p[2])}, {z(p[3])}, {z(p[4])}))"
    runs = C.listlit([f"({zl(s)}, {sfm_lit(o)})" for s, o in c["runs"]])
    v = "Dominion" if c["vendor"] == "D" else "Hart"
    return (f"(mkman {v} {C.listlit([row_lit(r) for r in c['rows']])} {z(c['max'])} {z(c['ncvrs'])}\n    {pl}\n    {runs})")


def man_json(c):
    return {"vendor": c["vendor"], "sizes": [r["size"] for r in c["rows"]],
            "labels": [(r["tab"], r["batch"]) for r in c["rows"]], "max_cards": c["max"], "n_cvrs": c["ncvrs"],
            "representation": C.jsonable(c.get("rep")), "prep": C.jsonable(c["prep"]), "runs": C.jsonable([(s, o if o[0] == "err" else "ok") for s, o in c["runs"]][:3])}


# ------------------------------------------------------------------ generation
def mk_rows(sizes, rng=None, dup_labels=False):
    rows = []
    # numeric labels whose digit counts differ (1..12, 9..11, 99..101): string order != numeric order
    t0 = 1 if rng is None else rng.choice([1, 1, 9, 99])
    b0 = 10 if rng is None else rng.choice([10, 1, 9, 99, 998])
    for i, n in enumerate(sizes):
        tab = 1 + (i % 3) if rng is None else t0 + rng.randint(0, 3)
        rows.append({"cart": 200 + i, "tray": 100 + i, "tab": tab, "batch": b0 + i, "size": int(n)})
    if dup_labels and len(rows) >= 2:
        rows[-1]["tab"], rows[-1]["batch"] = rows[0]["tab"], rows[0]["batch"]
    return rows


def valid_range(vendor, total):
    return list(range(1, total + 1)) if vendor == "D" else list(range(0, total))


def samples_for(vendor, total, rng, extra=True):
    full = valid_range(vendor, total)
    out = [full, full[::-1]]
    if extra and total:
        sh = full[:]
        rng.shuffle(sh)
        out.append(sh)
        k = rng.randint(1, total)
        out.append(rng.sample(full, k))
    return out


def bound_variants(total, rng):
    """(max_cards, n_cvrs) pairs: no phantom / phantom needed; n_cvrs =, < total"""
    v = [(total, total), (total + rng.randint(1, 3), rng.randint(0, total))]
    return v


def refusal_variants(total, rng):
    v = [(total, total + rng.randint(1, 3)), (total + 2, total + 1)]
    if total > 0:
        v.append((total - rng.randint(1, total), rng.randint(0, total)))
    return v


def gen_sizes(rng):
    n = rng.choice([1, 1, 2, 3, 4, 5, 6, 8, 12])
    hi = rng.choice([2, 5, 12, 40])
    sizes = [rng.randint(1, hi) for _ in range(n)]
    mode = rng.random()
    if mode < 0.6:                         # empty batches at the start / middle / end / consecutive
        for pos in rng.sample(["start", "mid", "end", "run", "rand"], rng.randint(1, 3)):
            if pos == "start":
                sizes[0] = 0
            elif pos == "end":
                sizes[-1] = 0
            elif pos == "mid" and n >= 3:
                sizes[n // 2] = 0
            elif pos == "run" and n >= 2:
                a = rng.randint(0, n - 2)
                sizes[a] = sizes[a + 1] = 0
            elif pos == "rand":
                sizes[rng.randrange(n)] = 0
    return sizes


def exhaustive_sizes(maxb=4, maxs=3):
    for n in range(1, maxb + 1):
        for t in itertools.product(range(maxs + 1), repeat=n):
            yield list(t)


# ------------------------------------------------------------------ oracle (implementation alone)
def oracle_manifest(case):
    """The property on one prep_manifest result and the lookups made on it.  Returns a list of short descriptions."""
    vendor, rows, mx, nc = case["vendor"], case["rows"], case["max"], case["ncvrs"]
    total = sum(r["size"] for r in rows)
    must_refuse = total > mx or total < nc
    p = case["prep"]
    if must_refuse:
        return [] if p[0] == "err" else ["prep_manifest accepts a manifest larger than the bound or smaller than the number of CVRs"]
    if p[0] == "err":
        return [f"prep_manifest raises {p[2].split(':')[0]} on a manifest within the bound"
                + (" when a phantom batch is needed" if total < mx else "")]
    bad = []
    _, prows, cum, mc, ph = p
    if mc != total:
        bad.append("manifest_cards is not the number of cards in the manifest")
    if ph != mx - total:
        bad.append("phantoms is not max_cards - manifest_cards")
    if sum(r["size"] for r in prows) != mx:
        bad.append("prepared manifest does not account for exactly max_cards cards")
    if [(r["tab"], r["batch"], r["size"], r["cart"]) for r in prows[:len(rows)]] != \
            [(r["tab"], r["batch"], r["size"], r["cart"]) for r in rows]:
        bad.append("prep_manifest changed the original batches")
    extra = prows[len(rows):]
    if (total < mx and (len(extra) != 1 or extra[0]["tab"] != 0 or extra[0]["size"] != mx - total)) or \
            (total == mx and extra):
        bad.append("phantom batch missing, misplaced or of the wrong size")
    run = 0
    for r, cv in zip(prows, cum):
        run += r["size"]
        if cv != run:
            bad.append("cum_cards is not the running total")
            break
    if bad:
        return bad
    sizes = [r["size"] for r in prows]
    starts = [0] + cum[:-1]
    labels = [(r["tab"], r["batch"]) for r in prows]
    distinct_labels = len(set(labels)) == len(labels)
    lo = 1 if vendor == "D" else 0
    for (sample, o), raw in zip(case["runs"], case["raw"]):
        valid = all(lo <= s < lo + mx for s in sample)
        if not valid:
            continue
        if o[0] == "err":
            bad.append(f"sample_from_manifest raises {o[2].split(':')[0]} on valid sample numbers")
            continue
        _, cs, sol, mvl = o
        if len(cs) != len(sample):
            bad.append("number of cards differs from the number of sample numbers")
            continue
        if not distinct_labels or len(set(sample)) != len(sample):
            continue   # identifiers collide by construction: the id-keyed clauses are not meaningful
        so = dict(sol)
        if len(so) != len(sample):
            bad.append("two sample numbers mapped to one card (identifiers collide)")
            continue
        by_serial = {v[1] - 1: k for k, v in so.items()}
        card_by_id = {}
        for c in cs:
            cid = tuple(c[5:8]) if vendor == "D" else tuple(c[4:7])
            card_by_id[cid] = c
        seen = set()
        phantom_ids = []
        for i, s in enumerate(sample):
            cid = by_serial.get(s)
            if cid is None or cid not in card_by_id:
                bad.append("a sample number has no card / no sample_order entry with serial s+1")
                break
            if so[cid][0] != i:
                bad.append("selection_order is not the position of the number in the sample")
                break
            c = card_by_id[cid]
            k = c[4] if vendor == "D" else c[3]
            tab, batch = (c[2], c[3]) if vendor == "D" else (c[1], c[2])
            if (tab, batch, k) != cid or (tab, batch) not in labels:
                bad.append("card identifier does not match the card's batch and position")
                break
            b = labels.index((tab, batch))
            if sizes[b] == 0:
                bad.append("an empty batch was selected")
                break
            if not (lo <= k < lo + sizes[b]):
                bad.append("position in batch outside the batch's size")
                break
            if starts[b] + k != s:
                bad.append("cards before the batch + position in batch is not the sample number")
                break
            if c[0] != prows[b]["cart"] or (vendor == "D" and (c[1] != prows[b]["tray"] or c[8] != s)):
                bad.append("card carries another batch's container / tray / number")
                break
            if (b, k) in seen:
                bad.append("two sample numbers mapped to one card")
                break
            seen.add((b, k))
            if (total < mx and b == len(prows) - 1) or rows[min(b, len(rows) - 1)]["tab"] == 0 and b < len(rows):
                phantom_ids.append(cid)   # the appended phantom batch, or one the given manifest already carried
        else:
            if mvl != phantom_ids:
                bad.append("phantom manual records are not exactly the sampled cards of the phantom batch, in selection order")
            if raw and not raw["mv_ok"]:
                bad.append("a phantom manual record is not flagged phantom or carries votes")
            if vendor == "D" and [c[8] for c in cs] != sorted(sample):
                bad.append("Dominion card list is not in sample-number order")
    return bad


# ------------------------------------------------------------------ manifests of real size (oracle only)
def gen_large(rng):
    """a manifest of 2e5 .. 1.5e6 cards in 100..400 batches over >= 10 tabulators, some batches empty; the card bound is
    the total, or above it by a tiny (1, 7, 50) or a large amount; or a refusal.  Lookups are spot-checked at batch
    boundaries (first / last card of several batches, first / last phantom, first / last number)."""
    nb = rng.randint(100, 400)
    target = rng.choice([200_000, 500_000, 1_000_000, 1_500_000])
    mean = target // nb
    sizes = [rng.randint(mean // 2, mean * 3 // 2) for _ in range(nb)]
    for j in rng.sample(range(nb), rng.randint(0, 6)) + [0, nb - 1][:rng.randint(0, 2)]:
        sizes[j] = 0
    t0, b0 = rng.choice([1, 9, 99]), rng.choice([1, 9, 99, 998])
    ntab = rng.randint(10, 14)
    rows = [{"cart": 5000 + i, "tray": 7000 + i, "tab": t0 + (i % ntab), "batch": b0 + i, "size": n}
            for i, n in enumerate(sizes)]
    total = sum(sizes)
    short = rng.choice([0, 1, 1, 7, 7, 50, 50, rng.randint(10_000, 200_000)])
    kind = rng.choice(["ok"] * 8 + ["over", "cvrs"])
    if kind == "over":
        mx, nc = total - rng.choice([1, 7, 50]), total - 100
    elif kind == "cvrs":
        mx, nc = total + short, total + rng.choice([1, 7, 50])
    else:
        mx, nc = total + short, total - rng.choice([0, 0, 1, 1000])
    return rows, mx, nc


def boundary_sample(vendor, sizes_with_phantom, rng, nbatches=14):
    lo = 1 if vendor == "D" else 0
    starts, run = [], 0
    for n in sizes_with_phantom:
        starts.append(run)
        run += n
    total = run
    if total == 0:
        return []
    nonempty = [b for b, n in enumerate(sizes_with_phantom) if n > 0]
    chosen = set(rng.sample(nonempty, min(nbatches, len(nonempty))) + nonempty[:2] + nonempty[-2:])
    nums = {lo, lo + total - 1}
    for b in chosen:
        first, last = lo + starts[b], lo + starts[b] + sizes_with_phantom[b] - 1
        nums.update([first, last, min(last, first + 1), rng.randint(first, last)])
    nums = list(nums)
    rng.shuffle(nums)
    return nums


def huge_manifest_cases(rng, n):
    """batch counts so large that cumulative totals lie around 2**53 .. 2**62 (beyond exact float64 integers), a few tiny
    and empty batches between them; lookups at batch boundaries and at neighbouring numbers n, n+1 beyond 2**53.
    Counts are int64 or Python ints (object); the oracle works in exact integers and is size-independent."""
    cases = []
    for _ in range(n):
        vendor = rng.choice("DH")
        nb = rng.randint(3, 12)
        top = rng.choice([2 ** 54, 2 ** 57, 2 ** 60, 2 ** 61])
        sizes = []
        for j in range(nb):
            r = rng.random()
            sizes.append(0 if r < 0.15 else rng.randint(1, 3) if r < 0.35 else rng.randint(top // (4 * nb), top // nb) | 1)
        if max(sizes) < 2 ** 50:
            sizes[rng.randrange(nb)] = top // 2 + 1
        total = sum(sizes)
        mx = total + rng.choice([0, 1, 1, 7, 50, 2 ** 53 + 1, rng.randint(2 ** 40, 2 ** 58)])
        rows = [{"cart": 5000 + i, "tray": 7000 + i, "tab": 1 + i % 4, "batch": 9 + i, "size": sz} for i, sz in enumerate(sizes)]
        lo = 1 if vendor == "D" else 0
        allsizes = sizes + ([mx - total] if mx > total else [])
        s1 = boundary_sample(vendor, allsizes, rng, 8)
        near = [x for x in (2 ** 53 - 1, 2 ** 53, 2 ** 53 + 1, 2 ** 53 + 2, 2 ** 53 + 3, mx + lo - 1, mx + lo - 2, mx + lo - 3)
                if lo <= x < lo + mx]
        x0 = rng.randint(min(2 ** 53, mx // 2), max(mx - 4, min(2 ** 53, mx // 2))) | 1
        near += [x for x in (x0, x0 + 1, x0 + 2) if lo <= x < lo + mx]
        near = list(dict.fromkeys(near))
        rng.shuffle(near)
        rep = gen_rep(rng)
        rep["size_dtype"] = rng.choice(["int64", "object"])
        rep["sample_kind"] = rng.choice(["list", "list", "tuple", "ndarray", "npints"])
        cases.append(run_manifest(vendor, rows, mx, rng.choice([total, total - 1]), [s1, near], rng, rep=rep))
    return cases


def large_manifest_cases(rng, n):
    cases = []
    for _ in range(n):
        vendor = rng.choice("DH")
        rows, mx, nc = gen_large(rng)
        total = sum(r["size"] for r in rows)
        sizes = [r["size"] for r in rows] + ([mx - total] if mx > total else [])
        samples = [boundary_sample(vendor, sizes, rng), boundary_sample(vendor, sizes, rng, 4)] if mx >= total else []
        cases.append(run_manifest(vendor, rows, mx, nc, samples, rng, as_array=rng.random() < 0.5))
    return cases


# ------------------------------------------------------------------ sample_from_cvrs
def run_cvrs(vendor, rows, max_cards, spec, sample, rng):
    """spec: list of (kind, batch_index_or_None, num, cib) describing the CVR list; kind in real|phantom|orphan"""
    Vs, CVR = impl()
    V = Vs[vendor]
    df = make_frame(vendor, rows, rng)
    with warnings.catch_warnings():
        warnings.simplefilter("ignore")
        m2, _, _ = V.prep_manifest(df, max_cards, 0)
    cols = DCOLS if vendor == "D" else HCOLS
    prow = [{k: m2.iloc[j][cn] for k, cn in cols.items()} for j in range(len(m2))]
    cvrs, parts = [], []
    for kind, b, num, cib in spec:
        if kind == "phantom":
            cid = f"phantom-1-{num}"
            cvrs.append(CVR(id=cid, votes={}, phantom=True, card_in_batch=cib))
            parts.append(("phantom", "1", str(num)))
        else:
            tab = str(rows[b]["tab"]) if kind == "real" else "77"
            batch = str(rows[b]["batch"]) if kind == "real" else "999"
            if vendor == "D":
                cid = f"{tab}-{batch}-{num}"
                parts.append((tab, batch, str(num)))
            else:
                cid = f"{batch}_{num}"
                parts.append(("", batch, str(num)))
            cvrs.append(CVR(id=cid, votes={"c": {"a": 1}}, phantom=False, card_in_batch=cib))
    universe = {""}
    for r in prow:
        for k in ("cart", "tray", "tab", "batch"):
            if k in r:
                universe.add(str(r[k]))
    for c, p in zip(cvrs, parts):
        universe.add(c.id)
        universe.update(p)
    table = {s: STR_BASE + i for i, s in enumerate(sorted(universe))}

    def e(x):
        if isinstance(x, str):
            return table.get(x, BAD)
        if x is None:
            return -STR_BASE - 1
        if isinstance(x, (int, np.integer)) and not isinstance(x, bool):
            return int(x)
        return BAD

    mrows = [{"cart": e(str(r["cart"])), "tray": e(str(r["tray"])) if vendor == "D" else 0, "tab": e(str(r["tab"])),
              "batch": e(str(r["batch"])), "size": int(r["size"])} for r in prow]
    mcvrs = [{"id": e(c.id), "tab": e(p[0]), "batch": e(p[1]), "num": e(p[2]), "cib": e(c.card_in_batch),
              "phantom": bool(c.phantom)} for c, p in zip(cvrs, parts)]
    case = {"vendor": vendor, "rows": mrows, "cvrs": mcvrs, "sample": list(sample),
            "ids": [c.id for c in cvrs], "phantom": [bool(c.phantom) for c in cvrs]}
    arg = np.array(sample, dtype=int) if (rng.random() < 0.5 and len(sample)) else list(sample)
    try:
        cards, so, cs, mv = V.sample_from_cvrs(cvrs, m2, arg)
    except Exception as ex:  # noqa
        case["out"] = ("err", exc_enum(ex), f"{type(ex).__name__}: {ex}"[:200])
        return case
    pos = {id(c): j for j, c in enumerate(cvrs)}
    sol = []
    for k, v in so.items():
        if isinstance(v, dict) and set(v) == {"selection_order", "serial"}:
            sol.append((e(k), (int(v["selection_order"]), int(v["serial"]))))
        else:
            sol.append((BAD, (BAD, BAD)))
    case["out"] = ("ok", [[e(x) for x in c] for c in cards], sol,
                   [(pos.get(id(c), BAD), e(c.id)) for c in cs], [e(c.id) for c in mv])
    real_tabs = {}
    for r in rows:
        real_tabs.setdefault(str(r["batch"]), set()).add(str(r["tab"]))
    case["real_tabs"] = real_tabs
    case["raw_cards"] = [[str(x) for x in c] for c in cards]
    case["raw"] = {"card_ids": [c[5] if vendor == "D" else c[-1] for c in cards], "so": {k: dict(v) for k, v in so.items()},
                   "cs_pos": [pos.get(id(c)) for c in cs], "mv": [(c.id, c.phantom, c.votes) for c in mv]}
    return case


def oracle_cvrs(case):
    sample, ids, ph = case["sample"], case["ids"], case["phantom"]
    o = case["out"]
    if o[0] == "err":
        return []        # errors for CVRs without a manifest batch / bad indices are outside the property
    raw = case["raw"]
    bad = []
    if raw["cs_pos"] != list(sample):
        bad.append("sample_from_cvrs does not return the sampled CVRs in selection order")
    if len(set(ids[s] for s in sample)) == len(sample):
        want = {ids[s]: {"selection_order": i, "serial": s + 1} for i, s in enumerate(sample)}
        if raw["so"] != want:
            bad.append("sample_from_cvrs: sample_order does not record identifier -> (selection order, serial)")
        if sorted(raw["card_ids"]) != sorted(ids[s] for s in sample):
            bad.append("sample_from_cvrs: card identifiers do not match the sampled CVRs")
    if case["vendor"] == "H":
        # card lookup: a real card (row [tabulator, batch, number, id]) is located on the tabulator of a REAL manifest
        # batch of that name, never on the batch appended for phantoms (whichever real row wins among equal names)
        for c in case.get("raw_cards", []):
            if len(c) == 4 and c[1] in case["real_tabs"] and c[0] not in case["real_tabs"][c[1]]:
                bad.append("Hart.sample_from_cvrs: a real card is reported on a tabulator that no real manifest batch of its name has")
                break
    if [(i, p, v) for i, p, v in raw["mv"]] != [(ids[s], True, {}) for s in sample if ph[s]]:
        bad.append("sample_from_cvrs: phantom manual records are not exactly the sampled phantom CVRs")
    return bad


def cvr_lit(c):
    rows = C.listlit([row_lit(r) for r in c["rows"]])
    cv = C.listlit([f"(mkcvr {z(v['id'])} {z(v['tab'])} {z(v['batch'])} {z(v['num'])} {z(v['cib'])} {C.blit(v['phantom'])})"
                    for v in c["cvrs"]])
    o = c["out"]
    if o[0] == "err":
        ol = f"(Err {o[1]})"
    else:
        _, cards, sol, cs, mv = o
        ol = ("(Ok (" + C.listlit([zl(x) for x in cards]) + ", "
              + C.listlit([f"({z(k)}, ({z(a)}, {z(b)}))" for k, (a, b) in sol]) + ", "
              + C.listlit([f"({z(a)}, {z(b)})" for a, b in cs]) + ", " + zl(mv) + "))")
    v = "Dominion" if c["vendor"] == "D" else "Hart"
    return f"(mkcc {v} {rows} {cv} {zl(c['sample'])}\n    {ol})"


def cvr_json(c):
    return {"vendor": c["vendor"], "ids": c["ids"], "phantom": c["phantom"], "sample": c["sample"],
            "out": C.jsonable(c["out"] if c["out"][0] == "err" else "ok"),
            "raw": C.jsonable(c.get("raw"))}


def gen_cvr_case(vendor, rng, kind):
    sizes = [s for s in gen_sizes(rng)]
    sizes = [min(s, 6) for s in sizes]
    if sum(sizes) == 0:
        sizes[0] = 2
    rows = mk_rows(sizes, rng)
    total = sum(sizes)
    n_ph = rng.choice([0, 0, 1, 2, 4])
    spec = []
    for b, n in enumerate(sizes):
        for k in range(n):
            if rng.random() < 0.8:
                spec.append(("real", b, k + 1, rng.choice([k + 1, k + 1, 50 + k, None])))
    for k in range(n_ph):
        spec.append(("phantom", None, k + 1, rng.choice([None, k + 1])))
    if kind == "orphan":
        spec.insert(rng.randint(0, len(spec)), ("orphan", None, 3, 3))
    if rng.random() < 0.4:
        rng.shuffle(spec)
    if not spec:
        spec = [("real", next(b for b, n in enumerate(sizes) if n), 1, 1)]
    n = len(spec)
    mode = rng.choice(["all", "desc", "shuffle", "subset", "subset"])
    full = list(range(n))
    if mode == "desc":
        sample = full[::-1]
    elif mode == "shuffle":
        sample = full[:]
        rng.shuffle(sample)
    elif mode == "subset":
        sample = rng.sample(full, rng.randint(0, n))
    else:
        sample = full
    if kind == "badindex":
        sample = sample[: rng.randint(0, len(sample))] + [n + rng.randint(0, 2)] + sample[:1]
    if kind == "dup" and sample:
        sample = sample + [sample[0]]
    return run_cvrs(vendor, rows, total + n_ph, spec, sample, rng)


# ------------------------------------------------------------------ driver
def spread(cases, k):
    """deal the cases round-robin into k consecutive groups so that the large ones do not share a shard"""
    return [c for j in range(k) for c in cases[j::k]]


def run(ctx, res):
    rng = ctx.rng
    cases = []
    stats = {"exhaustive_manifests": 0, "random_manifests": 0, "refusals": 0, "phantom_batch": 0, "empty_batches": 0,
             "dup_labels": 0, "invalid_number": 0, "lookups": 0}
    # (a) every manifest with <= 4 batches of size <= 3, both vendors, with and without a phantom batch
    for sizes in exhaustive_sizes():
        total = sum(sizes)
        for vendor in ("D", "H"):
            for mx, nc in bound_variants(total, rng):
                cases.append(run_manifest(vendor, mk_rows(sizes), mx, nc, samples_for(vendor, mx, rng, extra=False), rng))
                stats["exhaustive_manifests"] += 1
    # (b) refusals on a subset, (c) larger generated manifests, whole range in several orders, numpy / list samples
    for _ in range(ctx.n(60, 600)):
        sizes = gen_sizes(rng)
        vendor = rng.choice("DH")
        mx, nc = rng.choice(refusal_variants(sum(sizes), rng))
        cases.append(run_manifest(vendor, mk_rows(sizes, rng), mx, nc, [valid_range(vendor, max(mx, 0))[:5]], rng))
    todo = ctx.n(90, 1500)
    stats["interleaved_groups"] = stats["reprepared"] = 0
    while todo > 0:
        specs = []
        for _ in range(min(todo, rng.choice([1, 2, 2, 3]))):
            sizes = gen_sizes(rng)
            total = sum(sizes)
            vendor = rng.choice("DH")
            mx, nc = rng.choice(bound_variants(total, rng) + [(total + rng.randint(1, 30), total)])
            dup = rng.random() < 0.08
            samples = samples_for(vendor, mx, rng)
            if rng.random() < 0.15:             # one number beyond the range: IndexError in both vendors
                samples.append([mx + (1 if vendor == "D" else 0) + rng.randint(0, 2)])
                stats["invalid_number"] += 1
            if rng.random() < 0.15 and mx:      # a repeated number
                s0 = rng.choice(valid_range(vendor, mx))
                samples.append([s0, rng.choice(valid_range(vendor, mx)), s0])
            specs.append((vendor, mk_rows(sizes, rng, dup_labels=dup), mx, nc, samples, None))
            stats["random_manifests"] += 1
            stats["dup_labels"] += dup
        todo -= len(specs)
        group, prepared = run_manifest_group(specs, rng)     # lookups on the group's manifests alternate
        cases += group
        stats["interleaved_groups"] += len(specs) > 1
        for entry in prepared:
            if rng.random() < 0.3:
                extra = reprep_cases(entry, rng)             # same frame again / the returned frame prepared again
                cases += extra
                stats["reprepared"] += len(extra)
    cases = spread(cases, 16)
    cr = C.run_corr(ctx.pid, "man", IMPORTS, "man_case", cases, man_lit, "agree_man", shard=-(-len(cases) // 16), show="show_man")
    res.corr.append(("Dominion/Hart prep_manifest + sample_from_manifest vs Manifest.prep_manifest/sample_from_manifest",
                     cr, man_json))
    res.evaluations += len(cases)
    for c in cases:
        res.oracle_runs += 1
        total = sum(r["size"] for r in c["rows"])
        stats["refusals"] += c["prep"][0] == "err"
        stats["phantom_batch"] += c["prep"][0] == "ok" and c["prep"][4] > 0
        stats["empty_batches"] += any(r["size"] == 0 for r in c["rows"])
        stats["lookups"] += sum(len(s) for s, _ in c["runs"])
        for what in dict.fromkeys(oracle_manifest(c)):
            v = "Dominion" if c["vendor"] == "D" else "Hart"
            res.oracle_violations.append({"what": f"{v}: {what}", "input": man_json(c), "signature": f"C17:{v}:{what}"})
        if len(c["rows"]) >= 2 or total < c["max"] or any(r["size"] == 0 for r in c["rows"]):
            res.nontrivial.add(repr((c["vendor"], [r["size"] for r in c["rows"]], c["max"], c["ncvrs"])))

    # (e) manifests of real size: oracle on the implementation only (size-independent), nothing sent to Coq
    large = large_manifest_cases(rng, ctx.n(14, 120))
    huge = huge_manifest_cases(rng, ctx.n(8, 60))     # cumulative totals around 2**53 .. 2**62
    stats["huge_manifests"] = len(huge)
    large += huge
    res.evaluations += len(large)
    stats["large_manifests"] = len(large)
    stats["large_cards_max"] = max(sum(r["size"] for r in c["rows"]) for c in large)
    stats["large_tiny_shortfall"] = sum(0 < c["max"] - sum(r["size"] for r in c["rows"]) <= 50 for c in large)
    for c in large:
        res.oracle_runs += 1
        for what in dict.fromkeys(oracle_manifest(c)):
            v = "Dominion" if c["vendor"] == "D" else "Hart"
            j = man_json(c)
            j["sizes"], j["labels"] = j["sizes"][:8] + ["..."], j["labels"][:8] + ["..."]
            j["n_batches"], j["manifest_cards"] = len(c["rows"]), sum(r["size"] for r in c["rows"])
            j["prep"] = C.jsonable(c["prep"] if c["prep"][0] == "err" else ("ok", "...", c["prep"][2][-2:], c["prep"][3], c["prep"][4]))
            res.oracle_violations.append({"what": f"{v}: {what}", "input": j, "signature": f"C17:{v}:{what}"})
        res.nontrivial.add(repr((c["vendor"], len(c["rows"]), c["max"], c["ncvrs"])))

    ccases = []
    for _ in range(ctx.n(260, 4000)):
        kind = rng.choice(["plain"] * 7 + ["orphan", "badindex", "dup"])
        ccases.append(gen_cvr_case(rng.choice("DH"), rng, kind))
    cr2 = C.run_corr(ctx.pid, "sfc", IMPORTS, "cvr_case", ccases, cvr_lit, "agree_sfc", shard=120, show="show_sfc")
    res.corr.append(("Dominion/Hart sample_from_cvrs vs Manifest.sample_from_cvrs", cr2, cvr_json))
    res.evaluations += len(ccases)
    stats["from_cvrs_cases"] = len(ccases)
    stats["from_cvrs_errors"] = sum(c["out"][0] == "err" for c in ccases)
    stats["from_cvrs_with_phantoms"] = sum(any(c["phantom"][s] for s in c["sample"] if 0 <= s < len(c["phantom"]))
                                           for c in ccases)
    for c in ccases:
        res.oracle_runs += 1
        for what in dict.fromkeys(oracle_cvrs(c)):
            v = "Dominion" if c["vendor"] == "D" else "Hart"
            res.oracle_violations.append({"what": f"{v}: {what}", "input": cvr_json(c), "signature": f"C17:{v}:{what}"})
        if len(c["sample"]) >= 2:
            res.nontrivial.add(repr((c["vendor"], c["ids"], c["sample"])))
    res.exhaustive = True
    res.rule = ("every frame in a generated REPRESENTATION (index 0..n-1 / permuted by a sort / gapped by a filter / explicit gapped or string "
                "labels; label columns int64/int32/object/str, counts int64/int32/object; column order; extra column; bounds int or "
                "np.int64; samples list/ndarray/tuple/Series/np.int64 list); manifests of one group are prepared first and their lookups "
                "alternate in one process; 30% are prepared again (same frame object; the returned frame; Dominion). (a) EVERY manifest with 1..4 batches of size 0..3 x both vendors x {bound = total, bound > total (phantom batch)}, "
                "every valid sample number ascending and descending on the frame returned by prep_manifest; (b) refusals "
                "(bound < total, n_cvrs > total); (c) generated manifests of 1..12 batches, sizes 0..40 with empty batches at the "
                "start/middle/end/consecutive, whole valid range ascending, descending, shuffled, a random subset, list and numpy "
                "samples, occasionally a number beyond the range, a repeated number, colliding batch labels; (d) sample_from_cvrs "
                "on CVR lists matching the manifest (some without a batch, phantoms, bad indices, repeats); (e) ORACLE ONLY: manifests "
                "of 2e5..1.5e6 cards in 100..400 batches over 10+ tabulators with numeric labels of differing digit counts, bound = total / "
                "total+1,7,50 / total+1e4..2e5 / refusals, lookups spot-checked at batch boundaries incl. first/last phantom; and manifests whose "
                "cumulative totals lie around 2**53..2**62 (int64 / Python-int counts) with neighbouring numbers n, n+1 beyond 2**53. Non-trivial = at least "
                "two batches or an empty batch or a phantom batch (manifests), at least two sampled CVRs (from_cvrs); distinct inputs")
    res.samples = [man_json(c) for c in cases[5:7]] + [man_json(c) for c in cases[-2:]] + [cvr_json(c) for c in ccases[:2]]
    for key in ("index", "label_dtype", "size_dtype", "sample_kind"):
        h = {}
        for c in cases:
            v = c.get("rep", {}).get(key)
            h[v] = h.get(v, 0) + 1
        stats["rep_" + key] = h
    res.stats = stats
    res.assumptions = ["pandas (cumsum, iloc, concat, astype(str), itertuples) and np.searchsorted are modelled, not verified: "
                       "searchsorted = first index with a[i] >= v (left) / > v (right) on a sorted list",
                       "identifiers are mapped to numbers by the harness (digit strings to their value, 'phantom' to 0, "
                       "order-preserving string table for sample_from_cvrs); id splitting on '-' / '_' is done by the harness"]
    # regenerated tie: whole-function skeletons of merge_cvrs / from_raire / prep_manifest / sample_from_manifest and the
    # lemmas tying them to Merge.v / Manifest.v (coq/gen/GenProofs_merge_skeletons.v), re-checked against the current source
    genarith.regenerate(ctx.pid, "merge_skeletons", res)
