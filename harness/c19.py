"""C19 — Dominion JSON import reflects counted marks, adjudication and grouping faithfully.

Correspondence: generated exports written under /dev/shm, read by the REAL Dominion.read_cvrs / read_cvrs_directory,
compared inside Coq with DominionCvr.read_cvrs_directory (ids, tally_pool, pool, votes, order).
Oracle (implementation alone, straight from the property text): one record per included session in file order with
id / tally pool / pooled flag recomputed from the export; per contest the smallest positive counted rank; invariance of
the result under permutation of marks and under swapping the Original/Modified key order; Modified replaces Original."""
import json
import random
import subprocess
import sys
import zlib
import os
import re
import shutil
import tempfile

from . import common as C, genarith

IMPORTS = "From SV Require Import Run_DominionCvr.\nOpen Scope Z_scope."
ANCHORS = [("shangrla/formats/Dominion.py", ["Dominion.read_cvrs", "Dominion.read_cvrs_directory"])]


# identifiers: the model works on numbers.  A JSON id whose str() is a plain decimal numeral is that number; any other
# string ("007", " 7", "T7", unicode digits ...) gets a number derived from the string itself (same in every process).
RAW = {}


def code(v):
    t = str(v)
    if re.fullmatch(r"0|[1-9][0-9]*", t):
        return int(t)
    k = 10000 + zlib.crc32(t.encode("utf-8")) % 1000000
    assert RAW.setdefault(k, t) == t
    return k


def raw_of(k):
    return RAW.get(k, k)


WEIRD = ["007", " 7", "7 ", "07", "T7", "\u0667", "\u00e97", "7.0", "1e1", "0x7", "7_0", "Seven"]


def DOM():
    from shangrla.formats.Dominion import Dominion
    return Dominion


# ------------------------------------------------------------------ generation
def gen_marks(rng, malformed=False):
    """list of (cand, rank, isvote) with duplicates for a candidate, IsVote mixes, both counted/uncounted orders"""
    style = rng.choice(["plain", "dups", "dups", "dups", "zeros", "empty", "uncounted_only", "many"])
    if style == "empty":
        return []
    cands = rng.sample([1, 2, 3, 4, 5, 17, 102, 0], rng.randint(1, 4))
    marks = []
    for cd in cands:
        k = 1 if style == "plain" else rng.choice([1, 2, 2, 3, 4]) if style != "many" else rng.randint(3, 6)
        for _ in range(k):
            r = rng.choice([1, 1, 2, 2, 3, 3, 4, 5, 7, 10, 0]) if style != "zeros" else rng.choice([0, 0, 0, 1, 3])
            if malformed and rng.random() < 0.3:
                r = -rng.randint(1, 3)
            iv = rng.random() < (0.0 if style == "uncounted_only" else 0.65)
            marks.append((cd, r, iv))
    # explicit orderings of interest: counted low rank before an uncounted lower rank and the reverse
    if style == "dups" and cands and rng.random() < 0.5:
        cd = cands[0]
        pair = [(cd, 3, True), (cd, 1, False)]
        if rng.random() < 0.5:
            pair.reverse()
        marks += pair
    mode = rng.choice(["shuffle", "shuffle", "asc", "desc", "asis"])
    if mode == "shuffle":
        rng.shuffle(marks)
    elif mode == "asc":
        marks.sort(key=lambda m: (m[0], m[1]))
    elif mode == "desc":
        marks.sort(key=lambda m: (m[0], -m[1]))
    return marks


def gen_contests(rng, ids, malformed=False):
    out = []
    for i in ids:
        marks = gen_marks(rng, malformed)
        if rng.random() < 0.04:                 # candidate ids that are strings, some not plain numerals
            ren = {}
            marks = [(ren.setdefault(c, code(rng.choice(WEIRD)) if rng.random() < 0.5 else c), r, iv) for (c, r, iv) in marks]
            if len(set(ren.values())) < len(ren):
                marks = [(c, r, iv) for (c, r, iv) in marks]          # two candidates fell on one id: still a legal export
        out.append({"id": i, "marks": marks})
    return out


def gen_body(rng, ids, layout, malformed=False, dup_contest=False):
    ids = list(ids)
    if dup_contest and ids and rng.random() < 0.5:
        ids.append(rng.choice(ids))          # the same contest id twice in one body (later one wins)
    rng.shuffle(ids)
    b = {"layout": layout, "cards": [], "flat": []}
    if layout == "flat":
        b["flat"] = gen_contests(rng, ids, malformed)
    else:
        ncards = rng.choice([1, 1, 2, 3]) if ids else rng.choice([0, 1])
        cuts = sorted(rng.randint(0, len(ids)) for _ in range(ncards - 1)) if ncards > 0 else []
        parts, prev = [], 0
        for cpos in cuts + [len(ids)]:
            parts.append(ids[prev:cpos])
            prev = cpos
        if ncards == 0:
            parts = []
        b["cards"] = [gen_contests(rng, p, malformed) for p in parts]
        if layout == "both":
            b["flat"] = gen_contests(rng, rng.sample([1, 2, 3, 7], rng.randint(0, 2)), malformed)
    return b


def edit_marks(rng, marks):
    """a copy of the marks with one or two small edits: IsVote flipped, a rank changed, a mark dropped, added or moved"""
    ms = list(marks)
    for _ in range(rng.choice([1, 1, 2])):
        k = rng.choice(["flip", "flip", "rank", "drop", "add", "move", "same"])
        if k == "flip" and ms:
            j = rng.randrange(len(ms))
            ms[j] = (ms[j][0], ms[j][1], not ms[j][2])
        elif k == "rank" and ms:
            j = rng.randrange(len(ms))
            ms[j] = (ms[j][0], rng.choice([0, 1, 2, 3, 4]), ms[j][2])
        elif k == "drop" and ms:
            ms.pop(rng.randrange(len(ms)))
        elif k == "add":
            ms.insert(rng.randint(0, len(ms)), (rng.choice([m[0] for m in ms] or [1]), rng.choice([1, 2, 3]), rng.random() < 0.6))
        elif k == "move" and len(ms) > 1:
            ms.insert(rng.randrange(len(ms)), ms.pop(rng.randrange(len(ms))))
    return ms


def near_copy(rng, s0):
    """another card with (almost) the same selections as an earlier one in the file"""
    s = json.loads(json.dumps(s0))
    for k in ("Original", "Modified"):
        if s[k] is not None:
            for lst in s[k]["cards"] + [s[k]["flat"]]:
                for cn in lst:
                    cn["marks"] = [tuple(m) for m in cn["marks"]]
                    if rng.random() < 0.6:
                        cn["marks"] = edit_marks(rng, cn["marks"])
    if s["rec"] is not None and s["rec"] < 10000:
        s["rec"] += rng.randint(1, 3)
    s["group"] = rng.choice([s["group"], s["group"], 1, 2, 3])
    return s


MASKS_OK = ["D:\\NAS\\GENERAL\\Results\\Tabulator{t:02d}\\Batch{b:03d}\\Images\\{t:05d}_{b:05d}_{n:06d}*.*",
            "{t:05d}_{b:05d}_{n}.tif", "x\\99999_00000_{n:03d}_2.png", "img_{t:05d}_{b:05d}_{n:06d} and 00001_00002_000999"]
MASKS_NO = ["", "D:\\Images\\0001_0002_000013.tif", "no digits here", "12345-12345-77"]


def gen_session(rng, layout, malformed=False):
    s = {"group": rng.choice([1, 1, 2, 2, 3, 4]), "tab": rng.choice([1, 2, 3, 10, 105, 0]),
         "batch": rng.choice([1, 2, 5, 17, 230, 0])}
    s["tab_str"] = rng.random() < 0.1
    if rng.random() < 0.06:                     # tabulator / batch identifiers with leading zeros, spaces, letters, unicode
        s["tab"] = code(rng.choice(WEIRD))
    if rng.random() < 0.06:
        s["batch"] = code(rng.choice(WEIRD))
    kind = rng.choice(["num", "num", "num", "x_ok", "x_ok", "x_no"])
    s["rec"] = rng.choice([1, 2, 13, 119, 4000, 0]) if kind == "num" else None
    if kind == "num" and rng.random() < 0.06:
        s["rec"] = code(rng.choice(["0013", "13 ", " 13", "x", "XX", "13a"]))
    s["rec_str"] = kind == "num" and rng.random() < 0.1
    if kind == "x_ok" or (kind == "num" and rng.random() < 0.6):
        n = rng.choice([1, 7, 13, 119, 250, 99999, 0])
        s["mask_num"] = n
        s["mask"] = rng.choice(MASKS_OK).format(t=s["tab"] % 100000, b=s["batch"] % 100000, n=n)
    elif kind == "x_no" or rng.random() < 0.5:
        s["mask_num"] = None
        s["mask"] = rng.choice(MASKS_NO)
    else:
        s["mask_num"] = None
        s["mask"] = None                     # key absent (only when RecordId is a number)
    pool = [1, 2, 3, 4, 5]
    oids = rng.sample(pool, rng.choice([0, 1, 2, 2, 3, 4]))
    shape = rng.choice(["orig", "orig", "both", "both", "both", "mod_only", "none"]) if not malformed else "both"
    lay = (lambda: layout if layout != "mixed" else rng.choice(["flat", "cards", "both"]))
    s["Original"] = gen_body(rng, oids, lay(), malformed, dup_contest=malformed) if shape in ("orig", "both") else None
    if shape in ("both", "mod_only"):
        # Modified covers only some of the original contests, sometimes a new one
        mids = [i for i in oids if rng.random() < 0.5]
        if rng.random() < 0.25:
            mids += [i for i in rng.sample(pool, 1) if i not in mids]
        if shape == "mod_only" and not mids:
            mids = rng.sample(pool, 1)
        s["Modified"] = gen_body(rng, mids, lay(), malformed, dup_contest=malformed)
        if s["Original"] is not None and rng.random() < 0.5:
            # adjudication as it really happens: the Modified contest is the Original one with a small edit
            orig = {cn["id"]: cn for lst in s["Original"]["cards"] + [s["Original"]["flat"]] for cn in lst}
            for lst in s["Modified"]["cards"] + [s["Modified"]["flat"]]:
                for cn in lst:
                    if cn["id"] in orig:
                        cn["marks"] = edit_marks(rng, orig[cn["id"]]["marks"])
    else:
        s["Modified"] = None
    s["mod_first"] = rng.random() < 0.5
    if rng.random() < 0.5:                 # any combination of the two blocks' IsCurrent flags, or none
        s["iscur"] = {k: rng.choice([True, False, None]) for k in ("Original", "Modified")}
    return s


def body_json(rep_, b, is_current):
    fl = bool(rep_ and rep_.get("float_ranks"))

    def con(cn):
        return {"Id": raw_of(cn["id"]), "ManifestationId": 1000 + cn["id"], "Undervotes": 0, "Overvotes": 0, "OutstackConditionIds": [],
                "Marks": [{"CandidateId": raw_of(c), "ManifestationId": 5000 + c, "PartyId": 1, "Rank": (float(r) if fl and r >= 0 else r),
                           "MarkDensity": 80, "IsAmbiguous": False, "IsVote": iv, "OutstackConditionIds": []} for (c, r, iv) in cn["marks"]]}
    d = {"PrecinctPortionId": 23, "BallotTypeId": 3}
    if is_current is not None:             # the block's own IsCurrent flag: true, false or absent — read_cvrs does not consult it
        d["IsCurrent"] = is_current
    if b["layout"] in ("cards", "both"):
        d["Cards"] = [{"Id": 100 + i, "KeyInId": 100 + i, "PaperIndex": i, "Contests": [con(c) for c in cd], "OutstackConditionIds": []}
                      for i, cd in enumerate(b["cards"])]
    if b["layout"] in ("flat", "both"):
        d["Contests"] = [con(c) for c in b["flat"]]
    return d


def reshape(x, r):
    """the same JSON value with the keys of every object in another order and unknown keys added at every level"""
    if isinstance(x, list):
        return [reshape(v, r) for v in x]
    if not isinstance(x, dict):
        return x
    items = [(k, reshape(v, r)) for k, v in x.items()]
    if r.random() < 0.5:
        items.append((r.choice(["Extra", "zzUnknown", "_meta", "Contest", "Mark", "original", "Sessions2"]),
                      r.choice([None, 0, "x", [], {"Original": 1}, [{"Marks": []}]])))
    r.shuffle(items)
    ks = [k for k, _ in items]
    if "Original" in ks and "Modified" in ks:          # the relative order of these two is part of the case: keep it
        i, j = ks.index("Original"), ks.index("Modified")
        want_mod_first = list(x.keys()).index("Modified") < list(x.keys()).index("Original")
        if (j < i) != want_mod_first:
            items[i], items[j] = items[j], items[i]
    return dict(items)


def session_json(s, mod_first=None, rep_=None):
    mod_first = s["mod_first"] if mod_first is None else mod_first
    tab, rec = raw_of(s["tab"]), (None if s["rec"] is None else raw_of(s["rec"]))
    d = {"TabulatorId": str(tab) if s["tab_str"] else tab, "BatchId": raw_of(s["batch"]),
         "RecordId": ("X" if rec is None else (str(rec) if s["rec_str"] else rec)),
         "CountingGroupId": s["group"]}
    if s["mask"] is not None:
        d["ImageMask"] = s["mask"]
    d["SessionType"] = "ScannedVote"
    keys = ["Modified", "Original"] if mod_first else ["Original", "Modified"]
    for i, k in enumerate(keys):
        if s[k] is not None:
            d[k] = body_json(rep_, s[k], is_current=s.get("iscur", {}).get(k, k == "Modified" or s["Modified"] is None))
        if i == 0:
            d["VotingSessionIdentifier"] = ""
    if rep_ and rep_.get("reshape") is not None:
        d = reshape(d, random.Random(rep_["reshape"] + len(d.get("ImageMask") or "")))
    return d


GROUP_SETS = [[], [], [1], [2], [1, 2], [3], [2, 4], [9], [1, 2, 3, 4], [2, 3]]
COLLS = ["list", "tuple", "set", "frozenset", "range", "ndarray", "np_ints", "none_if_empty"]


def gen_case(rng, i, quick):
    malformed = rng.random() < 0.08
    layout = rng.choice(["flat", "cards", "cards", "mixed", "both"])
    mode = rng.choice(["file", "file", "dir"])
    nfiles = 1 if mode == "file" else rng.choice([1, 2, 3])
    files = []
    for _ in range(nfiles):
        ns = rng.choice([0, 1, 1, 2, 2, 3, 4, 5, 6]) if rng.random() < 0.9 else rng.randint(0, 6)
        ss = []
        for _ in range(ns):
            ss.append(near_copy(rng, rng.choice(ss)) if ss and rng.random() < 0.3 else gen_session(rng, layout, malformed))
        files.append(ss)
    # all 4 x include x pool settings are cycled deterministically so every combination occurs
    o = {"use_current": bool(i & 1), "enforce_rules": bool(i & 2), "include_groups": list(GROUP_SETS[(i >> 2) % len(GROUP_SETS)]),
         "pool_groups": list(rng.choice(GROUP_SETS))}
    o["defaults"] = rng.random() < 0.08     # call with defaults only (use_current=True, enforce=True, [], [])
    if o["defaults"]:
        o.update(use_current=True, enforce_rules=True, include_groups=[], pool_groups=[])
    o["coll"] = rng.choice(COLLS)
    o["twice"] = (not o["defaults"]) and rng.random() < 0.15
    rep_ = {"float_ranks": rng.random() < 0.1, "reshape": rng.randrange(10 ** 6) if rng.random() < 0.35 else None}
    names = rng.sample(["CvrExport_0.json", "CvrExport_1.json", "CvrExport_10.json", "CvrExport_2.json", "CvrExport_A.json",
                        "CvrExport_b.json"], nfiles)
    return {"opts": o, "files": files, "mode": mode, "names": sorted(names), "malformed": malformed, "layout": layout,
            "write_order": rng.sample(range(nfiles), nfiles), "rep": rep_}


def exhaustive_cases():
    """every sequence of <= 3 marks for one candidate over rank in {0,1,2} x IsVote (258 sequences), each followed by one
    mark of a second candidate, 24 contests per session, read with and without rule enforcement"""
    import itertools
    alpha = [(r, iv) for r in (0, 1, 2) for iv in (True, False)]
    seqs = [q for n in (1, 2, 3) for q in itertools.product(alpha, repeat=n)]
    out = []
    for start in range(0, len(seqs), 24):
        contests = [{"id": i + 1, "marks": [(5, r, iv) for (r, iv) in q] + [(6, 1, True)]} for i, q in enumerate(seqs[start:start + 24])]
        s = {"group": 1, "tab": 1, "tab_str": False, "batch": 1, "rec": start, "rec_str": False, "mask": None, "mask_num": None,
             "Original": {"layout": "flat", "cards": [], "flat": contests}, "Modified": None, "mod_first": False}
        for enf in (True, False):
            o = {"use_current": True, "enforce_rules": enf, "include_groups": [], "pool_groups": [], "defaults": False, "coll": "list"}
            out.append({"opts": o, "files": [[s]], "mode": "file", "names": ["CvrExport_0.json"], "malformed": False,
                        "layout": "exhaustive-marks", "write_order": [0]})
    return out


# ------------------------------------------------------------------ running the implementation
ID_RE = re.compile(r"(\d+)-(\d+)-(\d+|X)")
POOL_RE = re.compile(r"(\d+)-(\d+)")


def canon_record(r):
    """CVR object -> ((tab,batch,rec|None), (tab,batch), pool, {cid:{cand:rank}}); anything malformed -> sentinel values"""
    import numpy as np
    parts = r.id.split("-", 2) if isinstance(r.id, str) else []
    rid = (code(parts[0]), code(parts[1]), None if parts[2] == "X" else code(parts[2])) if len(parts) == 3 else (-1, -1, -1)
    parts = r.tally_pool.split("-") if isinstance(r.tally_pool, str) else []
    tp = (code(parts[0]), code(parts[1])) if len(parts) == 2 else (-1, -1)
    pool = bool(r.pool) if isinstance(r.pool, (bool, np.bool_)) else None
    votes = {}
    ok = isinstance(r.votes, dict)
    if ok:
        for k, d in r.votes.items():
            if not (isinstance(k, str) and isinstance(d, dict)):
                ok = False
                break
            cv = {}
            for c, v in d.items():
                if not (isinstance(c, str) and isinstance(v, (int, float)) and not isinstance(v, bool) and v == int(v)):
                    ok = False
                    break
                cv[code(c)] = int(v)             # 1.0 recorded for a rank written as 1.0 is the same value
            votes[code(k)] = cv
    if not ok:
        votes = {-999: {}}
    return {"id": rid, "tally_pool": tp, "pool": pool, "votes": votes,
            "phantom": bool(getattr(r, "phantom", False)), "raw_id": r.id}


def coll(o, key):
    """the option in one of the representations a caller may legitimately use (Collection / enumerable of group ids)"""
    import numpy as np
    v, kind = list(o[key]), o["coll"]
    if kind == "tuple":
        return tuple(v)
    if kind == "set":
        return set(v)
    if kind == "frozenset":
        return frozenset(v)
    if kind == "range" and v and v == list(range(v[0], v[-1] + 1)):
        return range(v[0], v[-1] + 1)
    if kind == "ndarray" and (key == "pool_groups" or len(v) == 1):
        return np.array(v, dtype=np.int64)       # as include_groups only with one element: `if array:` is an error otherwise
    if kind == "np_ints":
        return [np.int64(g) for g in v]
    if kind == "none_if_empty" and not v and key == "include_groups":
        return None
    return v


def same_coll(a, b):
    return type(a) is type(b) and (a is None or list(a) == list(b))


def run_impl(files_json, names, mode, o, root, write_order=None):
    """write the export(s) and read them with the real code; returns list of canonical records or {'exc': ..}"""
    d = tempfile.mkdtemp(prefix="c19_", dir=root)
    try:
        pairs = list(zip(names, files_json))
        for i in (write_order or range(len(pairs))):       # creation order != name order: sorted() must do the work
            nm, fj = pairs[i]
            with open(os.path.join(d, nm), "w") as fh:
                json.dump({"Version": "5.10.50.85", "ElectionId": "verif", "Sessions": fj}, fh)
        if mode == "dir":     # files that must NOT be picked up
            with open(os.path.join(d, "Other_1.json"), "w") as fh:
                json.dump({"Sessions": [{"nonsense": 1}]}, fh)
        D = DOM()
        inc, pool = coll(o, "include_groups"), coll(o, "pool_groups")
        try:
            if o["defaults"]:
                recs = D.read_cvrs_directory(d) if mode == "dir" else D.read_cvrs(os.path.join(d, names[0]))
            elif mode == "dir":
                recs = D.read_cvrs_directory(d, use_current=o["use_current"], enforce_rules=o["enforce_rules"],
                                             include_groups=inc, pool_groups=pool)
            else:
                recs = D.read_cvrs(os.path.join(d, names[0]), o["use_current"], o["enforce_rules"], inc, pool)
            first = [canon_record(r) for r in recs]
            if o.get("twice"):          # same export read again with the same option objects: the result must be the same,
                for r in recs:          # whatever the caller did to the first result in between
                    r.votes.clear()
                    r.votes["junk"] = {"1": 99}
                    r.id, r.tally_pool, r.pool = "zz", "zz", not r.pool
                del recs[:]
                again = D.read_cvrs_directory(d, o["use_current"], o["enforce_rules"], inc, pool) if mode == "dir" else \
                    D.read_cvrs(os.path.join(d, names[0]), o["use_current"], o["enforce_rules"], inc, pool)
                second = [canon_record(r) for r in again]
                if not same_coll(inc, coll(o, "include_groups")) or not same_coll(pool, coll(o, "pool_groups")):
                    return {"exc": "option collections were modified by the call"}
                return second if second == first else {"exc": "second read of the same export differs from the first"}
            return first
        except Exception as e:  # noqa
            return {"exc": f"{type(e).__name__}: {e}"}
    finally:
        shutil.rmtree(d, ignore_errors=True)


def files_to_json(files, flip=False, perm_rng=None, rep_=None):
    out = []
    for f in files:
        fj = []
        for s in f:
            s2 = s
            if perm_rng is not None:
                s2 = json.loads(json.dumps(s))
                for k in ("Original", "Modified"):
                    if s2[k] is not None:
                        for lst in s2[k]["cards"] + [s2[k]["flat"]]:
                            for cn in lst:
                                perm_rng.shuffle(cn["marks"])
            fj.append(session_json(s2, mod_first=(not s["mod_first"]) if flip else None, rep_=rep_))
        out.append(fj)
    return out


# ------------------------------------------------------------------ Coq literals
def body_lit(b):
    def con(cn):
        return "(mkContest %s %s)" % (C.zlit(cn["id"]), C.listlit(
            ["(mkMark %s %s %s)" % (C.zlit(c), C.zlit(r), C.blit(iv)) for (c, r, iv) in cn["marks"]]))
    cards = C.listlit([C.listlit([con(c) for c in cd]) for cd in b["cards"]])
    flat = C.listlit([con(c) for c in b["flat"]])
    return {"flat": f"(Flat {flat})", "cards": f"(Cards {cards})", "both": f"(CardsAndFlat {cards} {flat})"}[b["layout"]]


def session_lit(s):
    keys = ["Modified", "Original"] if s["mod_first"] else ["Original", "Modified"]
    data = []
    for i, k in enumerate(keys):
        if s[k] is not None:
            data.append("(K%s, %s)" % (k, body_lit(s[k])))
        if i == 0:
            data.append("(KOther, Flat [])")
    return "(mkSession %s %s %s %s %s %s)" % (C.zlit(s["group"]), C.zlit(s["tab"]), C.zlit(s["batch"]),
                                              C.optlit(s["rec"], C.zlit), C.optlit(s["mask_num"], C.zlit), C.listlit(data))


def rec_lit(r):
    t, b, n = r["id"]
    votes = C.listlit(["(%s, %s)" % (C.zlit(k), C.listlit(["(%s, %s)" % (C.zlit(c), C.zlit(v)) for c, v in sorted(d.items())]))
                       for k, d in sorted(r["votes"].items())])
    return "(mkCvr (%s, %s, %s) (%s, %s) %s %s)" % (C.zlit(t), C.zlit(b), C.optlit(n, C.zlit), C.zlit(r["tally_pool"][0]),
                                                    C.zlit(r["tally_pool"][1]), C.blit(r["pool"]), votes)


def case_lit(c):
    o = c["opts"]
    ol = "(mkOpts %s %s %s %s)" % (C.blit(o["use_current"]), C.blit(o["enforce_rules"]),
                                   C.listlit([C.zlit(g) for g in o["include_groups"]]), C.listlit([C.zlit(g) for g in o["pool_groups"]]))
    files = C.listlit([C.listlit([session_lit(s) for s in f]) for f in c["files"]])
    return "(mkDomCase %s %s %s)" % (ol, files, C.listlit([rec_lit(r) for r in c["impl"]]))


def case_json(c):
    return {"opts": c["opts"], "mode": c["mode"], "names": c["names"], "export_files": files_to_json(c["files"], rep_=c.get("rep")),
            "implementation": c.get("impl_raw")}


SENTINEL = [{"id": (-7, -7, -7), "tally_pool": (-7, -7), "pool": False, "votes": {}, "phantom": False, "raw_id": "<exception>"}]


# ------------------------------------------------------------------ oracle (the property, independent of the Coq model)
def effective_contests(s, use_current):
    """contest id -> marks in effect, by the property text: adjudicated data replace original data for the contests they
    cover when current data are requested.  None for a contest whose id is repeated inside one block (not specified)."""
    def block(b):
        if b is None:
            return {}
        lst = [cn for cd in b["cards"] for cn in cd] if b["layout"] in ("cards", "both") else b["flat"]
        res, seen = {}, set()
        for cn in lst:
            res[cn["id"]] = None if cn["id"] in seen else cn["marks"]
            seen.add(cn["id"])
        return res
    eff = dict(block(s["Original"]))
    if use_current:
        eff.update(block(s["Modified"]))
    return eff


def oracle_case(c):
    """returns list of (what, detail)"""
    o, impl = c["opts"], c["impl_raw"]
    bad = []
    if isinstance(impl, dict):
        if impl["exc"].startswith(("second read", "option collections")):
            return [("reading the same export twice gives different results / alters the option collections", impl["exc"])]
        return [("read_cvrs raises on a well-formed export", impl["exc"])]
    sessions = [s for f in c["files"] for s in f]
    inc = [s for s in sessions if not o["include_groups"] or s["group"] in o["include_groups"]]
    if len(impl) != len(inc):
        return [("number of records differs from number of sessions of the included counting groups",
                 f"{len(impl)} records for {len(inc)} included sessions")]
    for s, r in zip(inc, impl):
        rec = s["rec"] if s["rec"] is not None else s["mask_num"]
        if r["id"] != (s["tab"], s["batch"], rec):
            bad.append(("record id is not tabulator-batch-record (file order)", f"{r['raw_id']} for {(s['tab'], s['batch'], rec)}"))
        if r["tally_pool"] != (s["tab"], s["batch"]):
            bad.append(("tally pool is not tabulator-batch", f"{r['tally_pool']} for {(s['tab'], s['batch'])}"))
        if r["pool"] is not (s["group"] in o["pool_groups"]):
            bad.append(("pooled flag differs from membership of the counting group in pool_groups", f"{r['pool']} group {s['group']}"))
        if r["phantom"]:
            bad.append(("imported record marked phantom", r["raw_id"]))
        eff = effective_contests(s, o["use_current"])
        if set(r["votes"].keys()) != set(eff.keys()):
            bad.append(("contests recorded differ from the contests in the data in effect", f"{sorted(r['votes'])} vs {sorted(eff)}"))
            continue
        for cid, marks in eff.items():
            if marks is None:
                continue
            got = r["votes"][cid]
            counted = [(cd, rk) for (cd, rk, iv) in marks if iv or not o["enforce_rules"]]
            if any(rk < 0 for _, rk in counted):
                continue                                   # negative ranks: outside the property
            cands = {cd for cd, _ in counted}
            if set(got.keys()) != cands:
                src = "adjudicated" if (o["use_current"] and s["Modified"] is not None and cid in effective_contests(
                    {"Original": None, "Modified": s["Modified"]}, True)) else "original"
                bad.append((f"candidates with a recorded value differ from the candidates with a counted mark ({src} data in effect)",
                            f"contest {cid}: {sorted(got)} vs {sorted(cands)}"))
                continue
            for cd in cands:
                pos = [rk for c2, rk in counted if c2 == cd and rk > 0]
                if pos and got[cd] != min(pos):
                    src = "adjudicated" if (o["use_current"] and s["Modified"] is not None and cid in effective_contests(
                        {"Original": None, "Modified": s["Modified"]}, True)) else "original"
                    bad.append((f"recorded value is not the smallest positive rank among the counted marks ({src} data in effect)",
                                f"contest {cid} cand {cd}: {got[cd]} vs {min(pos)} marks {marks}"))
    return bad


def strip(impl):
    return impl if isinstance(impl, dict) else [{k: r[k] for k in ("id", "tally_pool", "pool", "votes")} for r in impl]


def probe_representations(root):
    """recorded, not judged: how the code treats option values outside the checked set (see the report)"""
    import numpy as np
    s = {"group": 2, "tab": 1, "tab_str": False, "batch": 1, "rec": 1, "rec_str": False, "mask": None, "mask_num": None,
         "Original": {"layout": "flat", "cards": [], "flat": [{"id": 1, "marks": [(5, 1, True)]}]}, "Modified": None, "mod_first": False}
    out = {}
    for name, kw in (("include_groups=np.array([1,2])", {"include_groups": np.array([1, 2])}),
                     ("include_groups=np.array([])", {"include_groups": np.array([])}), ("pool_groups=None", {"pool_groups": None})):
        d = tempfile.mkdtemp(prefix="c19p_", dir=root)
        try:
            pth = os.path.join(d, "CvrExport_0.json")
            with open(pth, "w") as fh:
                json.dump({"Sessions": [session_json(s)]}, fh)
            try:
                out["probe " + name] = "%d record(s)" % len(DOM().read_cvrs(pth, **kw))
            except Exception as e:  # noqa
                out["probe " + name] = f"raises {type(e).__name__}"
        finally:
            shutil.rmtree(d, ignore_errors=True)
    return out


if __name__ == "__main__":          # fresh-process helper: read the jobs, print the canonical results as one JSON line
    sys.path.insert(0, C.REPO)
    jobs_ = json.load(open(sys.argv[1]))
    root_ = "/dev/shm" if os.path.isdir("/dev/shm") else None
    print(json.dumps([json.loads(json.dumps(strip(run_impl(j["files_json"], j["names"], j["mode"], j["opts"], root_, j["write_order"])),
                                            default=str)) for j in jobs_]))
    sys.exit(0)


# ------------------------------------------------------------------ entry point
def run(ctx, res):
    rng = ctx.rng
    n = ctx.n(900, 9000)
    root = "/dev/shm" if os.path.isdir("/dev/shm") else None
    cases = []
    stats = {"sessions": 0, "records": 0, "mod_first_both": 0, "orig_first_both": 0, "obfuscated": 0, "dup_cand_contests": 0,
             "layouts": {}, "opts": {}, "exceptions": 0, "metamorphic_runs": 0}
    pre = exhaustive_cases()
    ring = []
    for i in range(-len(pre), n):
        c = pre[i + len(pre)] if i < 0 else gen_case(rng, i, ctx.quick)
        o = c["opts"]
        impl = run_impl(files_to_json(c["files"], rep_=c.get("rep")), c["names"], c["mode"], o, root, c["write_order"])
        c["impl_raw"] = impl
        c["impl"] = SENTINEL if isinstance(impl, dict) else impl
        cases.append(c)
        stats["layouts"][c["layout"]] = stats["layouts"].get(c["layout"], 0) + 1
        ok = f"cur={int(o['use_current'])} enf={int(o['enforce_rules'])} inc={int(bool(o['include_groups']))} pool={int(bool(o['pool_groups']))}"
        stats["opts"][ok] = stats["opts"].get(ok, 0) + 1
        if isinstance(impl, dict):
            stats["exceptions"] += 1
        else:
            stats["records"] += len(impl)
        nontriv = False
        for f in c["files"]:
            for s in f:
                stats["sessions"] += 1
                if s["Original"] is not None and s["Modified"] is not None:
                    stats["mod_first_both" if s["mod_first"] else "orig_first_both"] += 1
                    nontriv = True
                if s["rec"] is None:
                    stats["obfuscated"] += 1
                for k in ("Original", "Modified"):
                    if s[k] is not None:
                        for lst in s[k]["cards"] + [s[k]["flat"]]:
                            for cn in lst:
                                cs = [m[0] for m in cn["marks"]]
                                if len(cs) != len(set(cs)):
                                    stats["dup_cand_contests"] += 1
                                    nontriv = True
        if nontriv:
            res.nontrivial.add(json.dumps([c["opts"], files_to_json(c["files"], rep_=c.get("rep"))], sort_keys=True, default=str))
        # ---- an export read earlier is read again after other exports / directories went through both entry points
        if ring and rng.random() < 0.12:
            c0 = rng.choice(ring)
            stats["revisits"] = stats.get("revisits", 0) + 1
            res.oracle_runs += 1
            again = run_impl(files_to_json(c0["files"], rep_=c0.get("rep")), c0["names"], c0["mode"], c0["opts"], root, c0["write_order"])
            if strip(again) != strip(c0["impl_raw"]):
                res.oracle_violations.append({"what": "the same export gives a different result when read again after other exports",
                                              "input": case_json(c0), "observed": {"second_result": C.jsonable(strip(again))},
                                              "signature": "C19:revisit"})
        if not c["malformed"] and not isinstance(impl, dict):
            ring = (ring + [c])[-6:]
        # ---- oracle: the property on the implementation's output
        if not c["malformed"]:
            res.oracle_runs += 1
            for what, detail in oracle_case(c)[:3]:
                res.oracle_violations.append({"what": what, "input": case_json(c), "observed": detail, "signature": "C19:" + what})
            # ---- metamorphic: permuting marks / swapping the key order must not change anything
            if i % 2 == 0 and not isinstance(impl, dict):
                stats["metamorphic_runs"] += 2
                res.oracle_runs += 2
                alt = run_impl(files_to_json(c["files"], perm_rng=rng, rep_=c.get("rep")), c["names"], c["mode"], o, root, c["write_order"])
                if strip(alt) != strip(impl):
                    res.oracle_violations.append({"what": "result changes when the marks of a contest are permuted", "input": case_json(c),
                                                  "observed": {"permuted_result": C.jsonable(strip(alt))}, "signature": "C19:mark-order"})
                alt = run_impl(files_to_json(c["files"], flip=True, rep_=c.get("rep")), c["names"], c["mode"], o, root, c["write_order"])
                if strip(alt) != strip(impl):
                    res.oracle_violations.append({"what": "result changes when Original/Modified appear in the other key order",
                                                  "input": case_json(c), "observed": {"flipped_result": C.jsonable(strip(alt))},
                                                  "signature": "C19:key-order"})
    # ---- a sample of the cases re-read in a FRESH process (reverse order): in-process history must not matter
    pick = [c for c in cases if not isinstance(c["impl_raw"], dict) and not c["opts"].get("twice")]
    pick = rng.sample(pick, min(len(pick), ctx.n(40, 200)))[::-1]
    if pick:
        jobs = [{"files_json": files_to_json(c["files"], rep_=c.get("rep")), "names": c["names"], "mode": c["mode"], "opts": c["opts"],
                 "write_order": c["write_order"]} for c in pick]
        fd, jp = tempfile.mkstemp(prefix="c19_jobs_", suffix=".json", dir=root)
        with os.fdopen(fd, "w") as fh:
            json.dump(jobs, fh)
        try:
            pr = subprocess.run([sys.executable, "-m", "harness.c19", jp], stdout=subprocess.PIPE, stderr=subprocess.PIPE, text=True,
                                timeout=300, cwd=C.VERIF)
            fresh = json.loads(pr.stdout.strip().splitlines()[-1]) if pr.returncode == 0 and pr.stdout.strip() else None
        except Exception:  # noqa
            fresh = None
        finally:
            os.unlink(jp)
        stats["fresh_process_cases"] = len(pick) if fresh is not None else "fresh process failed"
        if fresh is None:
            raise RuntimeError("fresh-process run failed: " + (pr.stderr[-500:] if "pr" in dir() else ""))
        for c, fr in zip(pick, fresh):
            res.oracle_runs += 1
            if json.loads(json.dumps(strip(c["impl_raw"]), default=str)) != fr:
                res.oracle_violations.append({"what": "result in this process differs from the result of a fresh process for the same export",
                                              "input": case_json(c), "observed": {"fresh_process_result": fr}, "signature": "C19:fresh"})
    stats.update(probe_representations(root))
    cr = C.run_corr(ctx.pid, "dom", IMPORTS, "dom_case", cases, case_lit, "agree_dom", shard=60, show="show_dom")
    res.corr.append(("Dominion.read_cvrs / read_cvrs_directory vs DominionCvr.read_cvrs_directory", cr, case_json))
    res.evaluations += len(cases)
    res.rule = ("all sequences of <= 3 marks of one candidate over rank {0,1,2} x IsVote, enforced and not; then generated exports: 0-6 sessions per file, 1-3 files (directory mode with a non-matching file), both layouts with/without "
                "'Cards' (and both keys present), several cards/contests, shuffled/sorted marks with duplicate candidates, rank 0, IsVote "
                "mixes, Original/Modified in both key orders with Modified covering a subset and often a small edit of the Original contest (IsVote flipped, rank changed, mark dropped/added/moved), sessions that are near copies of earlier ones in the file, obfuscated record ids with matching / "
                "non-matching image masks, all 16 option patterns cycled, option collections as list/tuple/set/frozenset/range/ndarray/np.int64 items/None, defaults; 35% of the exports with keys in another order and unknown keys at every level, ranks written as 1.0, tabulator/batch/record/candidate ids with leading zeros, spaces, letters, unicode; exports re-read after others, after the caller altered the first result, and in a fresh process; 8% malformed stream "
                "(negative ranks, contest id repeated in a block) for correspondence only; non-trivial = has a contest with a repeated "
                "candidate or a session with both Original and Modified, distinct by (options, export)")
    res.samples = [case_json(c) for c in cases[:3]]
    res.stats = stats
    # regenerated tie: whole-function skeletons of the anchored functions + lemmas against the hand model
    genarith.regenerate(ctx.pid, "tree_skeletons", res)
    res.assumptions = ["json.load, file I/O, glob + sorted, the image-mask regular expression (masks are generated from templates whose "
                       "number the model receives) are trusted; ids are parsed back from the 'tab-batch-record' strings by the harness"]
