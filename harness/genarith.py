"""Regenerated tie for straight-line arithmetic (DESIGN 2.1): a fail-closed Python-ast -> Gallina translator.
On every run the listed functions of /repo's working tree are translated to Gen_arith.v (definitions over Q) and the
hand-written lemma file of the group (coq/gen/GenProofs_<group>.v) is re-checked against the regenerated text, so a
change to one of those expressions breaks a proof obligation directly.

Accepted: + - * / unary -, numeric literals, parameter names, local names assigned earlier in the same body,
attribute / subscript / call sub-expressions listed verbatim in the target's `atoms` table, np.clip / np.minimum /
np.maximum.  Anything else is an error, never a guess."""
import ast
import os
import re
import shutil
from fractions import Fraction

from . import common as C


class TranslationError(Exception):
    pass


# Gallina for the exact-text lines of the skeletons below, one `let` per source line, emitted only when every line of
# the function matched its skeleton (so the correspondence text <-> Gallina is this fixed table)
TAIL_MART = """Definition gen_@_tail (N : option Z) (t u : Q) (xs ms : list Q) (fs : list Xq) : Xq * list Xq :=
  let terms := xcumprod (Fin 1) fs in                                          (* terms = np.cumprod(factors) *)
  let terms := absorb xis_zero (Fin 0) false fs terms in                      (* terms[np.cumsum(factors == 0) > 0] = 0 *)
  let terms := map2 (gen_@_override u) ms terms in                            (* the boolean-mask assignments *)
  let terms := if stot_exceeds N t xs then set_last terms PInf else terms in  (* terms[-1] = inf if Stot > N * t else terms[-1] *)
  (xmin_py (Fin 1) (xinv (xmax_list terms)), map (fun tm => xmin_np (Fin 1) (xinv tm)) terms).
"""
TAIL_KK = """Definition gen_kk_tail (ro : bool) (xgs ms : list Q) : Xq * list Xq :=
  let ratio := map2 (fun xg m => gen_kk_ratio_fix xg m (xdiv (Fin xg) (Fin m))) xgs ms in   (* ratio = (x + g) / m; ratio[...] = 1 *)
  let terms := xcumprod (Fin 1) ratio in                                       (* terms = np.cumprod(ratio) *)
  let terms := absorb xis_zero (Fin 0) false ratio terms in                   (* terms[np.cumsum(ratio == 0) > 0] = 0 *)
  let terms := map3 gen_kk_override xgs ms terms in                           (* terms[(m < 0) | ...] = np.inf *)
  let p := xmin_py (if ro then xinv (xmax_list terms) else xinv (xlast terms)) (Fin 1) in
  (p, map (fun tm => xmin_np (xinv tm) (Fin 1)) terms).
"""
TAIL_KM = """Definition gen_km_tail (ro : bool) (fs : list Xq) : Xq * list Xq :=
  let hist := xcumprod (Fin 1) fs in                                           (* p_history = np.cumprod(factors) *)
  let hist := absorb xis_inf PInf false fs hist in                            (* p_history[np.cumsum(np.isinf(factors)) > 0] = np.inf *)
  (xmin_np (Fin 1) (if ro then xmin_list hist else xlast hist), map (fun h => xmin_np h (Fin 1)) hist).
"""
TAIL_KW = """Definition gen_kw_tail (ro : bool) (fs : list Xq) : Xq * list Xq :=
  let hist := xcumprod (Fin 1) fs in                                           (* p_history = np.cumprod(factors) *)
  let hist := absorb xis_zero (Fin 0) false fs hist in                        (* p_history[np.cumsum(factors == 0) > 0] = 0 *)
  (xmin_np (Fin 1) (if ro then xinv (xmax_list hist) else xinv (xlast hist)), map (fun h => xmin_np (xinv h) (Fin 1)) hist).
"""
TAIL_SPRT = """Definition gen_sprt_tail (ro : bool) (ph : Xq * list Xq) : Xq * list Xq :=
  (if ro then fst ph else xlast (snd ph), snd ph).          (* sprt.alpha_mart(x); return (p if random_order else p_history[-1], p_history) *)
"""

# Assorter.overstatement, line for line (booleans: what the four conditions read from the two records)
TAIL_OVERSTATEMENT = """Definition gen_overstatement_tail (use_style mvr_phantom mvr_has cvr_has cvr_pool cvr_phantom : bool)
    (tally_pool_means : option (list (Z * Xq))) (cvr_tally_pool : Z) (assort_mvr assort_cvr : Q) : res Xq :=
  if use_style && negb cvr_has then Raise EValue else                                     (* if use_style and not cvr.has_contest(..): raise ValueError *)
  let mvr_assort := if mvr_phantom || (use_style && negb mvr_has) then 0 else assort_mvr in   (* mvr_assort = 0 if mvr.phantom or (use_style and not mvr.has_contest(..)) else self.assort(mvr) *)
  match (if cvr_pool then tally_pool_means else None) with                                  (* cvr.pool and self.tally_pool_means is not None *)
  | Some ms => match lookup cvr_tally_pool ms with
               | Some m => Ok (xsub m (Fin mvr_assort))                                     (* self.tally_pool_means[cvr.tally_pool]; return cvr_assort - mvr_assort *)
               | None => Raise EKey
               end
  | None => Ok (Fin (b2q cvr_phantom / 2 + (1 - b2q cvr_phantom) * assort_cvr - mvr_assort))   (* int(cvr.phantom)/2 + (1 - int(cvr.phantom)) * self.assort(cvr) *)
  end.
"""
# Assorter.mean: the style filter, then np.mean of the assorter values of the cards that pass
TAIL_AMEAN = """Definition gen_amean_tail (A : card -> Q) (cid : Z) (cvr_list : list card) (use_style : bool) : Xq :=
  let filtr := if use_style then (fun c => has_contest cid c) else (fun _ => true) in      (* the two lambdas *)
  np_mean (map A (filter filtr cvr_list)).                                                (* np.mean([self.assort(c) for c in cvr_list if filtr(c)]) *)
"""
# Assertion.set_margin_from_cvrs: (self.margin, self.test.u) for a finite mean; NotImplementedError is outside (atype has three values)
TAIL_SMC = """Definition gen_smc_tail (t : atype) (amean ua : Q) : Q * Q :=
  let margin := gen_smc_margin amean in                                                   (* self.margin = 2 * amean - 1 *)
  (margin, match t with Polling => gen_smc_u_polling ua | _ => gen_smc_u_comparison margin ua end).
"""
# Assertion.set_all_margins_from_cvrs: for every assertion, set_margin_from_cvrs unconditionally, then test.u again
TAIL_SAM = """Definition gen_sam_tail (asns : list asn) (cvr_list : list card) (stratum_style : bool) : list asn * Xq :=
  let step (a : asn) :=
    let mu := set_margin_from_cvrs (a_A a) (a_cid a) (a_type a) (a_ua a) cvr_list stratum_style in   (* asn.set_margin_from_cvrs(audit, cvr_list) *)
    let margin := fst mu in                                                                          (* margin = asn.margin *)
    mkasn (a_A a) (a_cid a) (a_style a) (a_type a) (a_thr a) margin (a_ua a) (a_means a)
          (test_u_for (a_type a) margin (a_ua a)) in                                                 (* asn.test.u = u *)
  let asns' := map step asns in
  (asns', fold_left (fun m a => xmin_py m (a_margin a)) asns' PInf).                                 (* min_margin = min(min_margin, margin) *)
"""
HEADERS = {"audit_skeletons": "From SV Require Import Compare.\n"}     # names a group's generated definitions need

TARGETS = {
    "nnm": [
        dict(name="lam_to_eta", file="shangrla/core/NonnegMean.py", func="NonnegMean.lam_to_eta",
             args=["u", "lam", "mu"], params={"lam": "lam", "mu": "mu"}, atoms={"self.u": "u"}),
        dict(name="eta_to_lam", file="shangrla/core/NonnegMean.py", func="NonnegMean.eta_to_lam",
             args=["u", "eta", "mu"], params={"eta": "eta", "mu": "mu"}, atoms={"self.u": "u"}),
        dict(name="optimal_comparison", file="shangrla/core/NonnegMean.py", func="NonnegMean.optimal_comparison",
             args=["u", "p2"], params={}, atoms={"self.u": "u"},
             param_assigns={"p2": "getattr(self, 'rate_error_2', 0.0001)"}),
    ],
    "nnm_products": [
        dict(name="alpha_factor", file="shangrla/core/NonnegMean.py", func="NonnegMean.alpha_mart",
             args=["u", "x", "etaj", "m"], params={"x": "x", "etaj": "etaj", "m": "m", "u": "u"}, atoms={},
             result="terms", mentions=["etaj"], inner_call="np.cumprod"),
        dict(name="betting_factor", file="shangrla/core/NonnegMean.py", func="NonnegMean.betting_mart",
             args=["x", "lam", "m"], params={"x": "x", "lam": "lam", "m": "m"}, atoms={},
             result="terms", mentions=["lam"], inner_call="np.cumprod"),
        dict(name="kw_factor", file="shangrla/core/NonnegMean.py", func="NonnegMean.kaplan_wald",
             args=["g", "x", "t"], params={"x": "x", "g": "g", "t": "t"}, atoms={},
             result="p_history", mentions=["g"], inner_call="np.cumprod"),
        dict(name="km_factor", file="shangrla/core/NonnegMean.py", func="NonnegMean.kaplan_markov",
             args=["g", "x", "t"], params={"x": "x", "g": "g", "t": "t"}, atoms={},
             result="p_history", mentions=["g"], inner_call="np.cumprod"),
        dict(name="kk_ratio", file="shangrla/core/NonnegMean.py", func="NonnegMean.kaplan_kolmogorov",
             args=["g", "x", "m"], params={"x": "x", "g": "g", "m": "m"}, atoms={},
             result="ratio", mentions=["g"]),
        dict(name="null_mean", file="shangrla/core/NonnegMean.py", func="NonnegMean.sjm",
             args=["N", "t", "S", "j"], params={"N": "N", "t": "t", "S": "S", "j": "j"}, atoms={},
             result="m", mentions=["S"], ifexp_test="np.isfinite(N)", ifexp_else="t"),
    ],
    # whole-function skeletons: EVERY statement of the function must be one of the listed exact texts, an assignment to
    # a listed name (tied elsewhere), or a boolean-mask assignment `array[<mask>] = <0 | 1 | np.inf>`, which is
    # translated entry-wise.  Anything else (an extra guard, a reordered or missing line) is a refusal.
    "nnm_masks": [
        dict(name="alpha", kind="skeleton", file="shangrla/core/NonnegMean.py", func="NonnegMean.alpha_mart",
             skeleton=[("text", "N = self.N"), ("text", "t = self.t"), ("text", "u = self.u"),
                       ("text", "atol = kwargs.get('atol', 2 * np.finfo(float).eps)"),
                       ("text", "rtol = kwargs.get('rtol', 10 ** (-6))"),
                       ("text", "_S, Stot, _j, m = self.sjm(N, t, x)"), ("text", "x = np.array(x)"),
                       ("with", "np.errstate(divide='ignore', invalid='ignore', over='ignore')"),
                       ("expr", "etaj", "clamp", ["u", "est", "m"], {"self.estim(x)": "est"}),
                       ("assign", "factors"), ("text", "terms = np.cumprod(factors)"),
                       ("text", "terms[np.cumsum(factors == 0) > 0] = 0"), ("endwith",),
                       ("masks", "terms", "override", ["u", "m"]),
                       ("text", "terms[-1] = np.inf if Stot > N * t else terms[-1]"),
                       ("text", "return (min(1, 1 / np.max(terms)), np.minimum(1, 1 / terms))")],
             tail=TAIL_MART.replace("@", "alpha")),
        dict(name="betting", kind="skeleton", file="shangrla/core/NonnegMean.py", func="NonnegMean.betting_mart",
             skeleton=[("text", "N = self.N"), ("text", "t = self.t"), ("text", "u = self.u"),
                       ("text", "atol = kwargs.get('atol', 2 * np.finfo(float).eps)"),
                       ("text", "rtol = kwargs.get('rtol', 10 ** (-6))"),
                       ("text", "_S, Stot, _j, m = self.sjm(N, t, x)"), ("text", "x = np.array(x)"),
                       ("with", "np.errstate(divide='ignore', invalid='ignore', over='ignore')"),
                       ("text", "lam = self.bet(x)"),
                       ("assign", "factors"), ("text", "terms = np.cumprod(factors)"),
                       ("text", "terms[np.cumsum(factors == 0) > 0] = 0"), ("endwith",),
                       ("masks", "terms", "override", ["u", "m"]),
                       ("text", "terms[-1] = np.inf if Stot > N * t else terms[-1]"),
                       ("text", "return (min(1, 1 / np.max(terms)), np.minimum(1, 1 / terms))")],
             tail=TAIL_MART.replace("@", "betting")),
        dict(name="kk", kind="skeleton", file="shangrla/core/NonnegMean.py", func="NonnegMean.kaplan_kolmogorov",
             skeleton=[("text", "N = self.N"), ("text", "t = self.t"), ("text", "g = getattr(self, 'g', 0)"),
                       ("text", "random_order = getattr(self, 'random_order', True)"), ("text", "x = np.array(x)"),
                       ("text", "assert all(x >= 0), 'Negative value in a nonnegative population!'"),
                       ("text", "assert len(x) <= N, 'Sample size is larger than the population!'"),
                       ("text", "assert N > 0, 'Population size not positive!'"),
                       ("text", "assert N == int(N), 'Non-integer population size!'"),
                       ("text", "_S, _Stot, _j, m = self.sjm(N, t + g, x + g)"),
                       ("with", "np.errstate(divide='ignore', invalid='ignore', over='ignore')"),
                       ("text", "ratio = (x + g) / m"), ("masks", "ratio", "ratio_fix", ["xg", "m"], {"x + g": "xg"}),
                       ("text", "terms = np.cumprod(ratio)"),
                       ("text", "terms[np.cumsum(ratio == 0) > 0] = 0"), ("endwith",),
                       ("masks", "terms", "override", ["xg", "m"], {"x + g": "xg"}),
                       ("text", "p = min(1 / np.max(terms) if random_order else 1 / terms[-1], 1)"),
                       ("text", "return (p, np.minimum(1 / terms, 1))")],
             tail=TAIL_KK),
        dict(name="km", kind="skeleton", file="shangrla/core/NonnegMean.py", func="NonnegMean.kaplan_markov",
             skeleton=[("text", "t = self.t"), ("text", "g = getattr(self, 'g', 0)"),
                       ("text", "random_order = getattr(self, 'random_order', True)"),
                       ("raise_guard",),
                       ("assign", "factors"), ("text", "p_history = np.cumprod(factors)"),
                       ("text", "p_history[np.cumsum(np.isinf(factors)) > 0] = np.inf"),
                       ("text", "return (np.min([1, np.min(p_history) if random_order else p_history[-1]]), np.minimum(p_history, 1))")],
             tail=TAIL_KM),
        dict(name="kw", kind="skeleton", file="shangrla/core/NonnegMean.py", func="NonnegMean.kaplan_wald",
             skeleton=[("text", "g = getattr(self, 'g', 0)"), ("text", "random_order = getattr(self, 'random_order', True)"),
                       ("text", "t = self.t"), ("raise_guard",), ("raise_guard",),
                       ("assign", "factors"), ("text", "p_history = np.cumprod(factors)"),
                       ("text", "p_history[np.cumsum(factors == 0) > 0] = 0"),
                       ("text", "return (np.min([1, 1 / np.max(p_history) if random_order else 1 / p_history[-1]]), np.minimum(1 / p_history, 1))")],
             tail=TAIL_KW),
        dict(name="sprt", kind="skeleton", file="shangrla/core/NonnegMean.py", func="NonnegMean.wald_sprt",
             skeleton=[("text", "u = self.u"), ("text", "N = self.N"), ("text", "t = self.t"),
                       ("text", "eta = getattr(self, 'eta', u * (1 - np.finfo(float).eps))"),
                       ("text", "random_order = getattr(self, 'random_order', True)"),
                       ("raise_guard",), ("raise_guard",),
                       ("text", "sprt = NonnegMean(test=NonnegMean.alpha_mart, estim=NonnegMean.fixed_alternative_mean, u=u, N=N, t=t, eta=eta)"),
                       ("text", "p, p_history = sprt.alpha_mart(x)"),
                       ("text", "return (p if random_order else p_history[-1], p_history)")],
             tail=TAIL_SPRT),
    ],
    # the estimators and bets: every statement exact, the arithmetic translated (the shifts by one position, np.insert /
    # [0:-1], and the running state are the sequential machines of the hand model, tied by the correspondence)
    "nnm_estims": [
        dict(name="sjm", kind="skeleton", file="shangrla/core/NonnegMean.py", func="NonnegMean.sjm",
             skeleton=[("text", "assert isinstance(N, int) or (math.isinf(N) and N > 0), 'Population size is not an integer!'"),
                       ("text", "S = np.insert(np.cumsum(x), 0, 0)"), ("text", "Stot = S[-1]"), ("text", "S = S[0:-1]"),
                       ("text", "j = np.arange(1, len(x) + 1)"),
                       ("text", "assert j[-1] <= N, 'Sample size is larger than the population!'"),
                       ("assign", "m"), ("text", "return (S, Stot, j, m)")]),
        dict(name="welford", kind="skeleton", file="shangrla/core/NonnegMean.py", func="welford_mean_var",
             skeleton=[("text", "m = [x[0]]"), ("text", "v = [0]"), ("for", "(i, xi) in enumerate(x[1:])"),
                       ("append_expr", "m", "mean", ["mean", "xi", "k"], {"m[-1]": "mean", "i + 2": "k"}),
                       ("append_expr", "v", "m2", ["m2", "xi", "mean", "mean'"], {"v[-1]": "m2", "m[-2]": "mean", "m[-1]": "mean'"}),
                       ("endfor",), ("text", "v = v / np.arange(1, len(x) + 1)"), ("text", "return (np.array(m), v)")]),
        dict(name="fixedalt", kind="skeleton", file="shangrla/core/NonnegMean.py", func="NonnegMean.fixed_alternative_mean",
             skeleton=[("text", "u = self.u"), ("text", "N = self.N"),
                       ("text", "eta = getattr(self, 'eta', u * (1 - np.finfo(float).eps))"),
                       ("text", "_S, _Stot, _j, m = self.sjm(N, eta, x)"), ("warn_guard",), ("warn_guard",),
                       ("ret_expr", "out", ["u", "m"], {})]),
        dict(name="shrink", kind="skeleton", file="shangrla/core/NonnegMean.py", func="NonnegMean.shrink_trunc",
             skeleton=[("text", "u = self.u"), ("text", "N = self.N"), ("text", "t = self.t"),
                       ("text", "eta = getattr(self, 'eta', u * (1 - np.finfo(float).eps))"),
                       ("text", "c = getattr(self, 'c', 1 / 2)"), ("text", "d = getattr(self, 'd', 100)"),
                       ("text", "f = getattr(self, 'f', 0)"), ("text", "minsd = getattr(self, 'minsd', 10 ** (-6))"),
                       ("text", "S, _, j, m = self.sjm(N, t, x)"), ("text", "_, v = welford_mean_var(x)"),
                       ("text", "sdj = np.sqrt(v)"), ("text", "sdj = np.insert(np.maximum(sdj, minsd), 0, 1)[0:-1]"),
                       ("text", "sdj[1:2] = 1"),
                       ("expr", "weighted", "weighted", ["d", "eta", "S", "j", "u", "f", "sdj"], {}),
                       ("ret_expr", "out", ["u", "weighted", "m", "c", "sq"],
                        {"np.finfo(float).eps": "eps_np", "np.sqrt(d + j - 1)": "sq"})]),
        dict(name="agrapa", kind="skeleton", file="shangrla/core/NonnegMean.py", func="NonnegMean.agrapa",
             skeleton=[("text", "u = self.u"), ("text", "N = self.N"), ("text", "t = self.t"),
                       ("text", "lam = getattr(self, 'lam', 0.5)"),
                       ("text", "c_g_0 = getattr(self, 'c_grapa_0', 1 - np.finfo(float).eps)"),
                       ("text", "c_g_m = getattr(self, 'c_grapa_max', 1 - np.finfo(float).eps)"),
                       ("text", "c_g_g = getattr(self, 'c_grapa_grow', 0)"),
                       ("text", "mj, sdj2 = welford_mean_var(x)"),
                       ("text", "t_adj = (N * t - np.insert(np.cumsum(x), 0, 0)[0:-1]) / (N - np.arange(len(x))) if np.isfinite(N) else t * np.ones(len(x))"),
                       ("with", "np.errstate(divide='ignore', invalid='ignore')"),
                       ("expr", "lamj", "raw", ["mj", "t_adj", "sdj2"], {}), ("endwith",),
                       ("text", "lamj[np.isnan(lamj)] = 0"), ("text", "lamj = np.insert(lamj, 0, lam)[0:-1]"),
                       ("expr", "c", "c", ["c_g_0", "c_g_m", "c_g_g", "sq"], {"np.sqrt(np.arange(len(x)))": "sq"}),
                       ("expr", "lamj", "cap", ["c", "t_adj", "lamj"], {}),
                       ("text", "return lamj")]),
        dict(name="fixedbet", kind="skeleton", file="shangrla/core/NonnegMean.py", func="NonnegMean.fixed_bet",
             skeleton=[("text", "return self.lam * np.ones_like(x)")]),
    ],
    "audit": [
        dict(name="overstatement_assorter", file="shangrla/core/Audit.py", func="Assertion.overstatement_assorter",
             args=["omega", "ua", "v"], params={},
             atoms={"self.assorter.overstatement(mvr, cvr, use_style)": "omega", "self.assorter.upper_bound": "ua", "self.margin": "v"}),
        dict(name="make_overstatement", file="shangrla/core/Audit.py", func="Assertion.make_overstatement",
             args=["overs", "ua", "v"], params={"overs": "overs"},
             atoms={"self.assorter.upper_bound": "ua", "self.margin": "v"}),
        dict(name="u_mvrs_to_data", file="shangrla/core/Audit.py", func="Assertion.mvrs_to_data",
             args=["margin", "upper_bound"], params={"margin": "margin", "upper_bound": "upper_bound"}, atoms={},
             result="u", mentions=["margin"]),
        dict(name="u_set_margin_from_cvrs", file="shangrla/core/Audit.py", func="Assertion.set_margin_from_cvrs",
             args=["v", "ua"], params={}, atoms={"self.margin": "v", "self.assorter.upper_bound": "ua"},
             result="self.test.u", mentions=["self.margin"]),
        dict(name="u_set_all_margins", file="shangrla/core/Audit.py", func="Assertion.set_all_margins_from_cvrs",
             args=["margin", "ua"], params={"margin": "margin"}, atoms={"asn.assorter.upper_bound": "ua"},
             result="u", mentions=["margin"]),
        dict(name="margin_plurality", file="shangrla/core/Audit.py", func="Assertion.find_margin_from_tally",
             args=["tw", "tl", "cards"], params={},
             atoms={"tally[self.winner]": "tw", "tally[self.loser]": "tl", "self.contest.cards": "cards"},
             result="self.margin", mentions=["self.loser"]),
        dict(name="margin_supermajority", file="shangrla/core/Audit.py", func="Assertion.find_margin_from_tally",
             args=["tw", "valid", "cards", "f"], params={"valid": "valid"},
             atoms={"tally[self.winner]": "tw", "self.contest.cards": "cards", "self.contest.share_to_win": "f"},
             result="self.margin", mentions=["share_to_win"], locals=["q", "p"]),
    ],
    # shangrla/core/Audit.py, comparison-audit scoring: every statement of each function exact or translated
    "audit_skeletons": [
        dict(name="overstatement", kind="skeleton", file="shangrla/core/Audit.py", func="Assorter.overstatement",
             skeleton=[("text", "if use_style and (not cvr.has_contest(self.contest.id)):\n    raise ValueError(f'use_style==True but cvr={cvr!r} does not contain contest {self.contest.id}')"),
                       ("text", "mvr_assort = 0 if mvr.phantom or (use_style and (not mvr.has_contest(self.contest.id))) else self.assort(mvr)"),
                       ("text", "cvr_assort = self.tally_pool_means[cvr.tally_pool] if cvr.pool and self.tally_pool_means is not None else int(cvr.phantom) / 2 + (1 - int(cvr.phantom)) * self.assort(cvr)"),
                       ("text", "return cvr_assort - mvr_assort")],
             tail=TAIL_OVERSTATEMENT),
        dict(name="oa", kind="skeleton", file="shangrla/core/Audit.py", func="Assertion.overstatement_assorter",
             skeleton=[("ret_expr", "out", ["omega", "ua", "v"],
                        {"self.assorter.overstatement(mvr, cvr, use_style)": "omega", "self.assorter.upper_bound": "ua",
                         "self.margin": "v"})]),
        dict(name="oa_margin", kind="skeleton", file="shangrla/core/Audit.py", func="Assertion.overstatement_assorter_margin",
             skeleton=[("ret_expr", "out", ["error_rate_1", "error_rate_2", "ua", "v"],
                        {"self.assorter.upper_bound": "ua", "self.margin": "v"})]),
        dict(name="oa_mean", kind="skeleton", file="shangrla/core/Audit.py", func="Assertion.overstatement_assorter_mean",
             skeleton=[("ret_expr", "out", ["error_rate_1", "error_rate_2", "ua", "v"],
                        {"self.assorter.upper_bound": "ua", "self.margin": "v"})]),
        dict(name="make_overstatement", file="shangrla/core/Audit.py", func="Assertion.make_overstatement",
             args=["overs", "ua", "v"], params={"overs": "overs"},
             atoms={"self.assorter.upper_bound": "ua", "self.margin": "v"}),
        dict(name="amean", kind="skeleton", file="shangrla/core/Audit.py", func="Assorter.mean",
             skeleton=[("text", "if use_style:\n    filtr = lambda c: c.has_contest(self.contest.id)\nelse:\n    filtr = lambda c: True"),
                       ("text", "return np.mean([self.assort(c) for c in cvr_list if filtr(c)])")],
             tail=TAIL_AMEAN),
        dict(name="smc", kind="skeleton", file="shangrla/core/Audit.py", func="Assertion.set_margin_from_cvrs",
             skeleton=[("raise_guard",), ("text", "stratum = next(iter(audit.strata.values()))"),
                       ("text", "use_style = stratum.use_style"),
                       ("text", "amean = self.assorter.mean(cvr_list, use_style=use_style)"), ("warn_guard",),
                       ("expr", "self.margin", "margin", ["amean"], {}),
                       ("if", "self.contest.audit_type == Audit.AUDIT_TYPE.POLLING"),
                       ("expr", "self.test.u", "u_polling", ["ua"], {"self.assorter.upper_bound": "ua"}),
                       ("else",),
                       ("if", "self.contest.audit_type in [Audit.AUDIT_TYPE.CARD_COMPARISON, Audit.AUDIT_TYPE.ONEAUDIT]"),
                       ("expr", "self.test.u", "u_comparison", ["v", "ua"], {"self.margin": "v", "self.assorter.upper_bound": "ua"}),
                       ("else",),
                       ("text", "raise NotImplementedError(f'audit type {self.contest.audit_type} not supported')"),
                       ("endif",), ("endif",)],
             tail=TAIL_SMC),
        dict(name="sam", kind="skeleton", file="shangrla/core/Audit.py", func="Assertion.set_all_margins_from_cvrs",
             skeleton=[("text", "min_margin = np.inf"), ("for", "(c, con) in contests.items()"),
                       ("text", "con.margins = {}"), ("for", "(a, asn) in con.assertions.items()"),
                       ("text", "asn.set_margin_from_cvrs(audit, cvr_list)"),        # unconditional, for every assertion
                       ("text", "margin = asn.margin"), ("text", "con.margins.update({a: margin})"),
                       ("if", "con.audit_type == Audit.AUDIT_TYPE.POLLING"),
                       ("expr", "u", "u_polling", ["ua"], {"asn.assorter.upper_bound": "ua"}),
                       ("else",),
                       ("if", "con.audit_type in [Audit.AUDIT_TYPE.CARD_COMPARISON, Audit.AUDIT_TYPE.ONEAUDIT]"),
                       ("expr", "u", "u_comparison", ["margin", "ua"], {"asn.assorter.upper_bound": "ua"}),
                       ("else",),
                       ("text", "raise NotImplementedError(f'audit type {con.audit_type} not implemented')"),
                       ("endif",), ("endif",),
                       ("text", "asn.test.u = u"), ("text", "min_margin = min(min_margin, margin)"),
                       ("endfor",), ("endfor",), ("text", "return min_margin")],
             tail=TAIL_SAM),
    ],
    "raire": [
        dict(name="bp_estimate", file="shangrla/raire/sample_estimator.py", func="bp_estimate",
             args=["winner", "loser", "other", "total"],
             params={"winner": "winner", "loser": "loser", "other": "other", "total": "total"}, atoms={}),
        dict(name="cp_estimate", file="shangrla/raire/sample_estimator.py", func="cp_estimate",
             args=["winner", "loser", "other", "total"],
             params={"winner": "winner", "loser": "loser", "other": "other", "total": "total"}, atoms={}),
    ],
}


def find_func(tree, qual):
    parts = qual.split(".")
    body = tree.body
    node = None
    for p in parts:
        node = next((n for n in body if isinstance(n, (ast.FunctionDef, ast.ClassDef)) and n.name == p), None)
        if node is None:
            raise TranslationError(f"function {qual} not found")
        body = node.body
    return node


def qconst(v):
    if isinstance(v, bool) or not isinstance(v, (int, float)):
        raise TranslationError(f"unsupported constant {v!r}")
    f = Fraction(v) if isinstance(v, int) else Fraction(*float(v).as_integer_ratio())
    return f"(mkq ({f.numerator}) {f.denominator})"


def expr(node, env, atoms):
    src = ast.unparse(node)
    if src in atoms:
        return atoms[src]
    if isinstance(node, ast.BinOp) and isinstance(node.op, ast.Pow) and isinstance(node.right, ast.Constant) and node.right.value == 2:
        e = expr(node.left, env, atoms)
        return f"({e} * {e})"
    if isinstance(node, ast.BinOp):
        ops = {ast.Add: "+", ast.Sub: "-", ast.Mult: "*", ast.Div: "/"}
        if type(node.op) not in ops:
            raise TranslationError(f"unsupported operator in {src}")
        return f"({expr(node.left, env, atoms)} {ops[type(node.op)]} {expr(node.right, env, atoms)})"
    if isinstance(node, ast.UnaryOp) and isinstance(node.op, ast.USub):
        return f"(- {expr(node.operand, env, atoms)})"
    if isinstance(node, ast.Constant):
        return qconst(node.value)
    if isinstance(node, ast.Name):
        if node.id in env:
            return env[node.id]
        raise TranslationError(f"unknown name {node.id}")
    if isinstance(node, ast.IfExp):
        # `a if c else b` with a numeric condition: Python truthiness of a number is "not equal to zero"
        return (f"(if Qeq_bool {expr(node.test, env, atoms)} (mkq (0) 1) then {expr(node.orelse, env, atoms)} "
                f"else {expr(node.body, env, atoms)})")
    if isinstance(node, ast.Call):
        f = ast.unparse(node.func)
        a = node.args
        if node.keywords:
            raise TranslationError(f"keyword arguments in {src}")
        if f == "np.clip" and len(a) == 3:
            return f"(clipq {expr(a[1], env, atoms)} {expr(a[2], env, atoms)} {expr(a[0], env, atoms)})"
        if f == "np.minimum" and len(a) == 2:
            return f"(Qminb {expr(a[0], env, atoms)} {expr(a[1], env, atoms)})"
        if f == "np.maximum" and len(a) == 2:
            return f"(Qmaxb {expr(a[0], env, atoms)} {expr(a[1], env, atoms)})"
    raise TranslationError(f"unsupported expression: {src}")


def blocks(stmts):
    """all statement lists nested in a function body (the body itself, branches of if/else, with/try bodies)"""
    yield stmts
    for st in stmts:
        for field in ("body", "orelse", "finalbody"):
            sub = getattr(st, field, None)
            if isinstance(sub, list) and sub and not isinstance(st, (ast.FunctionDef, ast.ClassDef)):
                yield from blocks(sub)
        for h in getattr(st, "handlers", []) or []:
            yield from blocks(h.body)


def translate_block(target, fn):
    """`select`: translate the straight-line run of assignments, inside the unique statement list of the function that
    assigns `result` with a value mentioning every string of `mentions`, from the first statement assigning one of
    `locals` (or the result statement itself) up to the result statement."""
    want, mentions, locs = target["result"], target.get("mentions", []), target.get("locals", [])
    found = []
    def resolved(blk, i):
        """the value assigned by statement i; for `w = f(name)` with inner_call f, `name` is replaced by the value of the
        single earlier assignment to it in the same statement list (factors = <expr>; terms = np.cumprod(factors))"""
        val = blk[i].value
        if target.get("inner_call") and isinstance(val, ast.Call) and ast.unparse(val.func) == target["inner_call"] \
                and len(val.args) == 1 and not val.keywords and isinstance(val.args[0], ast.Name):
            nm = val.args[0].id
            prev = [s2 for s2 in blk[:i] if isinstance(s2, ast.Assign) and any(ast.unparse(t) == nm for t in s2.targets)]
            touched = [s2 for s2 in blk[:i] if isinstance(s2, (ast.AugAssign, ast.Assign)) and any(
                isinstance(t, ast.Subscript) and ast.unparse(t.value) == nm for t in (s2.targets if isinstance(s2, ast.Assign) else [s2.target]))]
            if len(prev) == 1 and not touched and len(prev[0].targets) == 1:
                return ast.Call(func=val.func, args=[prev[0].value], keywords=[])
        return val
    for blk in blocks(fn.body):
        for i, st in enumerate(blk):
            if isinstance(st, ast.Assign) and len(st.targets) == 1 and ast.unparse(st.targets[0]) == want \
                    and (not isinstance(st.value, (ast.Name, ast.Attribute, ast.Constant)) or target.get("allow_simple")) \
                    and all(m in ast.unparse(resolved(blk, i)) for m in mentions):
                found.append((blk, i))
    if len(found) != 1:
        raise TranslationError(f"{target['func']}: expected exactly one assignment to {want} mentioning {mentions}, found {len(found)}")
    blk, i = found[0]
    start = i
    while start > 0 and isinstance(blk[start - 1], ast.Assign) and len(blk[start - 1].targets) == 1 \
            and ast.unparse(blk[start - 1].targets[0]) in locs:
        start -= 1
    env = dict(target["params"])
    lets = []
    for st in blk[start:i]:
        name = ast.unparse(st.targets[0])
        lets.append((name, expr(st.value, env, target["atoms"])))
        env[name] = f"v_{name}"
    val = resolved(blk, i)
    if target.get("inner_call"):     # e.g. terms = np.cumprod(<expr>): translate the argument
        if not (isinstance(val, ast.Call) and ast.unparse(val.func) == target["inner_call"] and len(val.args) == 1 and not val.keywords):
            raise TranslationError(f"{target['func']}: {want} is no longer {target['inner_call']}(<expr>)")
        val = val.args[0]
    if target.get("ifexp_test"):     # e.g. m = (<expr> if np.isfinite(N) else t): translate the first branch
        if not (isinstance(val, ast.IfExp) and ast.unparse(val.test) == target["ifexp_test"]):
            raise TranslationError(f"{target['func']}: {want} is no longer `<expr> if {target['ifexp_test']} else ...`")
        if ast.unparse(val.orelse) != target["ifexp_else"]:
            raise TranslationError(f"{target['func']}: the else branch of {want} is no longer {target['ifexp_else']}")
        val = val.body
    body = expr(val, env, target["atoms"])
    for name, e in reversed(lets):
        body = f"let v_{name} := {e} in\n  {body}"
    args = " ".join(target["args"])
    return f"(* {target['file']}: {target['func']} ({want} = ...) *)\nDefinition gen_{target['name']} ({args} : Q) : Q :=\n  {body}.\n"


def flatten(stmts):
    """statements in source order; a `with` block contributes ("with", <items text>), its body, ("endwith",)"""
    out = []
    for st in stmts:
        if isinstance(st, ast.Expr) and isinstance(st.value, ast.Constant) and isinstance(st.value.value, str):
            continue  # docstring
        if isinstance(st, ast.With):
            out.append(("with", ", ".join(ast.unparse(i) for i in st.items)))
            out.extend(flatten(st.body))
            out.append(("endwith",))
        elif isinstance(st, ast.For) and not st.orelse:
            out.append(("for", f"{ast.unparse(st.target)} in {ast.unparse(st.iter)}"))
            out.extend(flatten(st.body))
            out.append(("endfor",))
        else:
            out.append(("stmt", st))
    return out


def mask_expr(node, env, array, atoms=None):
    """a numpy boolean mask, read entry-wise: comparisons of arithmetic expressions, np.isclose, | and &"""
    src = ast.unparse(node)
    if isinstance(node, ast.BinOp) and isinstance(node.op, (ast.BitOr, ast.BitAnd)):
        f = "orb" if isinstance(node.op, ast.BitOr) else "andb"
        return f"({f} {mask_expr(node.left, env, array, atoms)} {mask_expr(node.right, env, array, atoms)})"
    if isinstance(node, ast.Compare) and len(node.ops) == 1:
        l, r = expr(node.left, env, atoms or {}), expr(node.comparators[0], env, atoms or {})
        op = type(node.ops[0])
        table = {ast.Lt: f"(Qlt_bool {l} {r})", ast.Gt: f"(Qlt_bool {r} {l})", ast.LtE: f"(Qle_bool {l} {r})",
                 ast.GtE: f"(Qle_bool {r} {l})", ast.Eq: f"(Qeq_bool {l} {r})"}
        if op in table:
            return table[op]
    if isinstance(node, ast.Call) and ast.unparse(node.func) == "np.isclose" and len(node.args) == 2:
        kws = {k.arg: ast.unparse(k.value) for k in node.keywords}
        if not set(kws) <= {"atol", "rtol"} or kws.get("atol", "atol") != "atol" or kws.get("rtol", "rtol") != "rtol":
            raise TranslationError(f"unsupported tolerances in {src}")
        at = "atol_np" if "atol" in kws else "(mkq (1) 100000000)"      # numpy's default atol = 1e-8
        rt = "rtol_u" if "rtol" in kws else "rtol_default"              # numpy's default rtol = 1e-5
        a0 = expr(node.args[0], env, atoms or {})
        if ast.unparse(node.args[1]) == array:
            return f"(isclose_x {a0} term {rt} {at})"
        return f"(isclose_q {a0} {expr(node.args[1], env, atoms or {})} {rt} {at})"
    raise TranslationError(f"unsupported mask: {src}")


def translate_skeleton(target, fn):
    items = flatten(fn.body)
    pos = 0
    defs = []

    def cur():
        if pos >= len(items):
            raise TranslationError(f"{target['func']}: function ends early (skeleton expects more statements)")
        return items[pos]
    for sk in target["skeleton"]:
        kind = sk[0]
        if kind == "if":      # if <test text>: ... [else: ...]  -- opened in place; an elif is an `if` inside the else part
            it = cur()
            st = it[1] if it[0] == "stmt" else None
            if not (isinstance(st, ast.If) and ast.unparse(st.test) == sk[1]):
                raise TranslationError(f"{target['func']}: expected `if {sk[1]}:`, found `{ast.unparse(st)[:100] if st is not None else it}`")
            items[pos:pos + 1] = [("if", sk[1])] + flatten(st.body) + ([("else",)] + flatten(st.orelse) if st.orelse else []) + [("endif",)]
            pos += 1
        elif kind in ("else", "endif"):
            it = cur()
            if it[0] != kind:
                raise TranslationError(f"{target['func']}: expected {kind}, found {it[0]} {ast.unparse(it[1])[:80] if it[0] == 'stmt' else ''}")
            pos += 1
        elif kind in ("with", "endwith", "for", "endfor"):
            it = cur()
            if it[0] != kind or (kind in ("with", "for") and it[1] != sk[1]):
                raise TranslationError(f"{target['func']}: expected {sk}, found {it[0]} {ast.unparse(it[1])[:80] if it[0] == 'stmt' else (it[1:] or '')}")
            pos += 1
        elif kind == "text":
            it = cur()
            if it[0] != "stmt" or ast.unparse(it[1]) != sk[1]:
                raise TranslationError(f"{target['func']}: expected `{sk[1]}`, found `{ast.unparse(it[1])[:120] if it[0] == 'stmt' else it}`")
            pos += 1
        elif kind == "raise_guard":     # if <cond>: raise ValueError(...)   (input validation; refusals are outside the model)
            it = cur()
            st = it[1] if it[0] == "stmt" else None
            if not (isinstance(st, ast.If) and not st.orelse and len(st.body) == 1 and isinstance(st.body[0], ast.Raise)):
                raise TranslationError(f"{target['func']}: expected an input-validation guard, found `{ast.unparse(st)[:100] if st is not None else it}`")
            pos += 1
        elif kind == "warn_guard":      # if <cond>: warnings.warn(...)   (diagnostics only)
            it = cur()
            st = it[1] if it[0] == "stmt" else None
            if not (isinstance(st, ast.If) and not st.orelse and len(st.body) == 1 and isinstance(st.body[0], ast.Expr)
                    and isinstance(st.body[0].value, ast.Call) and ast.unparse(st.body[0].value.func) == "warnings.warn"):
                raise TranslationError(f"{target['func']}: expected a warnings.warn guard, found `{ast.unparse(st)[:100] if st is not None else it}`")
            pos += 1
        elif kind in ("append_expr", "ret_expr"):
            it = cur()
            st = it[1] if it[0] == "stmt" else None
            if kind == "append_expr":
                _, lst, gname, args, atoms = sk
                ok = (isinstance(st, ast.Expr) and isinstance(st.value, ast.Call) and ast.unparse(st.value.func) == f"{lst}.append"
                      and len(st.value.args) == 1 and not st.value.keywords)
                val = st.value.args[0] if ok else None
            else:
                _, gname, args, atoms = sk
                ok = isinstance(st, ast.Return) and st.value is not None
                val = st.value if ok else None
            if not ok:
                raise TranslationError(f"{target['func']}: expected {kind} here, found `{ast.unparse(st)[:100] if st is not None else it}`")
            body = expr(val, {a: a for a in args}, atoms)
            defs.append(f"Definition gen_{target['name']}_{gname} ({' '.join(args)} : Q) : Q :=\n  {body}.\n")
            pos += 1
        elif kind == "assign":
            it = cur()
            st = it[1] if it[0] == "stmt" else None
            if not (isinstance(st, ast.Assign) and len(st.targets) == 1 and ast.unparse(st.targets[0]) == sk[1]):
                raise TranslationError(f"{target['func']}: expected an assignment to {sk[1]}, found `{ast.unparse(st)[:100] if st is not None else it}`")
            pos += 1
        elif kind == "expr":
            _, name, gname, args, atoms = sk
            it = cur()
            st = it[1] if it[0] == "stmt" else None
            if not (isinstance(st, ast.Assign) and len(st.targets) == 1 and ast.unparse(st.targets[0]) == name):
                raise TranslationError(f"{target['func']}: expected an assignment to {name}")
            body = expr(st.value, {a: a for a in args}, atoms)
            defs.append(f"Definition gen_{target['name']}_{gname} ({' '.join(args)} : Q) : Q :=\n  {body}.\n")
            pos += 1
        elif kind == "masks":
            _, array, gname, args = sk[:4]
            matoms = sk[4] if len(sk) > 4 else {}
            steps = []
            while pos < len(items) and items[pos][0] == "stmt":
                st = items[pos][1]
                if not (isinstance(st, ast.Assign) and len(st.targets) == 1 and isinstance(st.targets[0], ast.Subscript)
                        and ast.unparse(st.targets[0].value) == array):
                    break
                sl = st.targets[0].slice
                if isinstance(sl, (ast.Constant, ast.UnaryOp, ast.Slice)) or ast.unparse(sl).startswith("np.cumsum"):
                    break       # an index / the absorbing idiom, not a mask: must be matched by a `text` item
                val = ast.unparse(st.value)
                vals = {"0": "Fin 0", "1": "Fin 1", "np.inf": "PInf"}
                if val not in vals:
                    raise TranslationError(f"{target['func']}: unsupported mask value {val}")
                steps.append((mask_expr(sl, {a: a for a in args}, array, matoms), vals[val]))
                pos += 1
            if not steps:
                raise TranslationError(f"{target['func']}: no mask assignment to {array} where one is expected")
            body = "\n".join(f"  let term := if {c} then {v} else term in" for c, v in steps) + "\n  term"
            defs.append(f"Definition gen_{target['name']}_{gname} ({' '.join(args)} : Q) (term : Xq) : Xq :=\n{body}.\n"
                        f"Definition gen_{target['name']}_{gname}_steps : nat := {len(steps)}.\n")
        else:
            raise TranslationError(f"bad skeleton item {sk}")
    if pos != len(items):
        it = items[pos]
        raise TranslationError(f"{target['func']}: statement beyond the skeleton: `{ast.unparse(it[1])[:120] if it[0] == 'stmt' else it}`")
    defs.append(f"Definition gen_{target['name']}_skeleton_matched : bool := true.\n")
    if target.get("tail"):      # the data flow of the matched texts, line for line (emitted only when every line matched)
        defs.append(target["tail"])
    return f"(* {target['file']}: {target['func']} (whole-function skeleton) *)\n" + "".join(defs)


def translate(target, repo=None):
    repo = repo or C.REPO
    path = os.path.join(repo, target["file"])
    import warnings
    with warnings.catch_warnings():
        warnings.simplefilter("ignore")
        tree = ast.parse(open(path).read())
    fn = find_func(tree, target["func"])
    if target.get("kind") == "skeleton":
        return translate_skeleton(target, fn)
    if "result" in target:
        return translate_block(target, fn)
    env = dict(target["params"])
    lets = []
    pa = target.get("param_assigns", {})
    ret = None
    for i, st in enumerate(fn.body):
        if isinstance(st, ast.Expr) and isinstance(st.value, ast.Constant) and isinstance(st.value.value, str):
            continue  # docstring
        if isinstance(st, ast.Assign) and len(st.targets) == 1 and isinstance(st.targets[0], ast.Name):
            name = st.targets[0].id
            if name in pa:
                if ast.unparse(st.value) != pa[name]:
                    raise TranslationError(f"{target['func']}: parameter assignment {name} = {ast.unparse(st.value)} is not the expected {pa[name]}")
                env[name] = name
                continue
            lets.append((name, expr(st.value, env, target["atoms"])))
            env[name] = f"v_{name}"
            continue
        if isinstance(st, ast.Return) and i == len(fn.body) - 1:
            ret = expr(st.value, env, target["atoms"])
            continue
        raise TranslationError(f"{target['func']}: unsupported statement: {ast.unparse(st)[:80]}")
    if ret is None:
        raise TranslationError(f"{target['func']}: no final return")
    body = ret
    for name, e in reversed(lets):
        body = f"let v_{name} := {e} in\n  {body}"
    args = " ".join(target["args"])
    return f"(* {target['file']}: {target['func']} *)\nDefinition gen_{target['name']} ({args} : Q) : Q :=\n  {body}.\n"


def _load_plugins():
    """Groups owned by the family builders live in harness/gen_targets_<group>.py (GROUP = "<group>", TARGETS = [...],
    optional HEADER = "From SV Require Import ...\n"); they are merged into the tables above on import."""
    import glob
    import importlib
    for path in sorted(glob.glob(os.path.join(os.path.dirname(__file__), "gen_targets_*.py"))):
        try:
            mod = importlib.import_module("harness." + os.path.basename(path)[:-3])
        except Exception:  # noqa  (a half-written plug-in must not take the other groups down; its own group then
            continue       #        raises KeyError in regenerate, i.e. is reported as a broken obligation)
        if not (getattr(mod, "GROUP", None) and isinstance(getattr(mod, "TARGETS", None), list)):
            continue
        TARGETS[mod.GROUP] = mod.TARGETS
        if getattr(mod, "HEADER", None):
            HEADERS[mod.GROUP] = mod.HEADER


_load_plugins()


def regenerate(pid, group, res):
    """Translate, compile Gen_arith.v and the group's lemma file against it. Records obligations in `res`."""
    d = os.path.join(C.BUILD, "gen", f"{pid}_{group}_{os.getpid()}")
    shutil.rmtree(d, ignore_errors=True)
    os.makedirs(d)
    proofs_src = os.path.join(C.COQ, "gen", f"GenProofs_{group}.v")
    n_obl = len(re.findall(r"^\s*(?:Theorem|Lemma)\s", open(proofs_src).read(), re.M))
    res.extra_obligations += n_obl
    if group not in TARGETS:
        res.proof_breaks.append({"what": f"target table of group {group} could not be loaded (harness/gen_targets_{group}.py)", "output": ""})
        return None
    try:
        text = "From SV Require Import Xq NNM.\n" + HEADERS.get(group, "") + "Open Scope Q_scope.\n\n" + \
            "\n".join(translate(t) for t in TARGETS[group])
    except (TranslationError, OSError, SyntaxError) as e:
        res.proof_breaks.append({"what": f"translator (fail-closed) rejected the current source for group {group}", "output": str(e)})
        return None
    gen = os.path.join(d, "Gen_arith.v")
    open(gen, "w").write(text)
    rc, out = C.coqc_file(gen, extra_q=[(d, "SVG")], timeout=300)
    if rc != 0:
        res.proof_breaks.append({"what": f"Gen_arith.v ({group}) does not compile", "output": out[-1500:], "generated": text})
        return text
    dst = os.path.join(d, f"GenProofs_{group}.v")
    shutil.copy(proofs_src, dst)
    rc, out = C.coqc_file(dst, extra_q=[(d, "SVG")], timeout=600)
    if rc != 0:
        res.proof_breaks.append({"what": f"lemmas about the regenerated definitions no longer check (GenProofs_{group}.v)",
                                 "output": out[-2000:], "generated": text})
    else:
        res.extra_discharged += n_obl
        shutil.rmtree(d, ignore_errors=True)     # kept only when something failed
    res.stats[f"regenerated definitions ({group})"] = len(TARGETS[group])
    return text
