"""C04 — RAIRE assertions, if any, are true of the CVRs with the reported tallies and exclude every other winner;
the list is empty exactly when no set of true assertions can do that."""
import itertools

from . import common as C, raire as R

ANCHORS = R.ANCHORS


def vote_cases(rng, n_random):
    """NEBAssertion / NENAssertion predicates applied to single CVRs, vs the model's vote_w / vote_l.
    Exhaustive: every partial ranking over 4 candidates x every NEB and every NEN (any eliminated subset, also ones
    containing the winner or the loser); plus random assertions on 5-6 candidates and CVRs lacking the contest."""
    _, U, _ = R.R()
    cases = []

    def mk(n, names, a, ballots):
        kind, w, l, elim = a
        obj = (U.NEBAssertion(R.CONTEST, names[w], names[l]) if kind == "NEB"
               else U.NENAssertion(R.CONTEST, names[w], names[l], [names[c] for c in elim]))
        ws, ls = [], []
        for b in ballots:
            rep = R.RANK_REPS[(len(cases) + len(ws)) % len(R.RANK_REPS)]      # rank positions in every numeric representation
            cvr = ({"other": {names[w]: 0}} if b is None
                   else {R.CONTEST: {names[c]: R.rank_value(i, rep, len(ws), len(ballots)) for i, c in enumerate(b)}})
            try:
                ws.append(bool(obj.is_vote_for_winner(cvr)))
                ls.append(bool(obj.is_vote_for_loser(cvr)))
            except Exception:  # noqa
                ws.append(None)
                ls.append(None)
        return {"a": a, "ballots": [() if b is None else b for b in ballots], "ws": ws, "ls": ls, "names": names}

    n = 4
    names = R.NAME_SCHEMES[0](n)
    bl = R.all_ballots(n) + [None]
    for w in range(n):
        for l in range(n):
            if w == l:
                continue
            cases.append(mk(n, names, ("NEB", w, l, None), bl))
            for k in range(n + 1):
                for e in itertools.combinations(range(n), k):
                    cases.append(mk(n, names, ("NEN", w, l, e), bl))
    for _ in range(n_random):
        n = rng.choice([2, 3, 5, 6])
        names = rng.choice(R.NAME_SCHEMES)(n)
        w, l = rng.sample(range(n), 2)
        if rng.random() < 0.4:
            a = ("NEB", w, l, None)
        else:
            a = ("NEN", w, l, tuple(sorted(rng.sample(range(n), rng.randint(0, n)))))
        cases.append(mk(n, names, a, [R.rand_ballot(rng, n) for _ in range(12)] + [None]))
    return cases


def vote_lit(c):
    if any(v is None for v in c["ws"] + c["ls"]):      # a predicate raised: can never agree
        ws = ls = "[]"
    else:
        ws, ls = C.listlit([C.blit(v) for v in c["ws"]]), C.listlit([C.blit(v) for v in c["ls"]])
    return (f"({C.listlit([C.listlit([str(x) for x in b]) for b in c['ballots']])}, {R.alit(*c['a'])}, {ws}, {ls})")


def vote_json(c):
    return {"assertion": C.jsonable(c["a"]), "ballots": C.jsonable(c["ballots"]), "is_vote_for_winner": c["ws"],
            "is_vote_for_loser": c["ls"]}


def run(ctx, res):
    from . import genarith
    genarith.regenerate(ctx.pid, "raire", res)   # regenerated tie: bp_estimate / cp_estimate (DESIGN 2.1)
    genarith.regenerate(ctx.pid, "raire_skeletons", res)   # whole-function skeletons of the search, tied to RaireAlgo.v
    rng = ctx.rng
    # 1. exhaustive small profiles (quick: <= 3 candidates x <= 4 ballots, every reported winner, alternating
    #    difficulty function; thorough: both functions, and 4 candidates x <= 3 ballots)
    with R.untraced():
        ex = R.exhaustive_cases(3, 4)
        if ctx.quick:
            ex = [c for i, c in enumerate(ex) if (i // 2 + i) % 2 == 0]     # one of the two difficulty functions per profile/winner
        else:
            ex += R.exhaustive_cases(4, 2)[len(R.exhaustive_cases(3, 2)):]
        # 2. random profiles, 2-6 candidates, 1-60 ballots
        rnd = [R.gen_case(rng) for _ in range(ctx.n(3200, 12000))]
    R.BUDGET["left"] = ctx.n(450, 3600)      # seconds of implementation time for the whole check
    rp = R.replay_cases(ctx)
    if rp:                      # --replay: only the recorded case(s), re-run on the current implementation
        ex, rnd = [], rp
    with R.untraced():
        seq = [] if rp else R.sequence_cases(rng, ctx.n(60, 400))
    R.run_cases(seq, rng)            # first calls of the process: sequences of calls (state must not leak between calls)
    rnd = seq + rnd
    cases = R.run_cases(ex) + R.run_cases(rnd[len(seq):], rng)
    cases = seq + cases
    cr = R.corr(ctx.pid, "raire_ex", R.IMPORTS, "raire_case", ex, R.case_lit, "agree_c04", shard=500, show="show_c04")
    res.corr.append(("compute_raire_assertions output vs verified check_output / possible (RaireCheck.v), exhaustive small profiles",
                     cr, R.case_json))
    cr = R.corr(ctx.pid, "raire_rnd", R.IMPORTS, "raire_case", rnd, R.case_lit, "agree_c04", shard=40, show="show_c04")
    res.corr.append(("compute_raire_assertions output vs verified check_output / possible (RaireCheck.v), random profiles",
                     cr, R.case_json))
    # a few LARGE profiles (10 000 - 30 000 ballots, few ballot types, one- or two-vote margins)
    with R.untraced():
        big = [] if rp else [R.large_case(rng) for _ in range(ctx.n(8, 60))]
    R.run_cases(big, rng)
    cases = cases + big
    cr = R.corr(ctx.pid, "raire_big", R.IMPORTS, "raire_case", big, R.case_lit, "agree_c04", shard=1, show="show_c04")
    res.corr.append(("compute_raire_assertions output vs verified check_output / possible (RaireCheck.v), large profiles",
                     cr, R.case_json))
    # the search itself, output for output, against the fuelled model RaireAlgo.raire (exact difficulties)
    ac = R.algo_cases(ex, rng) + R.algo_cases(rnd, rng)
    acb = R.algo_cases(big, rng)
    cr = R.corr(ctx.pid, "algo_big", R.IMPORTS, "raire_case * list cand", acb, R.algo_lit, "agree_algo", shard=1, show="show_algo")
    res.corr.append(("compute_raire_assertions assertion list vs RaireAlgo.raire (model of the search), large profiles", cr, R.case_json))
    res.evaluations += len(acb)
    cr = R.corr(ctx.pid, "algo", R.IMPORTS, "raire_case * list cand", ac, R.algo_lit, "agree_algo", shard=250, show="show_algo")
    res.corr.append(("compute_raire_assertions assertion list vs RaireAlgo.raire (model of the search)", cr, R.case_json))
    res.evaluations += len(ac)
    vc = vote_cases(rng, ctx.n(300, 3000))
    cr2 = R.corr(ctx.pid, "votes", R.IMPORTS, "list ballot * assertion * list bool * list bool", vc, vote_lit,
                     "agree_votes", shard=250, show="show_votes")
    res.corr.append(("NEBAssertion/NENAssertion.is_vote_for_winner/loser vs Irv.vote_w/vote_l", cr2, vote_json))
    res.evaluations += len(cases) + len(vc)

    # 3. oracle on the implementation alone (brute force over all n! orders; n <= 5 for the emptiness search)
    for c in cases:
        res.oracle_runs += 1
        with R.untraced():
            whats = R.oracle_c04(c, want_brute=c["n"] <= 5)
        for what in whats:
            res.oracle_violations.append({"what": what, "input": R.case_json(c), "observed": C.jsonable(c["impl"]["out"]),
                                          "signature": f"C04:{what}"})
        out = c["impl"]["out"]
        if c["n"] >= 3 and (out or c.get("tag", "").split("/")[1:2] in (["wrong"], ["tied"])):
            res.nontrivial.add(R.digest(c))
    res.rule = ("every multiset of <= 4 partial rankings over 2-3 candidates x every reported winner (exhaustive), plus random "
                "profiles (12 styles incl. forced ties with and without a clear favourite, near-ties, cycles, spatial, doubling ladders, blanks, CVRs lacking the contest, tot_ballots above the "
                "CVR count) of 2-6 candidates and 1-60 ballots with right / wrong / tied reported winners, bp and cp difficulty "
                "(shipped float functions and Fraction-valued ones), five kinds of order hint or none, 10% second call on the same "
                "objects; non-trivial = >= 3 candidates and (non-empty output, or wrong/tied winner), distinct by "
                "(profile, total, winner, function, hint)")
    res.samples = [R.case_json(c) for c in rnd[:4]]
    res.stats = R.stats(cases)
    res.exhaustive = True
    res.assumptions = [
        "theorems: the verified checkers (suff_dec, check_output, possible), and the fuelled model RaireAlgo.raire of "
        "the search itself (non-empty result => check_output accepts it; empty result <=> possible = false; for all "
        "inputs; tied to compute_raire_assertions output-for-output by Run_Raire.agree_algo on every run); NOT proved about "
        "the model: that the constant default_fuel suffices (termination itself is proved: some fuel suffices; exhaustion is reported as a disagreement)",
        "ballots are duplicate-free rankings with positions 0,1,2,... (what load_contests_from_raire builds); ballots "
        "with repeated positions or candidates outside the contest are outside the model",
    ]
