"""C14 — RAIRE (shangrla.raire) and the audit (shangrla.core) interpret every ranked ballot identically.

Correspondence (model IrvRead.v vs the real code), four streams:
  sweep   exhaustive: every partial ranking (every length 0..n, every order) of n candidates, written as RAIRE text and
          read by BOTH real readers, x every (w, l, E) with w != l, w,l not in E: the assorters built by
          Assertion.make_assertions_from_json vs the model, NEBAssertion/NENAssertion.is_vote_for_* vs the model,
          both readers' rank dicts vs the model; repeated for several shapes of candidate identifiers
  wide    6..10 candidates (too many to enumerate): random partial rankings x random (w, l, E), same comparisons
  dicts   rank dicts written directly (falsy ranks, absent candidates / contest, gaps, duplicate ranks, w == l,
          w in E, unknown candidates, odd `candidates` lists) incl. direct calls of rcv_lfunc_wo / rcv_votefor_cand
  files   RAIRE text with several contests having different candidate lists, repeated ballot ids, a contest repeated
          for one ballot id, winner/order/informal header fields, plus out-of-domain lines (unlisted candidates,
          duplicates in a ranking): CVR.from_raire(_file) and load_contests_from_raire vs the model
  tally   compute_raire_assertions on random profiles: stored contest key, votes_for_winner/loser and the re-applied
          sums of each returned assertion vs the generator model
Oracle (implementation alone): assort_audit == (w_raire - l_raire + 1)/2 on the whole sweep and end to end on the
files; both readers give every in-domain ballot line the same preference order (the line's); re-tally equality and
the audit-side mean of every returned assertion."""
import itertools
import os
import tempfile
from fractions import Fraction as F

from . import common as C, genarith

IMPORTS = "From SV Require Import Run_IrvRead.\nOpen Scope Z_scope."
ANCHORS = [("shangrla/core/Audit.py", ["CVR.get_vote_for", "CVR.rcv_lfunc_wo", "CVR.rcv_votefor_cand",
                                       "Assertion.make_assertions_from_json", "Assorter.__init__", "CVR.from_raire",
                                       "CVR.from_raire_file", "CVR.merge_cvrs", "CVR.from_vote"]),
           ("shangrla/raire/raire_utils.py", ["ranking", "vote_for_cand", "RaireAssertion.__init__",
                                              "NEBAssertion.__init__", "NEBAssertion.is_vote_for_winner",
                                              "NEBAssertion.is_vote_for_loser", "NENAssertion.__init__",
                                              "NENAssertion.is_vote_for_winner", "NENAssertion.is_vote_for_loser",
                                              "load_contests_from_raire", "find_best_audit"]),
           ("shangrla/raire/raire.py", ["compute_raire_assertions"])]

# candidate identifiers of awkward shapes: plain; numeric strings that are substrings / prefixes of one another;
# identifiers with inner spaces that collide with joins of other identifiers; zero-like and mixed
ID_SETS = [
    ["A", "B", "C", "D", "E"],
    ["1", "12", "2", "121", "21"],
    ["1", "2", "1 2", "2 1", "1 2 1"],
    ["0", "00", "10", "0 1", "01"],
    ["Ann Lee", "Ann", "Lee", "ann", "An"],
]
FOREIGN = 4999          # key for "the contest field of the assertion is not the contest's name"


def impl():
    from shangrla.core import Audit as A
    from shangrla.raire import raire_utils as RU
    from shangrla.raire import raire as RR
    return A, RU, RR


# ---------------------------------------------------------------- Coq literals
def klit(k):
    return C.natlit(k)


def klist(ks):
    return C.listlit([klit(k) for k in ks])


def rdict_lit(d):
    return C.listlit([f"({klit(k)}, {C.zlit(v)})" for k, v in d])


def cvr_lit(v):
    return C.listlit([f"({klit(k)}, {rdict_lit(d)})" for k, d in v])


def cvrs_lit(vs):
    return C.listlit([f"({klit(k)}, {cvr_lit(v)})" for k, v in vs])


def jlit(a):
    if a[0] == "NEB":
        return f"(JNEB {klit(a[1])} {klit(a[2])})"
    return f"(JNEN {klit(a[1])} {klit(a[2])} {klist(a[3])})"


def rlit(a):
    if a[0] == "NEB":
        return f"(RNEB {klit(a[1])} {klit(a[2])} {klit(a[3])})"
    return f"(RNEN {klit(a[1])} {klit(a[2])} {klit(a[3])} {klist(a[4])})"


def ballot_lit(c):
    outs = C.listlit([f"({jlit(a)}, {C.qlit(av)}, {C.zlit(gw)}, {C.zlit(gl)})" for a, av, gw, gl in c["outs"]])
    calls = C.listlit([(f"(inl ({klit(k[1])}, {klit(k[2])}), {C.zlit(z)})" if k[0] == "L" else
                        f"(inr ({klit(k[1])}, {klist(k[2])}), {C.zlit(z)})") for k, z in c["calls"]])
    return (f"(mkballot {klit(c['cid'])} {klist(c['cands'])} {klist(c['gcands'])} {C.optlit(c['rank'], klist)} "
            f"{cvr_lit(c['avotes'])} {cvr_lit(c['gvotes'])} {outs} {calls})")


def tok_lit(t):
    return f"(mktok {klit(t[0])} {C.optlit(t[1], C.zlit)})"


def file_lit(c):
    rows = C.listlit([C.listlit([tok_lit(t) for t in r]) for r in c["rows"]])
    cons = C.listlit([f"({klit(n)}, ({klist(cs)}, {C.zlit(tb)}))" for n, cs, tb in c["contests"]])
    return f"(mkfile {rows} {cvrs_lit(c['audit'])} {cons} {cvrs_lit(c['gen'])})"


def tally_lit(c):
    asr = C.listlit([f"({rlit(a)}, ({C.zlit(vw)}, {C.zlit(vl)}), ({C.zlit(rw)}, {C.zlit(rl)}))"
                     for a, vw, vl, rw, rl in c["asrts"]])
    return f"(mktally {klit(c['name'])} {cvrs_lit(c['cvrs'])} {asr})"


def case_json(c):
    return C.jsonable(c.get("json", c))


# ---------------------------------------------------------------- helpers around the implementation
def intval(v):
    """model value of an audit-side rank: every falsy value is 0, True is 1"""
    return int(v) if v else 0


def audit_contest(A, cid, cands, cards=100):
    return A.Contest.from_dict({"id": cid, "name": cid, "risk_limit": 0.05, "cards": cards,
                                "choice_function": A.Contest.SOCIAL_CHOICE_FUNCTION.IRV, "n_winners": 1,
                                "candidates": list(cands), "winner": [cands[0]] if cands else [],
                                "audit_type": A.Audit.AUDIT_TYPE.CARD_COMPARISON, "use_style": True})


def json_of(a):
    """a = ("NEB", w, l) | ("NEN", w, l, [E]) over identifier strings -> RAIRE-style json assertion"""
    if a[0] == "NEB":
        return {"winner": a[1], "loser": a[2], "assertion_type": "WINNER_ONLY", "already_eliminated": ""}
    return {"winner": a[1], "loser": a[2], "assertion_type": "IRV_ELIMINATION", "already_eliminated": list(a[3])}


CURRENT_RES = [None]


def label_of(a):
    if a[0] == "NEB":
        return a[1] + " v " + a[2]
    return a[1] + " v " + a[2] + " elim " + " ".join(a[3])


def build_assorters(A, con, candidates, asrts):
    """make_assertions_from_json on as many assertions per call as have distinct labels (the returned dict is keyed by
    label; identifiers with spaces can make two labels coincide).  Returns the assort callables, aligned."""
    out = [None] * len(asrts)
    todo = list(range(len(asrts)))
    while todo:
        batch, seen, rest = [], set(), []
        for i in todo:
            lab = label_of(asrts[i])
            (rest if lab in seen else batch).append(i)
            seen.add(lab)
        made = A.Assertion.make_assertions_from_json(contest=con, candidates=list(candidates),
                                                     json_assertions=[json_of(asrts[i]) for i in batch])
        if len(made) != len(batch) and CURRENT_RES[0] is not None:
            # every assertion of the generator must get an assorter: an entry lost to a colliding dict key is an
            # assertion the audit never tests (on the unchanged tree the labels of a batch are pairwise different)
            CURRENT_RES[0].oracle_violations.append({
                "what": "make_assertions_from_json returned fewer assertions than the pairwise different JSON assertions it was given",
                "input": {"contest": con.id, "candidates": list(candidates), "json_assertions": [json_of(asrts[i]) for i in batch]},
                "observed": {"returned_labels": sorted(map(str, made)), "given": len(batch)},
                "signature": "C14:assertion-lost"})
        for i in batch:
            lab = label_of(asrts[i])
            if len(made) == len(batch) and lab in made:
                out[i] = made[lab].assorter
            else:       # the label format is not the harness's business: build this one alone and take the only entry
                one = A.Assertion.make_assertions_from_json(contest=con, candidates=list(candidates),
                                                            json_assertions=[json_of(asrts[i])])
                out[i] = next(iter(one.values())).assorter
        todo = rest
    return out


def raire_obj(RU, cid, a):
    if a[0] == "NEB":
        return RU.NEBAssertion(cid, a[1], a[2])
    return RU.NENAssertion(cid, a[1], a[2], list(a[3]))


def all_assertions(cands, rng=None):
    """every (w, l, E) with w != l and w, l not in E (E listed in a random order when rng is given); plus the NEB for
    every (w, l)"""
    res = []
    for w in cands:
        for l in cands:
            if w == l:
                continue
            res.append(("NEB", w, l))
            rest = [c for c in cands if c not in (w, l)]
            for k in range(len(rest) + 1):
                for E in itertools.combinations(rest, k):
                    E = list(E)
                    if rng is not None:
                        rng.shuffle(E)
                    res.append(("NEN", w, l, E))
    return res


def partial_rankings(cands):
    for k in range(len(cands) + 1):
        yield from itertools.permutations(cands, k)


def write_tmp(text):
    fd, path = tempfile.mkstemp(suffix=".raire", dir="/dev/shm" if os.path.isdir("/dev/shm") else None)
    with os.fdopen(fd, "w") as fh:
        fh.write(text)
    return path


def read_both(A, RU, text):
    path = write_tmp(text)
    try:
        acvrs, _, _ = A.CVR.from_raire_file(path)
        contests, gcvrs = RU.load_contests_from_raire(path)
    finally:
        os.unlink(path)
    return acvrs, contests, gcvrs


# ---------------------------------------------------------------- numeric representations of a rank / index
# CVR's docstring: a rank is whatever int(get_vote_for(..)) converts (CVR.as_rank = int(v)); generator indices are
# compared with ==, < only.  So every integral numeric type is a legal carrier; the model and the oracles see int(v).
def _reps():
    import numpy as np
    return {"int": int, "np.int64": np.int64, "np.int32": np.int32, "np.int8": np.int8, "float": float,
            "np.float64": np.float64}


REP_NAMES = ["int", "np.int64", "np.int32", "np.int8", "float", "np.float64"]


def pick_rep(rng, p_plain=0.4):
    """one representation for a whole ballot (or world): plain as produced, one numeric type, or mixed per value"""
    u = rng.random()
    if u < p_plain:
        return "asis"
    return rng.choice(REP_NAMES[1:] + ["mixed", "mixed"])


def rerep(d, how, rng, audit):
    """the same rank / index dict with its values carried by other numeric types.  Falsy non-numeric audit-side
    values (None, '') are left alone; on the audit side rank 1 may also be True (get_vote_for(..) == 1 holds)."""
    if how == "asis":
        return d
    R = _reps()
    out = {}
    for c, v in d.items():
        if v is None or isinstance(v, str):
            out[c] = v
            continue
        h = rng.choice(REP_NAMES) if how == "mixed" else how
        if how == "mixed" and audit and int(v) == 1 and rng.random() < 0.2:
            out[c] = True
        else:
            out[c] = R[h](int(v))
    return out


def rekey(d, rng):
    """the same mapping with its keys inserted in another order: a ballot is a mapping candidate -> rank / index, and
    what it says must not depend on the order in which a reader (or a caller) happened to insert the candidates"""
    ks = list(d)
    rng.shuffle(ks)
    return {k: d[k] for k in ks}


def rekey_pair(A, av, gv, rng):
    """for the evaluations only (the readers' dicts are compared with the model in their own order): each side's
    mappings re-inserted in another key order, half of the time"""
    if rng.random() < 0.5:
        av = A.CVR(id=av.id, votes={k: rekey(d, rng) for k, d in av.votes.items()})
    if rng.random() < 0.5:
        gv = {k: rekey(d, rng) for k, d in gv.items()}
    return av, gv


def rerep_cvr(A, cvr, how, rng):
    if how == "asis":
        return cvr
    return A.CVR(id=cvr.id, votes={k: rerep(d, how, rng, True) for k, d in cvr.votes.items()})


def rerep_gcvr(gv, how, rng):
    if how == "asis":
        return gv
    return {k: rerep(d, how, rng, False) for k, d in gv.items()}


def order_of(d):
    """preference order encoded by a rank / index dict"""
    return [c for c, _ in sorted(d.items(), key=lambda kv: kv[1])]


# ---------------------------------------------------------------- stream 1: exhaustive sweep
WIDE_IDS = ["1", "12", "123", "2", "23", "3", "31", "4", "41", "1 2"]


def sweep(ctx, res, A, RU, ids, n, si, sample=None):
    """sample=None: all partial rankings x all assertions.  sample=(nb, na): nb random partial rankings x na random
    assertions (for candidate sets too large to enumerate)."""
    cands = ids[:n]
    cid = ["C", "1", "C 1", "0", "Ann"][si % 5]      # contest id sometimes equal to a candidate id
    K = {c: 10 + i for i, c in enumerate(ids)}
    kc = 5
    if sample is None:
        ranks = list(partial_rankings(cands))
        ctx.rng.shuffle(ranks)
    else:
        ranks = [tuple(ctx.rng.sample(cands, ctx.rng.randint(0, n))) for _ in range(sample[0])]
    lines = ["1", ",".join(["Contest", cid, str(n)] + cands + ["winner", cands[0]])]
    lines += [",".join([cid, f"b{j}"] + list(r)) for j, r in enumerate(ranks)]
    acvrs, contests, gcvrs = read_both(A, RU, "\n".join(lines) + "\n")
    amap = {c.id: c for c in acvrs}
    if sample is None:
        asrts = all_assertions(cands, ctx.rng)
    else:
        asrts = []
        for _ in range(sample[1]):
            w, l = ctx.rng.sample(cands, 2)
            rest = [c for c in cands if c not in (w, l)]
            u = ctx.rng.random()
            k = len(rest) if u < 0.15 else (len(rest) - 1 if u < 0.3 else ctx.rng.randint(0, len(rest)))
            asrts.append(("NEB", w, l) if ctx.rng.random() < 0.2 else ("NEN", w, l, ctx.rng.sample(rest, k)))
    jcands = list(cands)
    ctx.rng.shuffle(jcands)                            # order of `candidates` must not matter
    con = audit_contest(A, cid, cands)
    assorters = build_assorters(A, con, jcands, asrts)
    robjs = [raire_obj(RU, cid, a) for a in asrts]
    kas = [(a[0], K[a[1]], K[a[2]]) + (([K[e] for e in a[3]],) if a[0] == "NEN" else ()) for a in asrts]
    cases = []
    # numeric carrier of the ranks: one choice for the whole world (25%), else chosen per ballot and per side
    world = (pick_rep(ctx.rng, 0.0), pick_rep(ctx.rng, 0.0)) if ctx.rng.random() < 0.25 else None
    for j, r in enumerate(ranks):
        bid = f"b{j}"
        av, gv = amap.get(bid), gcvrs.get(bid)
        how_a, how_g = world if world else (pick_rep(ctx.rng), pick_rep(ctx.rng))
        if av is not None and gv is not None:
            av, gv = rerep_cvr(A, av, how_a, ctx.rng), rerep_gcvr(gv, how_g, ctx.rng)
            res.stats_reps[how_a] = res.stats_reps.get(how_a, 0) + 1
        res.oracle_runs += 1
        if av is None or gv is None:
            res.oracle_violations.append({
                "what": "a reader of the RAIRE format lost a ballot line",
                "input": {"header": lines[1], "line": lines[2 + j]},
                "observed": {"CVR.from_raire has it": av is not None, "load_contests_from_raire has it": gv is not None},
                "signature": "C14:readers-lost-ballot"})
            continue
        outs = []
        av_e, gv_e = rekey_pair(A, av, gv, ctx.rng)
        for a, ka, asr, ro in zip(asrts, kas, assorters, robjs):
            x, gw, gl = asr.assort(av_e), ro.is_vote_for_winner(gv_e), ro.is_vote_for_loser(gv_e)
            outs.append((ka, x, gw, gl))
            res.oracle_runs += 1
            if F(x) != F(gw - gl + 1, 2):
                res.oracle_violations.append({
                    "what": f"{a[0]} assorter value differs from (w - l + 1)/2 of the generator's own verdicts",
                    "input": {"candidates": cands, "ballot_ranking": list(r), "assertion": json_of(a),
                              "contest": cid, "cvr_votes": repr(av_e.votes), "raire_cvr": repr(gv_e)},
                    "observed": {"assort_audit": x, "raire_is_vote_for_winner": gw, "raire_is_vote_for_loser": gl},
                    "signature": f"C14:assort-vs-raire:{a[0]}"})
            if a[1] in r or a[2] in r:
                res.nontrivial.add((si, n, r, ka[0], ka[1], ka[2], tuple(ka[3]) if len(ka) > 3 else None))
        # readers (oracle): the same preference order, namely the line's
        res.oracle_runs += 1
        ao = order_of(av.votes.get(cid, {}))
        go = order_of(gv.get(cid, {}))
        if ao != go or ao != list(r):
            res.oracle_violations.append({
                "what": "the two readers of the RAIRE format give a ballot line different preference orders",
                "input": {"header": lines[1], "line": lines[2 + j]},
                "observed": {"CVR.from_raire": ao, "load_contests_from_raire": go},
                "signature": "C14:readers-order"})
        cases.append({"cid": kc, "cands": [K[c] for c in jcands], "gcands": [K[c] for c in cands],
                      "rank": [K[c] for c in r],
                      "avotes": [(kc if k == cid else 6, [(K.get(c, 99), intval(v)) for c, v in d.items()])
                                 for k, d in av.votes.items()],
                      "gvotes": [(kc if k == cid else 6, [(K.get(c, 99), int(v)) for c, v in d.items()])
                                 for k, d in gv.items()],
                      "outs": outs, "calls": [],
                      "json": {"ids": ids, "n": n, "contest": cid, "ranking": list(r),
                               "stream": "sweep" if sample is None else "wide"}})
    return cases


# ---------------------------------------------------------------- stream 2: rank dicts written directly
FALSY = [0, False, None, ""]


def dict_case(ctx, A, RU, ids):
    rng = ctx.rng
    n = rng.randint(2, 5)
    cands = ids[:n]
    K = {c: 10 + i for i, c in enumerate(ids)}
    K["zz"] = 30
    pool = cands + ["zz"]
    cid, other = "C", "D"
    # audit-side rank dict
    ad = {}
    for c in rng.sample(pool, rng.randint(0, len(pool))):
        u = rng.random()
        ad[c] = rng.choice(FALSY) if u < 0.2 else (True if u < 0.25 else rng.randint(1, n + 1))
    gd = {}
    for c in rng.sample(pool, rng.randint(0, len(pool))):
        gd[c] = rng.randint(0, n)
    ad, gd = rerep(ad, pick_rep(rng), rng, True), rerep(gd, pick_rep(rng), rng, False)
    has_a, has_g = rng.random() < 0.85, rng.random() < 0.85
    avotes = {cid: ad} if has_a else {}
    if rng.random() < 0.4:
        avotes[other] = {cands[0]: 1}
    gvotes = {cid: gd} if has_g else {}
    if rng.random() < 0.4:
        gvotes[other] = {cands[0]: 0}
    cvr = A.CVR(id="x", votes=avotes)
    # `candidates` handed to make_assertions_from_json: usually the contest's, sometimes odd
    jc = list(cands)
    u = rng.random()
    if u < 0.15:
        jc = jc + [rng.choice(pool)]
    elif u < 0.3:
        jc = rng.sample(jc, rng.randint(0, len(jc)))
    rng.shuffle(jc)
    asrts = []
    for _ in range(rng.randint(4, 12)):
        w, l = rng.choice(pool), rng.choice(pool)
        if rng.random() < 0.5:
            asrts.append(("NEB", w, l))
        else:
            E = rng.sample(pool, rng.randint(0, len(pool)))
            if E and rng.random() < 0.15:
                E.insert(rng.randint(0, len(E)), rng.choice(E))
            asrts.append(("NEN", w, l, E))
    # a world whose candidate ids are ints: make_assertions_from_json concatenates ids into labels (str only), so
    # there only the CVR methods are called directly, on a CVR keyed by ints
    int_ids = rng.random() < 0.15
    if int_ids:
        I = {c: 100 + i for i, c in enumerate(pool)}
        cvr = A.CVR(id="x", votes={k: {I[c]: v for c, v in d.items()} if k == cid else d for k, d in avotes.items()})
        asrts = []
    else:
        I = {c: c for c in pool}
    con = audit_contest(A, cid, cands)
    assorters = build_assorters(A, con, jc, asrts)
    outs = []
    for a, asr in zip(asrts, assorters):
        ro = raire_obj(RU, cid, a)
        ka = (a[0], K[a[1]], K[a[2]]) + (([K[e] for e in a[3]],) if a[0] == "NEN" else ())
        outs.append((ka, asr.assort(cvr), ro.is_vote_for_winner(gvotes), ro.is_vote_for_loser(gvotes)))
    calls = []
    for _ in range(rng.randint(2, 6) * (3 if int_ids else 1)):
        if rng.random() < 0.4:
            w, l = rng.choice(pool), rng.choice(pool)
            calls.append((("L", K[w], K[l]), cvr.rcv_lfunc_wo(cid, I[w], I[l])))
        else:
            c = rng.choice(pool)
            rem = rng.sample(pool, rng.randint(0, len(pool)))
            if rng.random() < 0.2 and rem:
                rem = rem + [rem[0]]
            calls.append((("V", K[c], [K[x] for x in rem]), cvr.rcv_votefor_cand(cid, I[c], [I[x] for x in rem])))
    kk = {cid: 5, other: 6}
    return {"cid": 5, "cands": [K[c] for c in jc], "gcands": [K[c] for c in cands], "rank": None,
            "avotes": [(kk[k], [(K[c], intval(v)) for c, v in d.items()]) for k, d in avotes.items()],
            "gvotes": [(kk[k], [(K[c], int(v)) for c, v in d.items()]) for k, d in gvotes.items()],
            "outs": outs, "calls": calls,
            "json": {"stream": "dicts", "candidates": jc, "cvr_votes": repr(cvr.votes), "raire_cvr": repr(gvotes),
                     "assertions": [json_of(a) for a in asrts]}}


# ---------------------------------------------------------------- stream 3: RAIRE text files through both readers
class Keys:
    """strings -> model keys; 0/1/2 are the reserved header words"""

    def __init__(self):
        self.k = {"winner": 0, "order": 1, "informal": 2}

    def __call__(self, s):
        return self.k.setdefault(s, len(self.k) + 7)

    def tok(self, s):
        s = s.strip()
        try:
            v = int(s)
        except ValueError:
            v = None
        return (self(s), v)


def gen_file(rng, ids, profile=False):
    """Returns (text, meta) with meta = list of (cid, cands) and the ballot lines as (cid, bid, ranking, in_domain)."""
    ncon = rng.choice([1, 2, 2, 3, 3])
    cids = rng.sample(["C1", "C 2", "1", "contest three", "12", "A"], ncon)
    contests, header = [], []
    for cid in cids:
        n = rng.randint(3, 5) if profile else rng.randint(1, 5)
        cands = rng.sample(ids, n)
        contests.append((cid, cands))
        h = ["Contest", cid, str(n)] + cands + ["winner", rng.choice(cands)]
        u = rng.random()
        if u < 0.5:
            h += ["order"] + rng.sample(cands, len(cands))
        if rng.random() < 0.5:
            h += ["informal", str(rng.randint(0, 12))]
        header.append(",".join(h))
    nb = rng.randint(8, 40) if profile else rng.randint(0, 14)
    bids = [rng.choice(["b", "", "1", "x "]).strip() + str(i) for i in range(max(1, nb // 2 + 1))]
    if rng.random() < 0.5:
        bids.append(cids[0])                                    # a ballot id equal to a contest id
    blines = []
    for _ in range(nb):
        cid, cands = rng.choice(contests)
        bid = rng.choice(bids)
        if profile:
            # skewed towards the first candidates so that a winner usually exists
            wts = [2 ** (len(cands) - i) for i in range(len(cands))]
            r = []
            for _k in range(rng.randint(0 if rng.random() < 0.1 else 1, len(cands))):
                c = rng.choices(cands, wts)[0]
                if c not in r:
                    r.append(c)
            ok = True
        else:
            r = rng.sample(cands, rng.randint(0, len(cands)))
            ok = True
            u = rng.random()
            if u < 0.10:
                r.insert(rng.randint(0, len(r)), rng.choice(ids + ["write in"]))   # maybe unlisted / duplicate
            elif u < 0.18 and r:
                r.insert(rng.randint(0, len(r)), rng.choice(r))                      # duplicate
            ok = len(set(r)) == len(r) and all(c in cands for c in r)
        blines.append((cid, bid, r, ok))
    text = "\n".join([str(ncon)] + header + [",".join([cid, bid] + r) for cid, bid, r, _ in blines]) + "\n"
    return text, contests, blines


def file_case(ctx, res, A, RU, ids):
    rng = ctx.rng
    text, contests, blines = gen_file(rng, ids)
    acvrs, gcons, gcvrs = read_both(A, RU, text)
    rows_str = [ln.split(",") for ln in text.split("\n")[:-1]]
    acvrs2, _ = A.CVR.from_raire([list(r) for r in rows_str])
    key = Keys()
    rows = [[key.tok(t) for t in r] for r in rows_str]

    def amodel(cvrs):
        return [(key(str(c.id)), [(key(k), [(key(x), intval(v)) for x, v in d.items()]) for k, d in c.votes.items()])
                for c in cvrs]
    gen = [(key(b), [(key(k), [(key(x), int(v)) for x, v in d.items()]) for k, d in v.items()])
           for b, v in gcvrs.items()]
    cons = [(key(c.name), [key(x) for x in c.candidates], int(c.tot_ballots)) for c in gcons]
    js = {"stream": "files", "text": text}
    cases = [{"rows": rows, "audit": amodel(acvrs), "contests": cons, "gen": gen, "json": js}]
    if amodel(acvrs2) != amodel(acvrs):
        cases.append({"rows": rows, "audit": amodel(acvrs2), "contests": cons, "gen": gen,
                      "json": dict(js, via="CVR.from_raire on pre-split rows")})
    # ---- oracle: every in-domain ballot line that is the last for its (contest, ballot id)
    amap = {str(c.id): c for c in acvrs}
    last = {}
    for cid, bid, r, ok in blines:
        last[(cid, bid)] = (r, ok)
    cmap = dict(contests)
    for (cid, bid), (r, ok) in last.items():
        if not ok:
            continue
        res.oracle_runs += 1
        a = amap.get(bid)
        ao = order_of(a.votes.get(cid, {})) if a is not None and cid in a.votes else None
        go = order_of(gcvrs[bid][cid]) if bid in gcvrs and cid in gcvrs[bid] else None
        if ao != go or ao != r:
            res.oracle_violations.append({
                "what": "the two readers of the RAIRE format give a ballot line different preference orders",
                "input": {"text": text, "contest": cid, "ballot_id": bid, "ranking": r},
                "observed": {"CVR.from_raire": ao, "load_contests_from_raire": go},
                "signature": "C14:readers-order"})
    # ---- oracle, end to end: assorter on the audit's CVR vs generator predicates on the generator's cvr
    for cid, cands in contests:
        asrts = all_assertions(cands, rng)
        if len(asrts) > 40:
            asrts = rng.sample(asrts, 40)
        if not asrts:
            continue
        con = audit_contest(A, cid, cands)
        assorters = build_assorters(A, con, cands, asrts)
        robjs = [raire_obj(RU, cid, a) for a in asrts]
        for bid in sorted(set(b for _, b, _, _ in blines)):
            if (cid, bid) in last and not last[(cid, bid)][1]:
                continue                                      # out-of-domain line: no claim
            av, gv = amap.get(bid), gcvrs.get(bid)
            if av is None or gv is None:
                continue
            av, gv = rerep_cvr(A, av, pick_rep(rng), rng), rerep_gcvr(gv, pick_rep(rng), rng)
            av, gv = rekey_pair(A, av, gv, rng)
            for a, asr, ro in zip(asrts, assorters, robjs):
                res.oracle_runs += 1
                x, gw, gl = asr.assort(av), ro.is_vote_for_winner(gv), ro.is_vote_for_loser(gv)
                if F(x) != F(gw - gl + 1, 2):
                    res.oracle_violations.append({
                        "what": f"{a[0]} assorter on the audit's reading of a RAIRE file differs from (w - l + 1)/2 of "
                                "the generator's verdicts on its own reading",
                        "input": {"text": text, "contest": cid, "candidates": cands, "ballot_id": bid,
                                  "assertion": json_of(a), "cvr_votes": repr(av.votes), "raire_cvr": repr(gv)},
                        "observed": {"assort_audit": x, "raire_w": gw, "raire_l": gl},
                        "signature": f"C14:file-assort-vs-raire:{a[0]}"})
    res.nontrivial.add(("file", text))
    return cases


# ---------------------------------------------------------------- stream 4: re-tally of generated assertions
def irv_winner(cands, ballots):
    """plain IRV count; None on any tie for elimination"""
    standing = list(cands)
    while len(standing) > 1:
        t = {c: 0 for c in standing}
        for b in ballots:
            for c in b:
                if c in t:
                    t[c] += 1
                    break
        lo = min(t.values())
        losers = [c for c in standing if t[c] == lo]
        if len(losers) > 1:
            return None
        standing.remove(losers[0])
    return standing[0] if standing else None


def other_profile(rng, con, bids):
    """another random profile over the contest's candidates (some ballot ids shared with the profile under test)"""
    cands = list(con.candidates)
    rng.shuffle(cands)
    wts = [2 ** (len(cands) - i) for i in range(len(cands))]
    prof = {}
    for i in range(rng.randint(5, 40)):
        r = []
        for _ in range(rng.randint(1, len(cands))):
            c = rng.choices(cands, wts)[0]
            if c not in r:
                r.append(c)
        bid = bids[i] if i < len(bids) and rng.random() < 0.6 else f"h{i}"
        prof[bid] = {con.name: {c: k for k, c in enumerate(r)}}
    return prof


def tally_cases(ctx, res, A, RU, RR, ids):
    rng = ctx.rng
    stats_hist = res.stats.setdefault("re-tally worlds with an earlier search", {})
    text, contests, blines = gen_file(rng, ids, profile=True)
    acvrs, gcons, gcvrs = read_both(A, RU, text)
    world = (pick_rep(rng, 0.3), pick_rep(rng, 0.3)) if rng.random() < 0.5 else None
    acvrs = [rerep_cvr(A, c, world[0] if world else pick_rep(rng), rng) for c in acvrs]
    gcvrs = {b: rerep_gcvr(v, world[1] if world else pick_rep(rng), rng) for b, v in gcvrs.items()}
    key = Keys()
    cvrs_model = [(key(b), [(key(k), [(key(x), int(v)) for x, v in d.items()]) for k, d in v.items()])
                  for b, v in gcvrs.items()]
    names = {c.name for c in gcons}
    cases = []
    for con in gcons:
        ballots = [order_of(v[con.name]) for v in gcvrs.values() if con.name in v]
        w = irv_winner(con.candidates, ballots)
        if w is None:
            continue
        asn = lambda tw, tl, to, tot: F(tot, tw - tl)   # noqa: E731
        # history on shared state: in half of the worlds the SAME Contest object is first searched with another random
        # profile over the same candidates (in half of those through the same cvrs dict and ballot dict objects, then
        # mutated in place to the profile under test); everything below applies to the second call as to a fresh one
        hist = rng.choice([None, None, "same Contest object", "same Contest, cvrs and ballot dict objects"])
        use = gcvrs
        if hist:
            other = other_profile(rng, con, list(gcvrs))
            w0 = irv_winner(con.candidates, [order_of(v[con.name]) for v in other.values() if con.name in v])
            RR.compute_raire_assertions(con, other, w0 if w0 is not None else rng.choice(con.candidates), asn, False)
            if hist.endswith("objects"):
                keep = {b: v for b, v in other.items()}
                other.clear()
                for b, v in gcvrs.items():
                    if b in keep:                       # reuse the card's dict and its ballot dict objects
                        card = keep[b]
                        inner = card.get(con.name)
                        card.clear()
                        for k, d in v.items():
                            if k == con.name and inner is not None:
                                inner.clear()
                                inner.update(d)
                                card[k] = inner
                            else:
                                card[k] = d
                        other[b] = card
                    else:
                        other[b] = v
                use = other
            stats_hist[hist] = stats_hist.get(hist, 0) + 1
        out = RR.compute_raire_assertions(con, use, w, asn, False)
        asrts, jas = [], []
        for a in out:
            if a is None:
                continue
            ck = key(a.contest) if isinstance(a.contest, str) and a.contest in names else FOREIGN
            rw = sum(a.is_vote_for_winner(v) for v in use.values())
            rl = sum(a.is_vote_for_loser(v) for v in use.values())
            vw, vl = int(a.votes_for_winner), int(a.votes_for_loser)
            neb = type(a).__name__ == "NEBAssertion"
            ja = ("NEB", a.winner, a.loser) if neb else ("NEN", a.winner, a.loser, list(a.eliminated))
            asrts.append((("NEB", ck, key(a.winner), key(a.loser)) if neb else
                          ("NEN", ck, key(a.winner), key(a.loser), [key(e) for e in a.eliminated]), vw, vl, rw, rl))
            jas.append((ja, vw, vl))
            res.oracle_runs += 1
            if (rw, rl) != (vw, vl):
                res.oracle_violations.append({
                    "what": f"{ja[0]} assertion returned by compute_raire_assertions does not reproduce its reported "
                            "tallies when re-applied to the CVRs through its own predicates",
                    "input": {"text": text, "contest": con.name, "winner": w, "assertion": json_of(ja),
                              "raire_cvrs": repr(use), "earlier_search_on": hist},
                    "observed": {"votes_for_winner": vw, "votes_for_loser": vl, "retally_winner": rw,
                                 "retally_loser": rl, "assertion.contest": repr(a.contest)},
                    "signature": f"C14:retally:{ja[0]}"})
        if jas:
            # audit side: assorter sums over the audit's CVRs of the same file
            acon = audit_contest(A, con.name, con.candidates, cards=len(acvrs))
            assorters = build_assorters(A, acon, con.candidates, [j for j, _, _ in jas])
            for (ja, vw, vl), asr in zip(jas, assorters):
                res.oracle_runs += 1
                tot = sum(F(asr.assort(c)) for c in acvrs)
                if 2 * tot - len(acvrs) != vw - vl or (tot > F(len(acvrs), 2)) != (vw > vl):
                    res.oracle_violations.append({
                        "what": f"audit-side assorter total of a returned {ja[0]} assertion differs from "
                                "(votes_for_winner - votes_for_loser + n)/2",
                        "input": {"text": text, "contest": con.name, "assertion": json_of(ja),
                                  "cvr_votes": repr([c.votes for c in acvrs])},
                        "observed": {"assorter_total": tot, "n_cvrs": len(acvrs), "votes_for_winner": vw,
                                     "votes_for_loser": vl},
                        "signature": f"C14:mean-vs-tally:{ja[0]}"})
        if asrts:
            cases.append({"name": key(con.name), "cvrs": cvrs_model, "asrts": asrts,
                          "json": {"stream": "tally", "text": text, "contest": con.name, "winner": w,
                                   "earlier_search_on": hist,
                                   "assertions": [json_of(j) for j, _, _ in jas]}})
            res.nontrivial.add(("tally", text, con.name))
    return cases


# ---------------------------------------------------------------- entry point
def run(ctx, res):
    A, RU, RR = impl()
    CURRENT_RES[0] = res
    # regenerated tie: whole-function skeletons of the audit-side and generator-side ranked-vote predicates; C14's
    # equality re-proved between the two regenerated readings (coq/gen/GenProofs_irv_skeletons.v)
    genarith.regenerate(ctx.pid, "irv_skeletons", res)
    res.stats_reps = {}
    stats = {"sweep_ballots": 0, "sweep_evaluations": 0, "dict_cases": 0, "file_cases": 0, "tally_cases": 0,
             "assertions_returned": {"NEB": 0, "NEN": 0}}
    # 1. exhaustive sweep
    nmax = ctx.n(4, 5)
    sw = []
    for si, ids in enumerate(ID_SETS):
        for n in range(1, nmax + 1):
            cs = sweep(ctx, res, A, RU, ids, n, si)
            sw += cs
            stats["sweep_ballots"] += len(cs)
            stats["sweep_evaluations"] += sum(len(c["outs"]) for c in cs)
    # 1b. candidate sets too large to enumerate: random rankings x random assertions, 6..10 candidates
    for k in range(ctx.n(6, 60)):
        cs = sweep(ctx, res, A, RU, WIDE_IDS, ctx.rng.randint(6, len(WIDE_IDS)), k, sample=(12, 30))
        sw += cs
        stats["wide_ballots"] = stats.get("wide_ballots", 0) + len(cs)
    # 2. direct rank dicts
    dc = [dict_case(ctx, A, RU, ctx.rng.choice(ID_SETS)) for _ in range(ctx.n(300, 4000))]
    stats["dict_cases"] = len(dc)
    bc = sw + dc
    cr = C.run_corr(ctx.pid, "ballot", IMPORTS, "ballot_case", bc, ballot_lit, "agree_ballot", shard=ctx.n(60, 40),
                    show="show_ballot")
    res.corr.append(("make_assertions_from_json assorters, NEB/NENAssertion.is_vote_for_*, rcv_lfunc_wo, "
                     "rcv_votefor_cand and both readers' rank dicts vs IrvRead model", cr, case_json))
    res.evaluations += sum(len(c["outs"]) + len(c["calls"]) for c in bc)
    # 3. files
    fc = []
    for _ in range(ctx.n(120, 1500)):
        fc += file_case(ctx, res, A, RU, ctx.rng.choice(ID_SETS))
    stats["file_cases"] = len(fc)
    cr = C.run_corr(ctx.pid, "file", IMPORTS, "file_case", fc, file_lit, "agree_file", shard=ctx.n(15, 100),
                    show="show_file")
    res.corr.append(("CVR.from_raire_file / from_raire and load_contests_from_raire vs IrvRead.from_raire / "
                     "load_contests_from_raire", cr, case_json))
    res.evaluations += len(fc)
    # 4. re-tally
    tc = []
    for _ in range(ctx.n(60, 800)):
        tc += tally_cases(ctx, res, A, RU, RR, ctx.rng.choice(ID_SETS))
    for c in tc:
        for a in c["asrts"]:
            stats["assertions_returned"][a[0][0]] += 1
    stats["tally_cases"] = len(tc)
    cr = C.run_corr(ctx.pid, "tally", IMPORTS, "tally_case", tc, tally_lit, "agree_tally", shard=ctx.n(10, 60),
                    show="show_tally")
    res.corr.append(("assertions returned by compute_raire_assertions (contest key, tallies, re-applied sums) vs "
                     "IrvRead.gen_neb / gen_nen / retally", cr, case_json))
    res.evaluations += sum(len(c["asrts"]) for c in tc)

    res.exhaustive = True
    res.rule = (f"sweep: ALL partial rankings (every length, every order) of 1..{nmax} candidates x ALL (w,l,E) with w!=l, "
                "w,l not in E, for 5 identifier shapes (substring/prefix numeric ids, ids with spaces), each ballot read from "
                "RAIRE text by both real readers, plus random rankings x random (w,l,E) over 6..10 candidates; non-trivial = the ranking mentions w or l, distinct by (id set, n, "
                "ranking, assertion).  Plus random directly-written rank dicts (falsy/duplicate ranks, absent contest, "
                "w==l, w in E), random multi-contest RAIRE files (distinct texts), random profiles through "
                "compute_raire_assertions (distinct (text, contest) with >= 1 assertion)")
    stats["audit_rank_representation_of_sweep_ballots"] = res.stats_reps
    res.samples = [case_json(c) for c in (sw[:1] + dc[:1] + fc[:1] + tc[:1])]
    res.stats.update(stats)
    res.assumptions = [
        "tokenisation of the text format (csv.reader vs str.split+strip) is exercised, not modelled: generated files "
        "have no blanks around commas, no quotes, no blank lines, no candidate named winner/order/informal",
        "falsy audit-side ranks (False, 0, None, '') are one value in the model",
        "rank / index values are carried by int, np.int64/32/8, float, np.float64 (and True for rank 1 on the audit side), "
        "per world, per ballot and mixed within a ballot, on both sides; the model and the oracles see int(value)",
        "Contest.winner / Contest.outcome parsed from the header are not modelled (they do not affect ballots)",
    ]
