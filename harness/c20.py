"""C20 — the pruned elimination tree shows an unpruned leaf iff the assertions are insufficient; pruned nodes are tagged
with exactly the contradicting assertions.

Correspondence: the REAL buildRemainingTreeAsLists / treeListToTuple / parseAssertions on generated assertion sets
(<= 6 candidates) vs IrvVis.build_tree / tree_to_tuple / parse_assertions, children compared as sets (sorted by candidate).
Oracle (implementation alone): brute force over all elimination orders ending in the alternative winner, with
"contradicts" defined from the meaning of the assertions, not from the tree code."""
import contextlib
import copy
import os
import random
import subprocess
import sys
import tempfile
import io
import itertools
import json
import re
import warnings

from . import common as C, genarith

IMPORTS = "From SV Require Import Run_IrvVis.\nOpen Scope Z_scope."
ANCHORS = [("shangrla/core/IRVVisualisationUtils.py",
            ["buildRemainingTreeAsLists", "treeListToTuple", "buildConfTag", "parseAssertions", "findCandidateName",
             "findListCandidateNames"])]

UNPRUNED = "***Unpruned leaf. RAIRE assertions do not exclude all other winners!***"


def VIS():
    from shangrla.core import IRVVisualisationUtils as V
    return V


# ------------------------------------------------------------------ meaning of the assertions (independent of the tree code)
def neb_contradicts(a, order):
    """a = (loser, winner, _): 'winner is never eliminated before loser'.  Contradicted iff winner goes out before loser."""
    l, w = a[0], a[1]
    return l in order and w in order and order.index(w) < order.index(l)


def nen_contradicts(a, order):
    """a = (cand, E, _): 'cand is not eliminated next when exactly E has been eliminated'.
    Contradicted iff the candidates eliminated before cand are exactly E."""
    x, E = a[0], a[1]
    return x in order and set(order[:order.index(x)]) == set(E)


def contradicted(order, WO, IRV):
    return any(neb_contradicts(a, order) for a in WO) or any(nen_contradicts(a, order) for a in IRV)


def culprit_neb(a, order, x):
    """the contradiction happens at the elimination of x (x is the loser overtaken)"""
    return a[0] == x and neb_contradicts(a, order)


def culprit_nen(a, order, x):
    return a[0] == x and nen_contradicts(a, order)


# ------------------------------------------------------------------ generation of assertion sets
def rand_neb(rng, ids):
    return (rng.choice(ids), rng.choice(ids), rng.random() < 0.5)


def rand_nen(rng, ids, allow_empty=True):
    x = rng.choice(ids)
    others = [i for i in ids if i != x] if rng.random() < 0.9 else list(ids)
    k = rng.choice([0, 0, 1, 1, 2, 3, len(others)]) if allow_empty else rng.randint(1, max(1, len(others)))
    return (x, set(rng.sample(others, min(k, len(others)))), rng.random() < 0.5)


def gen_assertions(rng, cands, c, style):
    """cands: all candidate ids (strings); c: alternative winner.  Returns (WOLosers, IRVElims)."""
    S = [x for x in cands if x != c]
    ids = list(cands)
    WO, IRV = [], []
    if style in ("sufficient", "almost", "sufficient_redundant"):
        # add assertions until every order ending in c is contradicted (found by brute force on the MEANING)
        orders = [list(p) + [c] for p in itertools.permutations(S)]
        rng.shuffle(orders)
        for o in orders:
            if contradicted(o, WO, IRV):
                continue
            i = rng.randrange(len(o))
            if i >= 1 and rng.random() < 0.5:
                WO.append((o[i], rng.choice(o[:i]), rng.random() < 0.5))
            else:
                IRV.append((o[i], set(o[:i]), rng.random() < 0.5))
        if style == "almost" and (WO or IRV):          # drop one: usually insufficient again
            lst = rng.choice([l for l in (WO, IRV) if l])
            lst.pop(rng.randrange(len(lst)))
        if style == "sufficient_redundant":
            for _ in range(rng.randint(1, 4)):
                if WO and rng.random() < 0.5:
                    a = rng.choice(WO)
                    WO.insert(rng.randrange(len(WO) + 1), (a[0], a[1], a[2] if rng.random() < 0.5 else not a[2]))
                elif IRV:
                    a = rng.choice(IRV)
                    IRV.insert(rng.randrange(len(IRV) + 1), (a[0], set(a[1]), a[2] if rng.random() < 0.5 else not a[2]))
    elif style == "random":
        for _ in range(rng.randint(0, 6)):
            WO.append(rand_neb(rng, ids))
        for _ in range(rng.randint(0, 6)):
            IRV.append(rand_nen(rng, ids))
    elif style == "inconsistent":
        a, b = rng.sample(ids, 2)
        WO += [(a, b, True), (b, a, False)]
        x = rng.choice(ids)
        IRV += [(x, set(), rng.random() < 0.5)] + [rand_nen(rng, ids) for _ in range(rng.randint(0, 3))]
        WO += [rand_neb(rng, ids) for _ in range(rng.randint(0, 3))]
    elif style == "empty_sets":
        for x in rng.sample(ids, rng.randint(1, len(ids))):
            IRV.append((x, set(), rng.random() < 0.5))
        WO += [rand_neb(rng, ids) for _ in range(rng.randint(0, 2))]
    elif style == "mention_c":
        for _ in range(rng.randint(1, 3)):
            k = rng.choice(["c_loser", "c_winner", "c_nen", "c_in_set"])
            if k == "c_loser" and S:
                WO.append((c, rng.choice(S), rng.random() < 0.5))
            elif k == "c_winner" and S:
                WO.append((rng.choice(S), c, rng.random() < 0.5))
            elif k == "c_nen":
                IRV.append((c, set(S) if rng.random() < 0.5 else set(rng.sample(S, rng.randint(0, len(S)))), rng.random() < 0.5))
            elif S:
                x = rng.choice(S)
                IRV.append((x, {c} | set(rng.sample([y for y in S if y != x], rng.randint(0, len(S) - 1))), rng.random() < 0.5))
        WO += [rand_neb(rng, ids) for _ in range(rng.randint(0, 3))]
        IRV += [rand_nen(rng, ids) for _ in range(rng.randint(0, 3))]
    elif style == "foreign":
        ext = ids + ["900", "901"]
        WO += [rand_neb(rng, ext) for _ in range(rng.randint(1, 4))]
        IRV += [rand_nen(rng, ext) for _ in range(rng.randint(1, 4))]
    elif style == "none":
        pass
    if rng.random() < 0.3:
        rng.shuffle(WO)
        rng.shuffle(IRV)
    return WO, IRV


# lossy ways of comparing two sets of identifiers that a careless implementation might use instead of set equality
SLOPPY_KEYS = [lambda A: "".join(sorted(map(str, A))), lambda A: "".join(sorted("".join(map(str, A)))),
               lambda A: frozenset(map(str, A)), lambda A: " ".join(sorted(map(str, A))),
               lambda A: frozenset(str(x).strip() for x in A), lambda A: "".join(sorted(str(x).replace(" ", "") for x in A)),
               lambda A: frozenset(str(x).lstrip("0") for x in A), lambda A: ",".join(sorted(map(str, A))).replace(" ", "")]


def colliding_pairs(ids):
    """pairs (A, B) of DIFFERENT subsets of ids that look alike under one of the lossy keys (e.g. {'12'} vs {'1','2'})"""
    subs = [frozenset(cb) for r in range(0, min(len(ids), 4) + 1) for cb in itertools.combinations(ids, r)]
    out = []
    for key in SLOPPY_KEYS:
        seen = {}
        for A in subs:
            seen.setdefault(key(A), []).append(A)
        for grp in seen.values():
            out += [(A, B) for A in grp for B in grp if A != B]
    return out


def gen_collide(rng, cands, c):
    """an NEN assertion whose eliminated set is A while an elimination order that must SURVIVE passes the same candidate with
    the look-alike set B eliminated; every other order is contradicted (so the survivor is the only unpruned leaf) or not"""
    S = [x for x in cands if x != c]
    opts = [(A, B, x) for (A, B) in colliding_pairs(cands) for x in S if x not in B and B <= set(S)]
    if not opts:
        return None
    A, B, x = rng.choice(opts)
    rest = [y for y in S if y not in B and y != x]
    rng.shuffle(rest)
    o = rng.sample(sorted(B, key=repr), len(B)) + [x] + rest + [c]          # the order that must survive
    WO, IRV = [], [(x, set(A), rng.random() < 0.5)]
    if rng.random() < 0.7:                                                   # contradict every other order, never o
        orders = [list(p) + [c] for p in itertools.permutations(S)]
        rng.shuffle(orders)
        for o2 in orders:
            if o2 == o or contradicted(o2, WO, IRV):
                continue
            i = next(j for j in range(len(o)) if o[j] != o2[j])              # first difference: same prefix set, other candidate
            if i >= 1 and rng.random() < 0.4 and not neb_contradicts((o2[i], o2[i - 1], True), o):
                WO.append((o2[i], o2[i - 1], rng.random() < 0.5))
            else:
                IRV.append((o2[i], set(o2[:i]), rng.random() < 0.5))
    else:
        for _ in range(rng.randint(0, 4)):
            a = rand_neb(rng, cands)
            if not neb_contradicts(a, o):
                WO.append(a)
            a = rand_nen(rng, cands)
            if not nen_contradicts(a, o):
                IRV.append(a)
    assert not contradicted(o, WO, IRV)
    rng.shuffle(IRV)
    return WO, IRV


def gen_big_world(rng, n):
    """9-11 candidates, tree kept small by NEB assertions 'later one is never eliminated before earlier one' along a chosen
    order (all pairs, minus a few adjacent pairs so that some neighbours may swap), the first m candidates left free with a
    random small assertion set, and 0-2 extra assertions that bite only deep in the tree.  Returns (cands, c, WO, IRV, kind)."""
    ids = [str(i) for i in rng.sample(range(1, 40), n)]
    o, c = ids[:-1], ids[-1]                         # o[0] eliminated first ... c wins
    kind = rng.choice(["chain", "chain_deep", "chain_deep", "swaps", "swaps_deep", "free_bottom", "free_bottom"])
    m = rng.randint(3, 4) if kind == "free_bottom" else 0
    gaps = set()
    if kind.startswith("swaps"):
        gaps = set(rng.sample(range(0, len(o) - 1, 2), rng.randint(1, 3)))     # disjoint adjacent pairs (i, i+1) left unordered
    WO = []
    for i in range(len(o)):
        for j in range(i + 1, len(o)):
            if (i < m and j < m) or (j == i + 1 and i in gaps):
                continue
            WO.append((o[i], o[j], rng.random() < 0.5))           # o[j] is never eliminated before o[i]
    rng.shuffle(WO)
    IRV = []
    if m:
        sub_wo, sub_irv = gen_assertions(rng, o[:m], o[m - 1], rng.choice(["random", "random", "empty_sets", "inconsistent", "none"]))
        WO += [a for a in sub_wo]
        IRV += sub_irv
    if kind.endswith("deep"):
        for _ in range(rng.randint(1, 2)):
            d = rng.randint(0, 2)                                    # candidate o[d] sits n-1-d levels below the root
            pre = o[:d]
            if kind == "swaps_deep" and d >= 1 and rng.random() < 0.5:
                pre = rng.sample(o[:d + 1], d)                       # may or may not be a reachable prefix
            if d >= 1 and rng.random() < 0.3:
                WO.append((o[d], rng.choice(o[:d]), True))
            else:
                IRV.append((o[d], set(pre), rng.random() < 0.5))
    return ids, c, WO, IRV, kind


def surviving_orders(S, c, WO, IRV, cap=200000):
    """all elimination orders (perm of S, then c) contradicted by no assertion, found by extending the order from the FIRST
    eliminated candidate onwards and abandoning a prefix as soon as an assertion is contradicted by it (by the meaning of the
    assertions: NEB (l, w) once w goes out while l is still standing; NEN (x, E) once x goes out with exactly E gone).
    Independent of the tree code (which works from the winner downwards).  None if more than `cap` prefixes are visited."""
    allc = set(S) | {c}
    out, visited = [], [0]

    def ext(prefix, remaining):
        visited[0] += 1
        if visited[0] > cap:
            raise OverflowError
        gone = set(prefix)
        cand = remaining if remaining else [c]
        for y in cand:
            if any(a[0] == y and set(a[1]) == gone for a in IRV):
                continue
            if any(a[1] == y and a[0] != y and a[0] in allc and a[0] not in gone for a in WO):
                continue
            if not remaining:
                out.append(prefix + [c])
            else:
                ext(prefix + [y], [z for z in remaining if z != y])
    try:
        ext([], list(S))
    except OverflowError:
        return None
    return out


def shown_unpruned(t, back, path=()):
    """the unpruned leaves of a canonical list-form tree, each as the elimination order it stands for (first eliminated first)"""
    here = (back.get(t[1], t[1]),) + path
    if t[0] == "L":
        return [list(here)] if not t[2] and not t[3] else []
    return [o for b in t[2] for o in shown_unpruned(b, back, here)]


def oracle_orders(case):
    """which unpruned leaves are shown vs which orders survive (any number of candidates)"""
    c, S, WO, IRV, out = case["c"], case["S"], case["WO"], case["IRV"], case["impl"]
    if "exc" in out:
        return [("tree construction raises", out["exc"])]
    surv = surviving_orders(S, c, WO, IRV)
    if surv is None:
        return None
    f = mapper(case)
    back = {f(x): x for x in list(S) + [c]}
    bad = []
    for form, has in (("list form", tree_has_unpruned(out["tree"])), ("tuple form", tuple_has_unpruned(out["tuple"]))):
        if has != bool(surv):
            bad.append((f"unpruned leaf shown ({form}) = {has} but " +
                        ("an elimination order contradicted by no assertion exists" if surv else "every elimination order is contradicted"),
                        {"uncontradicted_order": surv[0] if surv else None}))
    shown = shown_unpruned(out["tree"], back)
    key = lambda o: tuple(map(repr, o))  # noqa
    if sorted(map(key, shown)) != sorted(map(key, surv)):
        extra = [o for o in shown if key(o) not in set(map(key, surv))]
        missing = [o for o in surv if key(o) not in set(map(key, shown))]
        bad.append(("the unpruned leaves shown are not the elimination orders that survive all assertions",
                    {"shown_but_contradicted_or_incomplete": extra[:2], "surviving_but_not_shown": missing[:2]}))
    if out.get("mutated_args"):
        bad.append(("buildRemainingTreeAsLists alters its arguments", None))
    return bad


STYLES = ["sufficient", "sufficient", "almost", "almost", "sufficient_redundant", "random", "random", "inconsistent",
          "empty_sets", "mention_c", "foreign", "none"]


# ------------------------------------------------------------------ canonical forms of the implementation's output
def cint(x):
    if isinstance(x, int) and not isinstance(x, bool):
        return x if x >= 0 else -99
    return int(x) if isinstance(x, str) and re.fullmatch(r"\d+", x) else -99


def mapper(k):
    """candidate id -> model number.  Worlds with awkward identifiers (ints mixed with strings, spaces, ids that are prefixes
    / concatenations of each other, leading zeros) carry an explicit bijection k['idmap']; the others use the digits."""
    m = k.get("idmap")
    if m is None:
        return cint

    def f(x):
        try:
            return m.get(x, -99) if type(x) in (str, int) else -99
        except TypeError:
            return -99
    return f


def canon_tree(t, cint=cint):
    """list form -> ('L', c, nebtags, irvtags) | ('N', c, [children sorted by candidate]); malformed -> ('N', -99, [])"""
    try:
        if isinstance(t, list) and len(t) == 1:
            nd = t[0]
            tags = []
            for tl in (nd.NEBTagList, nd.IRVTagList):
                tags.append([(int(i), bool(b)) for (i, b) in tl] if all(isinstance(i, int) and isinstance(b, bool) for i, b in tl) else [(4999, True)])
            return ("L", cint(nd.cand), tags[0], tags[1])
        if isinstance(t, list) and len(t) == 2 and isinstance(t[1], list):
            return ("N", cint(t[0]), sorted((canon_tree(b, cint) for b in t[1]), key=lambda n: n[1]))
    except Exception:  # noqa
        pass
    return ("N", -99, [])


TAG_RE = re.compile(r"(?:NEB (\d+(?:,\d+)*)\n(Confirmed|Unconfirmed))?(\n)?(?:IRV (\d+(?:,\d+)*)\n(Confirmed|Unconfirmed))?")


def canon_tuple(t, cint=cint):
    """tuple form -> ('L', c, neb_part|None, irv_part|None, unpruned) | ('N', c, [children sorted])"""
    try:
        if isinstance(t, tuple) and len(t) == 2 and isinstance(t[1], str):
            if t[1] == UNPRUNED:
                return ("L", cint(t[0]), None, None, True)
            m = TAG_RE.fullmatch(t[1])
            if m and (m.group(1) or m.group(4)) and (bool(m.group(3)) == bool(m.group(1) and m.group(4))):
                nb = ([int(x) for x in m.group(1).split(",")], m.group(2) == "Confirmed") if m.group(1) else None
                iv = ([int(x) for x in m.group(4).split(",")], m.group(5) == "Confirmed") if m.group(4) else None
                return ("L", cint(t[0]), nb, iv, False)
            return ("L", cint(t[0]), ([4999], True), ([4999], True), True)      # unparseable tag: cannot match the model
        if isinstance(t, tuple) and len(t) >= 2:
            return ("N", cint(t[0]), sorted((canon_tuple(b, cint) for b in t[1:]), key=lambda n: n[1]))
    except Exception:  # noqa
        pass
    return ("N", -99, [])


def wreck(t):
    """what a caller may do to a tree it was given: empty the child lists, spoil the tag lists"""
    if isinstance(t, list) and len(t) == 2 and isinstance(t[1], list):
        for b in list(t[1]):
            wreck(b)
        t[1].clear()
        t[0] = "gone"
    elif isinstance(t, list) and len(t) == 1:
        t[0].NEBTagList.append((77, True))
        t[0].IRVTagList.clear()
        t.append("junk")


def run_tree(V, c, S, WO, IRV, live=None, f=cint, fz=False, again=False):
    """call the real code on fresh copies (it must not keep or alter them), or — live=(list, list) — on the caller's own
    long-lived list objects, which the caller edits in place between calls"""
    wo = [tuple(a) for a in WO] if live is None else live[0]
    irv = [(a[0], frozenset(a[1]) if fz else set(a[1]), a[2]) for a in IRV] if live is None else live[1]
    s = set(S)
    buf = io.StringIO()
    with contextlib.redirect_stdout(buf), warnings.catch_warnings():
        warnings.simplefilter("ignore")
        try:
            t = V.buildRemainingTreeAsLists(c, s, wo, irv)
            tt = V.treeListToTuple(t)
        except Exception as e:  # noqa
            return {"exc": f"{type(e).__name__}: {e}"}
    mutated = s != set(S) or wo != [tuple(a) for a in WO] or any(x[1] != set(y[1]) for x, y in zip(irv, IRV))
    res = {"tree": canon_tree(t, f), "tuple": canon_tuple(tt, f), "raw_tuple": tt, "mutated_args": mutated}
    if again:           # the caller spoils the tree it got, then builds again with the same arguments
        with contextlib.redirect_stdout(buf), warnings.catch_warnings():
            warnings.simplefilter("ignore")
            try:
                tt1 = V.treeListToTuple(t)                      # converting twice must give the same thing
                wreck(t)
                t2 = V.buildRemainingTreeAsLists(c, set(S), wo, irv)
                tt2 = V.treeListToTuple(t2)
                res["rebuild_differs"] = canon_tree(t2, f) != res["tree"] or canon_tuple(tt2, f) != res["tuple"] or \
                    canon_tuple(tt1, f) != res["tuple"]
            except Exception as e:  # noqa
                res["rebuild_differs"] = f"{type(e).__name__}: {e}"
    return res


# ------------------------------------------------------------------ oracle
def tuple_has_unpruned(t):
    if t[0] == "L":
        return bool(t[4])
    return any(tuple_has_unpruned(b) for b in t[2])


def tree_has_unpruned(t):
    if t[0] == "L":
        return not t[2] and not t[3]
    return any(tree_has_unpruned(b) for b in t[2])


def oracle_tree(case):
    """brute force over all |S|! orders ending in c.  Returns list of (what, detail)."""
    c, S, WO, IRV, out = case["c"], case["S"], case["WO"], case["IRV"], case["impl"]
    if "exc" in out:
        return [("tree construction raises", out["exc"])]
    bad = []
    f = mapper(case)
    ci = {x: f(x) for x in list(S) + [c]}
    back = {v: k for k, v in ci.items()}
    orders = [list(p) + [c] for p in itertools.permutations(S)]
    free = [o for o in orders if not contradicted(o, WO, IRV)]
    for form, has in (("list form", tree_has_unpruned(out["tree"])), ("tuple form", tuple_has_unpruned(out["tuple"]))):
        if has != bool(free):
            bad.append((f"unpruned leaf shown ({form}) = {has} but " +
                        ("an elimination order contradicted by no assertion exists" if free else "every elimination order is contradicted"),
                        {"uncontradicted_order": free[0] if free else None}))
    # every pruned node: tags == the assertions that contradict it

    def walk(t, suffix):
        if t[1] not in back:
            bad.append(("tree contains a candidate that is not in the contest", t[1]))
            return
        x = back[t[1]]
        if t[0] == "N":
            for b in t[2]:
                walk(b, [x] + suffix)
            return
        nt, it = t[2], t[3]
        if not nt and not it:
            return
        Sx = [y for y in list(S) + [c] if y != x and y not in suffix]
        through = [list(p) + [x] + suffix for p in itertools.permutations(Sx)]
        for name, tags, lst, culprit, contra in (("NEB", nt, WO, culprit_neb, neb_contradicts), ("IRV", it, IRV, culprit_nen, nen_contradicts)):
            def val(a):
                return (a[0], a[1], a[2]) if name == "NEB" else (a[0], frozenset(a[1]), a[2])
            if any(i >= len(lst) or lst[i][2] != p for i, p in tags):
                bad.append((f"{name} tag refers to no assertion / wrong proved flag", {"node": [x] + suffix, "tags": tags}))
                continue
            tagged = {val(lst[i]) for i, _ in tags}
            at_node = {val(a) for a in lst if all(culprit(a, o, x) for o in through)}
            if tagged != at_node:
                bad.append((f"pruned node's {name} tags are not exactly the assertions contradicting it",
                            {"node": [x] + suffix, "tagged": sorted(map(str, tagged)), "contradicting": sorted(map(str, at_node))}))
                continue
            every = {val(a) for a in lst if all(contra(a, o) for o in through)}
            extra = every - tagged
            if len(Sx) != 1:
                if extra or tagged - every:
                    bad.append((f"pruned node's {name} tags differ from the assertions contradicting every order through it",
                                {"node": [x] + suffix, "tagged": sorted(map(str, tagged)), "contradicting": sorted(map(str, every))}))
            elif tagged - every or any(not (name == "IRV" and a[0] == Sx[0] and not a[1]) for a in extra):
                bad.append((f"pruned node's {name} tags differ from the assertions contradicting every order through it",
                            {"node": [x] + suffix, "tagged": sorted(map(str, tagged)), "contradicting": sorted(map(str, every))}))
    walk(out["tree"], [])
    if out.get("mutated_args"):
        bad.append(("buildRemainingTreeAsLists alters its arguments", None))
    if out.get("rebuild_differs"):
        bad.append(("building the same tree again (after the caller altered the first result) gives a different tree", out["rebuild_differs"]))
    return bad


# ------------------------------------------------------------------ parseAssertions: generation and running
def reshape_log(x, r, depth=0, semantic=False):
    """the same log with object keys in another order and unknown keys added, at every nesting level; the entries of the
    'contests' / 'assertions' objects (whose keys are data) are only reordered"""
    if isinstance(x, list):
        return [reshape_log(v, r, depth + 1) for v in x]
    if not isinstance(x, dict):
        return x
    items = [(k, reshape_log(v, r, depth + 1, semantic=(k in ("contests", "assertions")))) for k, v in x.items()]
    if not semantic and depth > 0 and r.random() < 0.4:
        items.append((r.choice(["note", "zz_extra", "Winner", "assertionType", "margin"]), r.choice([None, 1, "x", [], {}])))
    r.shuffle(items)
    return dict(items)

def gen_parse_case(rng, cands):
    dialect = rng.choice(["rla", "rla", "raire"])
    winner = rng.choice(cands)
    manifest = []
    for x in cands + ["77"]:
        r = rng.random()
        if r < 0.8:
            manifest.append({"Id": int(x) if rng.random() < 0.8 else x, "Description": f"N{rng.randint(1, 50)}"})
        if r < 0.1:
            manifest.append({"Id": int(x), "Description": f"N{rng.randint(51, 60)}"})
    rng.shuffle(manifest)

    def gen_audit(dial):
        w = rng.choice(cands)
        n = rng.choice([0, 1, 2, 3, 5, 8])
        asr, details = {}, []
        for i in range(n):
            aw, al = rng.choice(cands), rng.choice(cands)
            a = {"winner": aw, "loser": al, "p_value": 0.5}
            if dial == "rla":
                pk = rng.choice(["t", "f", "absent"])
                if pk != "absent":
                    a["proved"] = pk == "t"
            else:
                pk = rng.choice(["True", "False", "absent", "jsontrue", "other"])
                if pk != "absent":
                    a["proved"] = {"True": "True", "False": "False", "jsontrue": True, "other": "true"}[pk]
            asr[f"{aw} v {al} #{i}"] = a
            ty = rng.choice(["WINNER_ONLY", "WINNER_ONLY", "IRV_ELIMINATION", "IRV_ELIMINATION", "OTHER", None])
            d = {"winner": rng.choice(cands) if rng.random() < 0.3 else aw, "loser": rng.choice(cands) if rng.random() < 0.3 else al}
            if ty == "IRV_ELIMINATION":
                el = rng.sample(cands, rng.randint(0, len(cands) - 1))
                d["already_eliminated"] = el + ([el[0]] if el and rng.random() < 0.2 else [])
            else:
                d["already_eliminated"] = "" if rng.random() < 0.7 else []
            if ty is not None:
                d["assertion_type"] = ty
            details.append(d)
        au = {"winner": [w] if dial == "rla" else w, "assertions": asr}
        jmode = None
        if dial == "rla":
            au.update({"choice_function": rng.choice(["IRV", "IRV", "plurality"]), "n_winners": rng.choice([1, 1, 2]),
                       "candidates": rng.sample(cands, len(cands)) + ([w] if rng.random() < 0.1 else [])})
            jmode = rng.choice(["full", "full", "short", "absent", "long"])
            if jmode == "full":
                au["assertion_json"] = details
            elif jmode == "short":
                au["assertion_json"] = details[:rng.randint(0, max(0, n - 1))]
            elif jmode == "long":
                au["assertion_json"] = details + [{"assertion_type": "WINNER_ONLY", "winner": w, "loser": w, "already_eliminated": ""}]
        else:
            au["eliminated"] = rng.sample([x for x in cands if x != w], rng.randint(0, len(cands) - 1))
        return au

    if dialect == "rla":
        ids = rng.sample([1, 2, 3, 10, 339, 25], rng.randint(1, 3))
        f = {"Audit": {"seed": 12345, "risk_limit": 0.05}, "contests": {str(i): gen_audit("rla") for i in ids}}
        cid = rng.choice([None, None, ids[0], str(ids[-1]), 999, min(ids)])
    else:
        f = {"audits": [gen_audit("raire") for _ in range(rng.randint(1, 2))]}
        if rng.random() < 0.3:
            f["Audit"] = {"note": "no seed here"}
        cid = rng.choice([None, 1])
    # representation variants of the same legal file
    pc = {"dialect": dialect, "file": f, "manifest": {"List": manifest}, "contest_id": cid, "variant": rng.choice(
        ["plain", "plain", "sort_keys", "reshaped", "reshaped", "direct"])}
    if pc["variant"] == "sort_keys":
        pc["file"] = json.loads(json.dumps(f, sort_keys=True))           # re-serialised export
    elif pc["variant"] == "reshaped":
        pc["file"] = reshape_log(f, rng)
    elif pc["variant"] == "direct":                                       # python objects handed over without a JSON round trip
        for au in (list(f["contests"].values()) if dialect == "rla" else f["audits"]):
            for d in au.get("assertion_json", []):
                el = d["already_eliminated"]
                if isinstance(el, list):
                    el = rng.sample(el, len(el))
                    d["already_eliminated"] = rng.choice([tuple(el), set(el), frozenset(el), el])
        if dialect == "raire" and rng.random() < 0.6:                     # candidate ids as ints
            pc["int_ids"] = True
            for au in f["audits"]:
                au["winner"] = int(au["winner"])
                au["eliminated"] = [int(x) for x in au["eliminated"]]
                for a in au["assertions"].values():
                    a["winner"], a["loser"] = int(a["winner"]), int(a["loser"])
    return pc


def run_parse(V, pc):
    f = copy.deepcopy(pc["file"]) if pc.get("variant") == "direct" else json.loads(json.dumps(pc["file"]))   # as read from a file
    m = json.loads(json.dumps(pc["manifest"]))
    f0, m0 = copy.deepcopy(f), copy.deepcopy(m)
    buf = io.StringIO()
    with contextlib.redirect_stdout(buf), warnings.catch_warnings():
        warnings.simplefilter("ignore")
        try:
            if pc["contest_id"] is None:
                r = V.parseAssertions(f, m)
            else:
                r = V.parseAssertions(f, m, pc["contest_id"])
            changed = f != f0 or m != m0 or [list(d) for d in _order(f)] != [list(d) for d in _order(f0)]
            raw1 = copy.deepcopy(r)
            r[2].append(("zz", "zz", True))              # the caller fiddles with the first result, then parses again
            r[3].clear()
            r[1].clear()
            r2 = V.parseAssertions(f, m) if pc["contest_id"] is None else V.parseAssertions(f, m, pc["contest_id"])
        except Exception as e:  # noqa
            return {"exc": f"{type(e).__name__}: {e}"}
    return {"raw": raw1, "file_after": f, "changed_input": changed, "second_differs": canon_parse(r2) != canon_parse(raw1)}


def _order(x):
    """key orders of all objects inside x (dict equality ignores order, parseAssertions does not)"""
    if isinstance(x, dict):
        yield list(x.keys())
        for v in x.values():
            yield from _order(v)
    elif isinstance(x, list):
        for v in x:
            yield from _order(v)


def name_code(s):
    return -1 if s == "" else int(s[1:]) if isinstance(s, str) and re.fullmatch(r"N\d+", s) else -99


def canon_parse(r):
    try:
        (w, wn), nonw, WO, IRV = r
        return {"winner": (cint(w), name_code(wn)), "nonwinners": [(cint(a), name_code(b)) for a, b in nonw],
                "WO": [(cint(l), cint(x), p) if isinstance(p, bool) else (-99, -99, False) for (l, x, p) in WO],
                "IRV": [(cint(x), sorted(cint(y) for y in E), p) if isinstance(p, bool) and isinstance(E, (set, frozenset)) else (-99, [], False)
                        for (x, E, p) in IRV]}
    except Exception:  # noqa
        return {"winner": (-99, -99), "nonwinners": [], "WO": [], "IRV": []}


def oracle_parse(pc, out):
    """the tuples must be what the assertion JSON says (independent re-reading of the selected audit)"""
    if "exc" in out:
        return []          # robustness to odd files is outside the property
    f = pc["file"]
    if pc["dialect"] == "rla":
        key = str(pc["contest_id"])
        if key not in f["contests"]:
            key = str(min(int(k) for k in f["contests"]))
        au = f["contests"][key]
        det = au.get("assertion_json", [])
    else:
        au, det = f["audits"][0], []
    WO, IRV = [], []
    for i, a in enumerate(au["assertions"].values()):
        pr = (a.get("proved", False) is True) if pc["dialect"] == "rla" else (a.get("proved") == "True")
        d = det[i] if i < len(det) else {}
        ty = d.get("assertion_type")
        if ty == "WINNER_ONLY":
            WO.append((cint(d["loser"]), cint(d["winner"]), pr))
        elif ty == "IRV_ELIMINATION":
            IRV.append((cint(d["winner"]), sorted({cint(y) for y in d["already_eliminated"]}), pr))
        elif ty is None:
            WO.append((cint(a["loser"]), cint(a["winner"]), pr))
    got = canon_parse(out["raw"])
    bad = []
    if out.get("changed_input"):
        bad.append(("parseAssertions alters the log / manifest it is given", None))
    if out.get("second_differs"):
        bad.append(("parsing the same log again (after the caller altered the first result) gives different tuples", None))
    if got["WO"] != WO:
        bad.append(("parseAssertions: not-eliminated-before tuples differ from the assertion JSON", {"got": got["WO"], "json": WO}))
    if [(x, sorted(set(E)), p) for x, E, p in got["IRV"]] != IRV:
        bad.append(("parseAssertions: not-eliminated-next tuples differ from the assertion JSON", {"got": got["IRV"], "json": IRV}))
    return bad


# ------------------------------------------------------------------ Coq literals
def tags_lit(tags):
    return C.listlit(["(%s, %s)" % (C.natlit(min(i, 4999)), C.blit(b)) for i, b in tags])


def tree_lit(t):
    if t[0] == "L":
        return "(Leaf %s %s %s)" % (C.zlit(t[1]), tags_lit(t[2]), tags_lit(t[3]))
    return "(Node %s %s)" % (C.zlit(t[1]), C.listlit([tree_lit(b) for b in t[2]]))


def part_lit(p):
    return "None" if p is None else "(Some (%s, %s))" % (C.listlit([C.natlit(min(i, 4999)) for i in p[0]]), C.blit(p[1]))


def rtree_lit(t):
    if t[0] == "L":
        return "(RLeaf %s (mkRtag %s %s %s))" % (C.zlit(t[1]), part_lit(t[2]), part_lit(t[3]), C.blit(t[4]))
    return "(RNode %s %s)" % (C.zlit(t[1]), C.listlit([rtree_lit(b) for b in t[2]]))


def neb_lit(a):
    return "(%s, %s, %s)" % (C.zlit(a[0]), C.zlit(a[1]), C.blit(a[2]))


def nen_lit(a):
    return "(%s, %s, %s)" % (C.zlit(a[0]), C.listlit([C.zlit(y) for y in a[1]]), C.blit(a[2]))


BAD_TREE = ("N", -98, [])


def tree_case_lit(k):
    cint = mapper(k)
    out = k["impl"]
    t = out.get("tree", BAD_TREE)
    tt = out.get("tuple", BAD_TREE)
    return "(mkTreeCase %s %s %s %s %s %s)" % (
        C.listlit([neb_lit((cint(a[0]), cint(a[1]), a[2])) for a in k["WO"]]),
        C.listlit([nen_lit((cint(a[0]), sorted(cint(y) for y in a[1]), a[2])) for a in k["IRV"]]),
        C.zlit(cint(k["c"])), C.listlit([C.zlit(v) for v in sorted(cint(x) for x in k["S"])]), tree_lit(t), rtree_lit(tt))


def tree_case_json(k):
    return {"c": k["c"], "S": sorted(k["S"], key=repr), "WOLosers": [list(a) for a in k["WO"]],
            "IRVElims": [[a[0], sorted(a[1], key=repr), a[2]] for a in k["IRV"]], "style": k.get("style"),
            "implementation_tuple_tree": C.jsonable(k["impl"].get("raw_tuple", k["impl"].get("exc")))}


def pv_lit(a, dial):
    if "proved" not in a:
        return "PAbsent"
    p = a["proved"]
    if isinstance(p, bool):
        return "(PBool %s)" % C.blit(p)
    return "PStrTrue" if p == "True" else "PStrOther"


def audit_lit(au, dial):
    w = au["winner"][0] if dial == "rla" else au["winner"]
    asr = C.listlit(["(mkAraw %s %s %s)" % (C.zlit(cint(a["winner"])), C.zlit(cint(a["loser"])), pv_lit(a, dial))
                     for a in au["assertions"].values()])
    ty = {"WINNER_ONLY": "(Some TWinnerOnly)", "IRV_ELIMINATION": "(Some TIrvElim)", "OTHER": "(Some TOtherType)", None: "None"}

    def det(d):
        el = d["already_eliminated"]
        return "(mkAdetail %s %s %s %s)" % (ty[d.get("assertion_type")], C.zlit(cint(d["winner"])), C.zlit(cint(d["loser"])),
                                            C.listlit([C.zlit(cint(y)) for y in (sorted(el, key=repr) if isinstance(el, (list, tuple, set, frozenset)) else [])]))
    js = "(Some %s)" % C.listlit([det(d) for d in au["assertion_json"]]) if "assertion_json" in au else "None"
    return "(mkAudit %s %s %s %s %s)" % (C.zlit(cint(w)), C.listlit([C.zlit(cint(x)) for x in au.get("candidates", [])]),
                                         C.listlit([C.zlit(cint(x)) for x in au.get("eliminated", [])]), asr, js)


def parse_case_lit(k):
    pc, got = k["pc"], k["got"]
    f = pc["file"]
    if pc["dialect"] == "rla":
        fl = "(RLALog %s)" % C.listlit(["(%s, %s)" % (C.zlit(int(i)), audit_lit(a, "rla")) for i, a in f["contests"].items()])
    else:
        fl = "(Raire %s)" % C.listlit([audit_lit(a, "raire") for a in f["audits"]])
    man = C.listlit(["(%s, %s)" % (C.zlit(int(e["Id"])), C.zlit(name_code(e["Description"]))) for e in pc["manifest"]["List"]]
                    if not pc.get("int_ids") else [])          # str(Id) == <int id> is never true: no name is found
    cid = pc["contest_id"]
    pair = lambda p: "(%s, %s)" % (C.zlit(p[0]), C.zlit(p[1]))  # noqa
    return "(mkParseCase %s %s %s %s %s %s %s)" % (
        fl, man, C.optlit(None if cid is None else int(cid), C.zlit), pair(got["winner"]),
        C.listlit([pair(p) for p in got["nonwinners"]]), C.listlit([neb_lit(a) for a in got["WO"]]),
        C.listlit([nen_lit(a) for a in got["IRV"]]))


def parse_case_json(k):
    return {"assertion_file": k["pc"]["file"], "candidate_manifest": k["pc"]["manifest"], "contest_id": k["pc"]["contest_id"],
            "implementation": C.jsonable(k["got"])}


def printed_results_check(V, rng, sample, stats):
    """buildPrintedResults(winner, nonwinners-with-names, WOLosers, IRVElims) with the drawing library stubbed: the tuple trees
    it hands to the drawing routine must be, per alternative winner, the tree of the direct construction, and must show an
    unpruned leaf exactly when an order survives"""
    bad = []
    real_draw, real_caption = V.svgling.draw_tree, V.Caption
    try:
        for k in sample:
            if rng.random() < 0.5:
                continue
            allc = list(k["S"]) + [k["c"]]
            w = rng.choice(allc)
            nonw = [x for x in allc if x != w]
            rng.shuffle(nonw)
            f = mapper(k)
            drawn = []
            V.svgling.draw_tree = lambda t, *a, **kw: drawn.append(t) or t
            V.Caption = lambda tree, text: (tree, text)
            wo = [tuple(a) for a in k["WO"]]
            irv = [(a[0], set(a[1]), a[2]) for a in k["IRV"]]
            buf = io.StringIO()
            with contextlib.redirect_stdout(buf), warnings.catch_warnings():
                warnings.simplefilter("ignore")
                try:
                    V.printAssertions(wo, irv)
                    out = V.buildPrintedResults(w, [(x, "name " + str(x)) for x in nonw], wo, irv)
                except Exception as e:  # noqa
                    bad.append(("buildPrintedResults / printAssertions raises", k, f"{type(e).__name__}: {e}"))
                    continue
            stats["printed_results_calls"] = stats.get("printed_results_calls", 0) + 1
            if len(drawn) != len(nonw) or len(out) != len(nonw):
                bad.append(("buildPrintedResults does not draw one tree per apparent non-winner", k, {"trees": len(drawn), "non-winners": len(nonw)}))
                continue
            for x, t in zip(nonw, drawn):
                Sx = [y for y in allc if y != x]
                direct = run_tree(V, x, Sx, k["WO"], k["IRV"], f=f)
                surv = surviving_orders(Sx, x, k["WO"], k["IRV"])
                ct = canon_tuple(t, f)
                if surv is not None and tuple_has_unpruned(ct) != bool(surv):
                    bad.append(("tree drawn by buildPrintedResults: unpruned leaf shown != an elimination order survives", k,
                                {"alternative_winner": x, "drawn": t, "surviving": surv[:1]}))
                elif ct != direct.get("tuple"):
                    bad.append(("buildPrintedResults draws a different tree than buildRemainingTreeAsLists builds", k,
                                {"alternative_winner": x, "drawn": t, "direct": direct.get("raw_tuple")}))
            if wo != [tuple(a) for a in k["WO"]] or [a[1] for a in irv] != [set(a[1]) for a in k["IRV"]]:
                bad.append(("buildPrintedResults / printAssertions alters the assertion lists", k, None))
    finally:
        V.svgling.draw_tree, V.Caption = real_draw, real_caption
    return bad


if __name__ == "__main__":          # fresh-process helper
    sys.path.insert(0, C.REPO)
    V_ = VIS()
    outs = []
    for j in json.load(open(sys.argv[1])):
        k_ = {"idmap": None if j["idmap"] is None else {a: b for a, b in j["idmap"]}}
        r_ = run_tree(V_, j["c"], j["S"], [tuple(a) for a in j["WO"]], [(a[0], set(a[1]), a[2]) for a in j["IRV"]], f=mapper(k_))
        outs.append(json.loads(json.dumps([r_.get("tree"), r_.get("tuple")])))
    print(json.dumps(outs))
    sys.exit(0)


# ------------------------------------------------------------------ entry point
POOLS = [["15", "16", "17", "18", "45", "3"], ["1", "2", "3", "4", "5", "6"], ["101", "7", "20", "9", "33", "64"],
         ["1", "2", "12", "21", "10", "102"]]          # last: digit strings of different lengths, one the concatenation of others
# identifiers that are not plain numbers: prefixes / concatenations, spaces, ints next to strings, leading zeros
AWKWARD = [["a", "ab", "b", "abb", "ba", "bab"], ["A B", "A", "B", "A  B", "B A", " A"], [1, "1", 2, "2", 12, "12"],
           ["1", "01", "10", "001", "100", "0"], ["x,y", "x", "y", "y,x", "x y", "xy"]]


def run(ctx, res):
    rng = ctx.rng
    V = VIS()
    n_groups = ctx.n(150, 1500)
    stats = {"n_candidates": {}, "styles": {}, "unpruned": 0, "fully_pruned": 0, "pruned_nodes_checked": 0, "orders_enumerated": 0,
             "parse_cases": 0, "parse_exceptions": 0, "trees_from_parsed_assertions": 0, "c_in_S_calls": 0}
    tcases, pcases = [], []
    for g in range(n_groups):
        ncand = rng.choice([2, 3, 3, 4, 4, 4, 5, 5, 6]) if ctx.quick else rng.choice([2, 3, 4, 4, 5, 5, 6, 6])
        gm = None                                   # explicit id -> number bijection for awkward identifiers
        if rng.random() < 0.3:
            cands = rng.sample(rng.choice(AWKWARD), ncand)
            gm = {x: i + 1 for i, x in enumerate(cands)}
            gm.update({"900": 900, "901": 901})
            stats["awkward_id_groups"] = stats.get("awkward_id_groups", 0) + 1
        else:
            cands = rng.sample(rng.choice(POOLS), ncand)
        can_collide = ncand >= 3 and bool(colliding_pairs(cands))
        # several consecutive calls in one process over the SAME candidate ids with different assertion sets
        for k in range(rng.randint(3, 6) if ncand < 6 else 2):
            style = rng.choice(STYLES)
            c = rng.choice(cands)
            got = gen_collide(rng, cands, c) if can_collide and rng.random() < 0.4 else None
            if got:
                style, (WO, IRV) = "collide", got
            else:
                WO, IRV = gen_assertions(rng, cands, c, style)
            alts = [c] + ([rng.choice(cands)] if rng.random() < 0.5 else [])
            for c2 in alts:
                S = [x for x in cands if x != c2]
                if rng.random() < 0.02:
                    S = S + [c2]                      # the "c is in S" message path (prints, then carries on)
                    stats["c_in_S_calls"] += 1
                tcases.append({"c": c2, "S": S, "WO": WO, "IRV": IRV, "style": style, "ncand": ncand, "idmap": gm})
        # the SAME list objects reused over consecutive builds and edited in place between them (assertion popped, appended,
        # replaced, a set inside a tuple altered, cleared and refilled), and lists dropped and re-created back to back (their
        # id may be recycled): the tree must depend on the lists' contents at the time of the call only
        live_wo, live_irv = [], []
        c_live = rng.choice(cands)
        for step in range(rng.randint(4, 8)):
            edit = rng.choice(["refill", "pop", "append_contra", "append_rand", "replace", "set_edit", "clear", "reverse", "recreate", "same"])
            if step == 0:
                edit = "refill"
            if edit == "refill":
                WO, IRV = gen_assertions(rng, cands, c_live, rng.choice(STYLES))
                live_wo[:] = WO
                live_irv[:] = IRV
            elif edit == "pop":
                lst = rng.choice([l for l in (live_wo, live_irv) if l] or [live_wo])
                if lst:
                    lst.pop(rng.randrange(len(lst)))
            elif edit == "append_contra":     # an assertion contradicting an order that is still free, if there is one
                S0 = [x for x in cands if x != c_live]
                free = [list(p) + [c_live] for p in itertools.permutations(S0) if not contradicted(list(p) + [c_live], live_wo, live_irv)]
                if free:
                    o = rng.choice(free)
                    i = rng.randrange(len(o))
                    if i >= 1 and rng.random() < 0.5:
                        live_wo.append((o[i], rng.choice(o[:i]), rng.random() < 0.5))
                    else:
                        live_irv.append((o[i], set(o[:i]), rng.random() < 0.5))
            elif edit == "append_rand":
                if rng.random() < 0.5:
                    live_wo.insert(rng.randrange(len(live_wo) + 1), rand_neb(rng, cands))
                else:
                    live_irv.insert(rng.randrange(len(live_irv) + 1), rand_nen(rng, cands))
            elif edit == "replace":
                if live_wo and rng.random() < 0.5:
                    live_wo[rng.randrange(len(live_wo))] = rand_neb(rng, cands)
                elif live_irv:
                    live_irv[rng.randrange(len(live_irv))] = rand_nen(rng, cands)
            elif edit == "set_edit" and live_irv:
                a = rng.choice(live_irv)
                y = rng.choice(cands)
                (a[1].discard if y in a[1] else a[1].add)(y)
            elif edit == "clear":
                live_wo.clear()
                live_irv.clear()
            elif edit == "reverse":
                live_wo.reverse()
                live_irv.reverse()
            elif edit == "recreate":          # drop both lists and build new ones straight away, twice
                for _ in range(2):
                    WO, IRV = gen_assertions(rng, cands, c_live, rng.choice(STYLES))
                    del live_wo, live_irv
                    live_wo, live_irv = list(WO), list(IRV)
                    k = {"c": c_live, "S": [x for x in cands if x != c_live], "WO": [tuple(a) for a in live_wo],
                         "IRV": [(a[0], set(a[1]), a[2]) for a in live_irv], "style": "live-recreate", "ncand": ncand, "idmap": gm}
                    k["impl"] = run_tree(V, k["c"], k["S"], k["WO"], k["IRV"], live=(live_wo, live_irv), f=mapper(k))
                    tcases.append(k)
                    stats["live_builds"] = stats.get("live_builds", 0) + 1
                continue
            if rng.random() < 0.15:
                c_live = rng.choice(cands)
            k = {"c": c_live, "S": [x for x in cands if x != c_live], "WO": [tuple(a) for a in live_wo],
                 "IRV": [(a[0], set(a[1]), a[2]) for a in live_irv], "style": "live-" + edit, "ncand": ncand, "idmap": gm}
            k["impl"] = run_tree(V, k["c"], k["S"], k["WO"], k["IRV"], live=(live_wo, live_irv), f=mapper(k))     # snapshot taken above
            tcases.append(k)
            stats["live_builds"] = stats.get("live_builds", 0) + 1
        # parseAssertions on both dialects, and trees built from what it returns (as buildPrintedResults does)
        pcands = cands if gm is None else rng.sample(rng.choice(POOLS), ncand)     # the parse generator wants numeric ids
        for _ in range(3):
            pc = gen_parse_case(rng, pcands)
            out = run_parse(V, pc)
            stats["parse_cases"] += 1
            if "exc" in out:
                stats["parse_exceptions"] += 1
                continue
            res.oracle_runs += 1
            for what, detail in oracle_parse(pc, out):
                res.oracle_violations.append({"what": what, "input": {"file": pc["file"], "contest_id": pc["contest_id"]},
                                              "observed": C.jsonable(detail), "signature": "C20:" + what})
            pcases.append({"pc": pc, "got": canon_parse(out["raw"])})
            (w, _), nonw, WO, IRV = out["raw"]
            ok = all(isinstance(a[2], bool) for a in WO + IRV)
            if ok and nonw and len(nonw) <= 5 and rng.random() < 0.6:
                c2 = rng.choice(nonw)[0]
                S = list((set(x for x, _ in nonw) | {w}) - {c2})
                tcases.append({"c": c2, "S": S, "WO": list(WO), "IRV": list(IRV), "style": "parsed", "ncand": len(S) + 1})
                stats["trees_from_parsed_assertions"] += 1
    # small domain enumerated completely: 3 candidates, every set of <= 2 assertions out of all 6 NEB pairs and all 12 NEN
    # (candidate, subset of the others) tuples
    ids3 = ["1", "2", "3"]
    univ = [("neb", (l, w, True)) for l in ids3 for w in ids3 if l != w] + \
           [("nen", (x, set(E), False)) for x in ids3 for k2 in range(3) for E in itertools.combinations([y for y in ids3 if y != x], k2)]
    for r in (0, 1, 2):
        for combo in itertools.combinations(univ, r):
            tcases.append({"c": "1", "S": ["2", "3"], "WO": [a for t, a in combo if t == "neb"], "IRV": [a for t, a in combo if t == "nen"],
                           "style": "exhaustive3", "ncand": 3})
    # the same complete small domain under renamings to awkward identifiers (only the names change, the model sees numbers)
    for names in (["1", "2", "12"], ["a", "b", "ab"], [12, "12", "1"], ["A B", "A", "B"]) if ctx.quick else \
            [rng.sample(pool, 3) for pool in AWKWARD + POOLS[3:] for _ in range(3)]:
        ren = dict(zip(ids3, names))
        gm3 = {x: i + 1 for i, x in enumerate(names)}
        for c3 in (names[:1] if ctx.quick else names):
            for r in (0, 1, 2):
                for combo in itertools.combinations(univ, r):
                    tcases.append({"c": c3, "S": [x for x in names if x != c3],
                                   "WO": [(ren[a[0]], ren[a[1]], a[2]) for t, a in combo if t == "neb"],
                                   "IRV": [(ren[a[0]], {ren[y] for y in a[1]}, a[2]) for t, a in combo if t == "nen"],
                                   "style": "exhaustive3-renamed", "ncand": 3, "idmap": gm3})
    # contests with MANY candidates whose assertion sets keep the tree small but deep
    for _ in range(ctx.n(24, 200)):
        n = rng.choice([9, 10, 10, 11, 11])
        ids, cb, WO, IRV, kind = gen_big_world(rng, n)
        tcases.append({"c": cb, "S": ids[:-1], "WO": WO, "IRV": IRV, "style": "big-" + kind, "ncand": n})
    # pending builds run in a random interleaving of all contests; some are built again later and must come out the same
    pending = [k for k in tcases if "impl" not in k]
    done = []
    for k in rng.sample(pending, len(pending)):
        k["fz"] = rng.random() < 0.15
        k["impl"] = run_tree(V, k["c"], k["S"], k["WO"], k["IRV"], f=mapper(k), fz=k["fz"], again=(rng.random() < 0.12 and k["ncand"] <= 7))
        done.append(k)
        if rng.random() < 0.06:
            k0 = rng.choice(done[-40:])
            stats["revisits"] = stats.get("revisits", 0) + 1
            r2 = run_tree(V, k0["c"], k0["S"], k0["WO"], k0["IRV"], f=mapper(k0))
            if (r2.get("tree"), r2.get("tuple")) != (k0["impl"].get("tree"), k0["impl"].get("tuple")):
                k0["impl"]["rebuild_differs"] = "built again after other contests: different tree"
    # the drawing helper must draw exactly the trees that buildRemainingTreeAsLists builds (svgling stubbed out)
    printed = printed_results_check(V, rng, [k for k in tcases if k["ncand"] <= 6 and k["c"] not in k["S"]][:ctx.n(200, 800)], stats)
    for what, k, detail in printed:
        res.oracle_violations.append({"what": what, "input": tree_case_json(k), "observed": C.jsonable(detail), "signature": "C20:" + what})
    res.oracle_runs += stats.get("printed_results_calls", 0)
    # a sample re-built in a FRESH process, in reverse order
    pick = [k for k in tcases if "tree" in k["impl"] and k["ncand"] <= 7]
    pick = rng.sample(pick, min(len(pick), ctx.n(60, 300)))[::-1]
    jobs = [{"c": k["c"], "S": k["S"], "WO": [list(a) for a in k["WO"]], "IRV": [[a[0], sorted(a[1], key=repr), a[2]] for a in k["IRV"]],
             "idmap": (None if k.get("idmap") is None else [[a, b] for a, b in k["idmap"].items()])} for k in pick]
    fd, jp = tempfile.mkstemp(prefix="c20_jobs_", suffix=".json", dir="/dev/shm" if os.path.isdir("/dev/shm") else None)
    with os.fdopen(fd, "w") as fh:
        json.dump(jobs, fh)
    try:
        pr = subprocess.run([sys.executable, "-m", "harness.c20", jp], stdout=subprocess.PIPE, stderr=subprocess.PIPE, text=True,
                            timeout=300, cwd=C.VERIF)
        fresh = json.loads(pr.stdout.strip().splitlines()[-1]) if pr.returncode == 0 and pr.stdout.strip() else None
    finally:
        os.unlink(jp)
    if fresh is None:
        raise RuntimeError("fresh-process run failed: " + pr.stderr[-500:])
    stats["fresh_process_cases"] = len(pick)
    for k, fr in zip(pick, fresh):
        res.oracle_runs += 1
        if json.loads(json.dumps([k["impl"]["tree"], k["impl"]["tuple"]])) != fr:
            res.oracle_violations.append({"what": "tree built in this process differs from the tree a fresh process builds for the same input",
                                          "input": tree_case_json(k), "observed": {"fresh": fr}, "signature": "C20:fresh"})
    for k in tcases:
        stats["n_candidates"][k["ncand"]] = stats["n_candidates"].get(k["ncand"], 0) + 1
        stats["styles"][k["style"]] = stats["styles"].get(k["style"], 0) + 1
        if "tree" in k["impl"]:
            up = tree_has_unpruned(k["impl"]["tree"])
            stats["unpruned" if up else "fully_pruned"] += 1
        if k["c"] not in k["S"]:
            res.oracle_runs += 1
            found = oracle_tree(k)[:3] if k["ncand"] <= 7 else []      # all |S|! orders, tags of every pruned node
            lazy = oracle_orders(k)                                      # shown unpruned leaves == surviving orders, any size
            if lazy is None:
                stats["order_search_gave_up"] = stats.get("order_search_gave_up", 0) + 1
            else:
                if "tree" in k["impl"] and k["ncand"] >= 9:
                    dp = max([len(o) - 1 for o in shown_unpruned(k["impl"]["tree"], {})] + [0])
                    stats["big_worlds_with_surviving_leaf" if dp else "big_worlds_fully_pruned"] = \
                        stats.get("big_worlds_with_surviving_leaf" if dp else "big_worlds_fully_pruned", 0) + 1
                found += [x for x in lazy if x[0] not in {w for w, _ in found}][:2]
            for what, detail in found:
                res.oracle_violations.append({"what": what, "input": tree_case_json(k), "observed": C.jsonable(detail),
                                              "signature": "C20:" + what.split(" =")[0]})
        if k["WO"] or k["IRV"]:
            res.nontrivial.add(json.dumps(tree_case_json(k), sort_keys=True, default=str))
    cr = C.run_corr(ctx.pid, "tree", IMPORTS, "tree_case", tcases, tree_case_lit, "agree_tree", shard=80, show="show_tree")
    res.corr.append(("buildRemainingTreeAsLists + treeListToTuple vs IrvVis.build_tree / tree_to_tuple", cr, tree_case_json))
    cr2 = C.run_corr(ctx.pid, "parse", IMPORTS, "parse_case", pcases, parse_case_lit, "agree_parse", shard=120, show="show_parse")
    res.corr.append(("parseAssertions (RLA-log and RAIRE dialects) vs IrvVis.parse_assertions", cr2, parse_case_json))
    res.evaluations += len(tcases) + len(pcases)
    res.rule = ("3 candidates: every set of <= 2 assertions out of all 18 possible tuples, also under renamings to awkward ids; 30% of "
                "the groups use identifiers that are prefixes / concatenations of each other, contain spaces, mix ints and strings or "
                "have leading zeros, with NEN assertions whose eliminated set looks like (but is not) the set on a surviving order; "
                "9-11 candidate worlds kept small by NEB chains with deep (level 7-10) contradictions or surviving leaves, checked by "
                "an independent forward search over elimination orders; then, per candidate-id set, 4-8 builds on the SAME WOLosers/IRVElims list objects edited in place between builds (pop, append, replace, set inside a tuple altered, clear, reverse, refill) or dropped and re-created, the oracle run on every build; groups of 3-6 consecutive calls over one candidate-id set (2-6 candidates) with different assertion sets: sufficient sets "
                "built by brute force on the meaning of the assertions, the same minus one assertion, with duplicated tuples (same / flipped "
                "proved flag), random, mutually inconsistent, NEN with empty eliminated set, assertions naming the alternative winner, "
                "foreign candidate ids, none; builds run in a random interleaving of all contests, 6% built again later, 12% rebuilt after the caller emptied / spoiled the first tree, eliminated sets as set or frozenset, a sample rebuilt in a fresh process, buildPrintedResults (drawing stubbed) compared with the direct construction and the surviving orders; trees also built from parseAssertions output; logs re-serialised with sorted keys, keys reordered and unknown keys added at every level, already_eliminated as list/tuple/set/frozenset in any order, int candidate ids (RAIRE dialect), every log parsed twice; parse files in both dialects (assertion_json "
                "full/short/long/absent, unknown types, contest selection, proved encodings); non-trivial = at least one assertion, "
                "distinct by (c, S, assertions)")
    res.samples = [tree_case_json(k) for k in tcases[:3]] + [parse_case_json(k) for k in pcases[:1]]
    res.stats = stats
    # regenerated tie: whole-function skeletons of the anchored functions + lemmas against the hand model
    genarith.regenerate(ctx.pid, "tree_skeletons", res)
    res.assumptions = ["Python set iteration order is not part of the property: children are sorted by candidate before comparison",
                       "tag strings are parsed back into (numbers, Confirmed/Unconfirmed) parts by the harness; json is trusted"]
