"""C07 — consistent sampling gives every contest the first cards of its own random order."""
from . import common as C, sampling as S

ANCHORS = S.ANCHORS


def viol(res, what, inp, observed=None):
    res.oracle_violations.append({"what": what, "input": inp, "observed": observed, "signature": "C07:" + what})


def oracle_history_filter(case, alt_votes, alt_mvrs):
    """The data each contest's assertion sees = that contest's first n_c cards, in order (comparison audits with
    style); the selection does not depend on vote contents; which cards enter the data does not depend on the MVRs."""
    bad = []
    h, out = case["hist"], case["out"]
    spec = h["spec"]
    if len(set(spec["nums"])) != len(spec["nums"]):
        return bad
    cnt = S.counts(spec)
    for variant, o in (("", out), (" (other vote contents)", alt_votes), (" (other manual records)", alt_mvrs)):
        for r, rec in enumerate(o["rounds"]):
            sizes = rec["sizes"]
            if any(k > c for k, c in zip(sizes, cnt)) or (r > 0 and any(a > b for a, b in zip(h["sizes"][r - 1], sizes))):
                break
            if rec["sel"][0] != "ok":
                bad.append(f"round raises {rec['sel'][1]} although every sample size is available" + variant)
                break
            if rec["sel"][1] != S.ref_selection(spec, sizes):
                bad.append("selection is not the union of each contest's first n_c cards in sample-number order" + variant)
                break
            if rec["prep"][0] != "ok" or rec["ids"] != (rec["sel"][1], rec["sel"][1]):
                bad.append("prep_comparison_sample does not put the samples into selection order" + variant)
                break
            for j, k in enumerate(sizes):
                ty, us = spec["cfg"][j]
                if k < 1:
                    continue
                first = S.ref_first(spec, j, k)
                if rec["thr"][j] != spec["nums"][first[-1]]:
                    bad.append("threshold is not the sample number of the contest's n_c-th card" + variant)
                    break
                if ty == "POLLING" or not us:
                    continue
                d = rec["data"][j]
                want = [o["f"][j][i] for i in first]
                if d[0] != "ok":
                    bad.append(f"mvrs_to_data raises {d[1]} for a contest with n_c >= 1" + variant)
                elif len(d[1]) != k:
                    bad.append("data for a contest does not have exactly n_c entries" + variant)
                elif d[1] != want:
                    bad.append("data for a contest are not its first n_c cards in sample-number order" + variant)
    return bad


def run(ctx, res):
    stats = {}
    # 1. consistent_sampling alone
    cases = S.corr_single(ctx, res, stats)
    for c in cases:
        for q in c["queries"]:
            res.oracle_runs += 1
            for what in S.oracle_query(c["spec"], q):
                viol(res, what, {"nums": [str(x) for x in c["spec"]["nums"]], "styles": c["spec"]["styles"],
                                 "sample_num_objects": [repr(v) for v in S.impl_nums(c["spec"])] if "impl_nums" in c["spec"] else None,
                                 "before_these_calls": c.get("prelude"), "pre_seed": c.get("pre_seed"),
                                 "seed": c["spec"].get("seed"), "built_by_from_dict": bool(c["spec"].get("via_dict")),
                                 "query": C.jsonable(q)})
            if q["sel"][0] == "ok" and 0 < len(q["sel"][1]) < c["spec"]["n"]:
                res.nontrivial.add(repr((c["spec"]["nums"], c["spec"]["styles"], q["sizes"], q["prev"])))
            k = "call: " + ("fresh" if q["prev"] is None else "continued")
            stats[k] = stats.get(k, 0) + 1
    # 2. sample numbers, mvrs_to_data boundary stream, prep_*
    small = S.corr_small(ctx, res, stats)
    for c in small["asn"]:
        res.oracle_runs += 1
        for what in S.oracle_asn(c):
            viol(res, what, S.asn_case_json(c))
    # 3. the whole path on round histories: sampling -> prep -> mvrs_to_data, with vote contents / manual records varied
    hcases = S.corr_histories(ctx, res, stats, ctx.n(160, 1200), ctx.n(40, 300))
    for c in hcases:
        h = c["hist"]
        if not h["valid"]:
            continue
        sd = h["seeds"]
        alt_v = S.run_history(h, votes_seed=sd[0] + 1, mvr_seed=sd[1], shuffle_seed=sd[2] + 1)
        alt_m = S.run_history(h, votes_seed=sd[0], mvr_seed=sd[1] + 1, shuffle_seed=sd[2] + 2)
        res.oracle_runs += 3
        for what in oracle_history_filter(c, alt_v, alt_m):
            viol(res, what, S.hist_case_json(c))
        for a, b in zip(c["out"]["rounds"], alt_v["rounds"]):
            if (a["sel"], a["thr"], a["flags"]) != (b["sel"], b["thr"], b["flags"]):
                viol(res, "selection or thresholds change when only the vote contents change", S.hist_case_json(c))
                break
        if any(r["sel"][0] == "ok" and 0 < len(r["sel"][1]) < h["spec"]["n"] for r in c["out"]["rounds"]):
            res.nontrivial.add(repr((h["spec"]["nums"], h["spec"]["styles"], h["sizes"], h["modes"])))
    res.exhaustive = True
    res.rule = (f"exhaustive: every style pattern of <= 5 cards over 2 contests x every size vector 0..available "
                f"(fresh draw, then continued from the selection of a smaller-or-equal vector), all orders of the sample numbers for "
                f"<= {ctx.n(3, 4)} cards and one random order per pattern above, objects reused between calls; random: 0-14 cards, "
                "1-4 contests in shuffled dict order, contests on cards that are not audited, phantoms, str/int/tuple ids, "
                "256-bit sample numbers, ties, sizes above what is available (IndexError), arbitrary sampled_cvr_indices; "
                "round histories (2-4 rounds) through prep_comparison_sample and mvrs_to_data with manual records whose contest "
                "sets differ from the CVRs; non-trivial = selection non-empty and not all cards, distinct by (numbers, styles, sizes, prev)")
    res.samples = [S.cs_case_json(c) for c in cases[-2:]] + [S.hist_case_json(c) for c in hcases[:2]]
    res.stats = stats
    # regenerated tie: whole-function skeletons of has_contest / consistent_sampling / assign_sample_nums / mvrs_to_data /
    # set_p_values; lemmas identify their line-by-line reading with Sampling.v (coq/gen/GenProofs_sampling_skeletons.v)
    from . import genarith
    genarith.regenerate(ctx.pid, "sampling_skeletons", res)
    res.assumptions = ["SHA-256 / cryptorandom.int_from_hash are trusted (the stream is recomputed with hashlib and compared)",
                       "contests dict key == Contest.id (as Contest.from_dict_of_dicts builds it); Python's sort is stable",
                       "the assorter value of a (mvr, cvr) pair is an abstract function in the model (Section variable f); "
                       "only which pairs enter the data, and in which order, is modelled"]
