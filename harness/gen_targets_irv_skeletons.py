"""Whole-function skeletons for property C14 (group "irv_skeletons" of harness/genarith.py).

Every statement of the audit-side ranked-vote predicates (CVR.get_vote_for, CVR.rcv_lfunc_wo, CVR.rcv_votefor_cand,
the assorter-building part of Assorter.__init__, Assertion.make_assertions_from_json) and of the generator-side ones
(raire_utils.ranking, vote_for_cand, NEBAssertion / NENAssertion .is_vote_for_winner/loser) is matched as exact
`ast.unparse` text; any change is a refusal (= broken obligations).  The `tail` of each target is the line-by-line
Gallina reading of exactly those lines (loops as loops with early return, not as the `existsb` of the hand model);
coq/gen/GenProofs_irv_skeletons.v proves each tail equal to the IrvRead.v function and restates C14's equality between
the two regenerated readings."""

GROUP = "irv_skeletons"
HEADER = "From SV Require Import IrvRead.\nOpen Scope Z_scope.\n"

A = "shangrla/core/Audit.py"
R = "shangrla/raire/raire_utils.py"

TAIL_GVF = """Definition gen_gvf_tail (votes : acvr) (contest_id candidate : key) : Z :=
  match dget votes contest_id with
  | None => 0%Z                                   (* False if contest_id not in self.votes *)
  | Some d => match dget d candidate with
              | None => 0%Z                       (* ... or candidate not in self.votes[contest_id] *)
              | Some r => r                       (* else self.votes[contest_id][candidate] *)
              end
  end.
"""

TAIL_LFUNC = """(* the decisive comparisons, as a function of the two ranks *)
Definition gen_lfunc_ranks (rank_winner rank_loser : Z) : Z :=
  (if negb (truthy rank_winner) && truthy rank_loser then 1       (* if not bool(rank_winner) and bool(rank_loser): return 1 *)
   else if truthy rank_winner && truthy rank_loser && (rank_loser <? rank_winner) then 1
                                                                  (* elif bool(rank_winner) and bool(rank_loser) and (rank_loser < rank_winner): return 1 *)
   else 0)%Z.                                                     (* else: return 0 *)
Definition gen_lfunc_tail (votes : acvr) (contest_id winner loser : key) : Z :=
  let rank_winner := gen_gvf_tail votes contest_id winner in      (* rank_winner = self.get_vote_for(contest_id, winner) *)
  let rank_loser := gen_gvf_tail votes contest_id loser in        (* rank_loser = self.get_vote_for(contest_id, loser) *)
  gen_lfunc_ranks rank_winner rank_loser.
"""

TAIL_VOTEFOR = """(* the for loop with its early returns, over the ranks rank_of altc = self.get_vote_for(contest_id, altc) *)
Fixpoint gen_votefor_loop (rank_of : key -> Z) (cand : key) (rank_cand : Z) (remaining : list key) : Z :=
  match remaining with
  | [] => 1%Z                                                     (* return 1 *)
  | altc :: rest =>                                               (* for altc in remaining: *)
      if Nat.eqb altc cand then gen_votefor_loop rank_of cand rank_cand rest          (* if altc == cand: continue *)
      else let rank_altc := rank_of altc in                       (* rank_altc = self.get_vote_for(contest_id, altc) *)
           if truthy rank_altc && (rank_altc <=? rank_cand)%Z then 0%Z                (* if bool(rank_altc) and rank_altc <= rank_cand: return 0 *)
           else gen_votefor_loop rank_of cand rank_cand rest
  end.
Definition gen_votefor_tail (votes : acvr) (contest_id cand : key) (remaining : list key) : Z :=
  if negb (mem cand remaining) then 0%Z                           (* if not cand in remaining: return 0 *)
  else let rank_cand := gen_gvf_tail votes contest_id cand in     (* rank_cand := self.get_vote_for(contest_id, cand) *)
       if negb (truthy rank_cand) then 0%Z                        (* if not bool(rank_cand): return 0 *)
       else gen_votefor_loop (gen_gvf_tail votes contest_id) cand rank_cand remaining.
"""

TAIL_ASSORTER = """(* Assorter.__init__, winner/loser form: self.assort = lambda cvr: (self.winner(cvr) - self.loser(cvr) + 1) / 2 *)
Definition gen_assorter_init_tail (winner_of_cvr loser_of_cvr : Z) : Q :=
  (inject_Z (winner_of_cvr - loser_of_cvr + 1) / 2)%Q.
"""

TAIL_MAJ = """(* WINNER_ONLY branch: the two lambdas handed to Assorter(winner=, loser=) *)
Definition gen_maj_neb_tail (votes : acvr) (contest_id winr losr : key) : Q :=
  let winner_func := (if gen_gvf_tail votes contest_id winr =? 1 then 1 else 0)%Z in   (* 1 if v.get_vote_for(contest_id, winr) == 1 else 0 *)
  let loser_func := gen_lfunc_tail votes contest_id winr losr in                       (* v.rcv_lfunc_wo(contest_id, winr, losr) *)
  gen_assorter_init_tail winner_func loser_func.
(* IRV_ELIMINATION branch: remn and the assort lambda *)
Definition gen_maj_nen_tail (votes : acvr) (contest_id : key) (candidates : list key) (winr losr : key)
    (already_eliminated : list key) : Q :=
  let elim := already_eliminated in                                                    (* elim = [e for e in assrtn['already_eliminated']] *)
  let remn := filter (fun c => negb (mem c elim)) candidates in                        (* remn = [c for c in candidates if c not in elim] *)
  (inject_Z (gen_votefor_tail votes contest_id winr remn
             - gen_votefor_tail votes contest_id losr remn + 1) / 2)%Q.                (* (v.rcv_votefor_cand(contest.id, winner, remn) - v.rcv_votefor_cand(contest.id, loser, remn) + 1) / 2 *)
"""

TAIL_RANKING = """Definition gen_ranking_tail (cand : key) (ballot : rdict) : Z :=
  match dget ballot cand with
  | None => (-1)%Z                                (* if not cand in ballot: return -1 *)
  | Some i => i                                   (* return ballot[cand] *)
  end.
"""

TAIL_VFC = """Fixpoint gen_vfc_loop (cand : key) (eliminated : list key) (c_idx : Z) (items : rdict) : Z :=
  match items with
  | [] => 1%Z                                                     (* return 1 *)
  | (alt_c, a_idx) :: rest =>                                     (* for (alt_c, a_idx) in ballot.items(): *)
      if Nat.eqb alt_c cand then gen_vfc_loop cand eliminated c_idx rest               (* if alt_c == cand: continue *)
      else if mem alt_c eliminated then gen_vfc_loop cand eliminated c_idx rest        (* if alt_c in eliminated: continue *)
      else if (a_idx <? c_idx)%Z then 0%Z                         (* if a_idx < c_idx: return 0 *)
      else gen_vfc_loop cand eliminated c_idx rest
  end.
Definition gen_vfc_tail (cand : key) (eliminated : list key) (ballot : rdict) : Z :=
  if mem cand eliminated then 0%Z                                 (* if cand in eliminated: return 0 *)
  else let c_idx := gen_ranking_tail cand ballot in               (* c_idx = ranking(cand, ballot) *)
       if (c_idx =? -1)%Z then 0%Z                                (* if c_idx == -1: return 0 *)
       else gen_vfc_loop cand eliminated c_idx ballot.
"""

TAIL_NEB_W = """Definition gen_neb_w_tail (contest winner : key) (cvr : gcvr) : Z :=
  match dget cvr contest with
  | None => 0%Z                                                   (* if not self.contest in cvr: return 0 *)
  | Some b => (if gen_ranking_tail winner b =? 0 then 1 else 0)%Z (* return 1 if ranking(self.winner, cvr[self.contest]) == 0 else 0 *)
  end.
"""

TAIL_NEB_L = """Definition gen_neb_l_ranks (w_idx l_idx : Z) : Z :=
  (if negb (l_idx =? -1) && ((w_idx =? -1) || (negb (w_idx =? -1) && (l_idx <? w_idx))) then 1 else 0)%Z.
                                                                  (* return 1 if l_idx != -1 and (w_idx == -1 or (w_idx != -1 and l_idx < w_idx)) else 0 *)
Definition gen_neb_l_tail (contest winner loser : key) (cvr : gcvr) : Z :=
  match dget cvr contest with
  | None => 0%Z                                                   (* if not self.contest in cvr: return 0 *)
  | Some b => let w_idx := gen_ranking_tail winner b in           (* w_idx = ranking(self.winner, cvr[self.contest]) *)
              let l_idx := gen_ranking_tail loser b in            (* l_idx = ranking(self.loser, cvr[self.contest]) *)
              gen_neb_l_ranks w_idx l_idx
  end.
"""

TAIL_NEN_W = """Definition gen_nen_w_tail (contest winner : key) (eliminated : list key) (cvr : gcvr) : Z :=
  match dget cvr contest with
  | None => 0%Z                                                   (* if not self.contest in cvr: return 0 *)
  | Some b => gen_vfc_tail winner eliminated b                    (* return vote_for_cand(self.winner, self.eliminated, cvr[self.contest]) *)
  end.
"""

TAIL_NEN_L = """Definition gen_nen_l_tail (contest loser : key) (eliminated : list key) (cvr : gcvr) : Z :=
  match dget cvr contest with
  | None => 0%Z                                                   (* if not self.contest in cvr: return 0 *)
  | Some b => gen_vfc_tail loser eliminated b                     (* return vote_for_cand(self.loser, self.eliminated, cvr[self.contest]) *)
  end.
"""

NOT_IN_CVR = "if not self.contest in cvr:\n    return 0"
NNM_CALL = "_test = NonnegMean(test=test, estim=estim, bet=bet, u=1, N=contest.cards, t=1 / 2, random_order=True, **test_kwargs)"

TARGETS = [
    # ------------------------------------------------------------------ audit side
    dict(name="gvf", kind="skeleton", file=A, func="CVR.get_vote_for",
         skeleton=[("text", "return False if contest_id not in self.votes or candidate not in self.votes[contest_id] "
                            "else self.votes[contest_id][candidate]")],
         tail=TAIL_GVF),
    dict(name="lfunc", kind="skeleton", file=A, func="CVR.rcv_lfunc_wo",
         skeleton=[("text", "rank_winner = self.get_vote_for(contest_id, winner)"),
                   ("text", "rank_loser = self.get_vote_for(contest_id, loser)"),
                   ("text", "if not bool(rank_winner) and bool(rank_loser):\n    return 1\n"
                            "elif bool(rank_winner) and bool(rank_loser) and (rank_loser < rank_winner):\n    return 1\n"
                            "else:\n    return 0")],
         tail=TAIL_LFUNC),
    dict(name="votefor", kind="skeleton", file=A, func="CVR.rcv_votefor_cand",
         skeleton=[("text", "if not cand in remaining:\n    return 0"),
                   ("text", "if not bool((rank_cand := self.get_vote_for(contest_id, cand))):\n    return 0\n"
                            "else:\n    for altc in remaining:\n        if altc == cand:\n            continue\n"
                            "        rank_altc = self.get_vote_for(contest_id, altc)\n"
                            "        if bool(rank_altc) and rank_altc <= rank_cand:\n            return 0\n"
                            "    return 1")],
         tail=TAIL_VOTEFOR),
    dict(name="assorter_init", kind="skeleton", file=A, func="Assorter.__init__",
         skeleton=[("text", "self.contest = contest"), ("text", "self.winner = winner"), ("text", "self.loser = loser"),
                   ("text", "self.upper_bound = upper_bound"),
                   ("text", "if assort is not None:\n    assert callable(assort), 'assort must be callable'\n"
                            "    self.assort = assort\nelse:\n"
                            "    assert callable(winner), 'winner must be callable if assort is None'\n"
                            "    assert callable(loser), 'loser must be callable if assort is None'\n"
                            "    self.assort = lambda cvr: (self.winner(cvr) - self.loser(cvr) + 1) / 2"),
                   ("text", "self.tally_pool_means = tally_pool_means")],
         tail=TAIL_ASSORTER),
    dict(name="maj", kind="skeleton", file=A, func="Assertion.make_assertions_from_json",
         skeleton=[("text", "assertions = {}"),
                   ("for", "assrtn in json_assertions"),
                   ("text", "winr = assrtn['winner']"),
                   ("text", "losr = assrtn['loser']"),
                   ("if", "assrtn['assertion_type'] == cls.WINNER_ONLY"),
                   ("text", "winner_func = lambda v, contest_id=contest.id, winr=winr: "
                            "1 if v.get_vote_for(contest_id, winr) == 1 else 0"),
                   ("text", "loser_func = lambda v, contest_id=contest.id, winr=winr, losr=losr: "
                            "v.rcv_lfunc_wo(contest_id, winr, losr)"),
                   ("text", "wl_pair = winr + ' v ' + losr"),
                   ("text", NNM_CALL),
                   ("text", "assertions[wl_pair] = Assertion(contest, Assorter(contest=contest, winner=winner_func, "
                            "loser=loser_func, upper_bound=1), winner=winr, loser=losr, test=_test)"),
                   ("else",),
                   ("if", "assrtn['assertion_type'] == cls.IRV_ELIMINATION"),
                   ("text", "elim = [e for e in assrtn['already_eliminated']]"),
                   ("text", "remn = [c for c in candidates if c not in elim]"),
                   ("text", "wl_given = winr + ' v ' + losr + ' elim ' + ' '.join(elim)"),
                   ("text", NNM_CALL),
                   ("text", "assertions[wl_given] = Assertion(contest, Assorter(contest=contest, assort=lambda v, "
                            "contest_id=contest.id, winner=winr, loser=losr, remn=remn: "
                            "(v.rcv_votefor_cand(contest.id, winner, remn) - v.rcv_votefor_cand(contest.id, loser, remn) + 1) / 2, "
                            "upper_bound=1), winner=winr, loser=losr, test=_test)"),
                   ("else",),
                   ("text", "raise NotImplemented(f'JSON assertion type {assrtn['assertion_type']} not implemented.')"),
                   ("endif",), ("endif",), ("endfor",),
                   ("text", "return assertions")],
         tail=TAIL_MAJ),
    # ------------------------------------------------------------------ generator side
    dict(name="ranking", kind="skeleton", file=R, func="ranking",
         skeleton=[("text", "if not cand in ballot:\n    return -1"), ("text", "return ballot[cand]")],
         tail=TAIL_RANKING),
    dict(name="vfc", kind="skeleton", file=R, func="vote_for_cand",
         skeleton=[("text", "if cand in eliminated:\n    return 0"),
                   ("text", "c_idx = ranking(cand, ballot)"),
                   ("text", "if c_idx == -1:\n    return 0"),
                   ("for", "(alt_c, a_idx) in ballot.items()"),
                   ("text", "if alt_c == cand:\n    continue"),
                   ("text", "if alt_c in eliminated:\n    continue"),
                   ("text", "if a_idx < c_idx:\n    return 0"),
                   ("endfor",),
                   ("text", "return 1")],
         tail=TAIL_VFC),
    dict(name="neb_w", kind="skeleton", file=R, func="NEBAssertion.is_vote_for_winner",
         skeleton=[("text", NOT_IN_CVR),
                   ("text", "return 1 if ranking(self.winner, cvr[self.contest]) == 0 else 0")],
         tail=TAIL_NEB_W),
    dict(name="neb_l", kind="skeleton", file=R, func="NEBAssertion.is_vote_for_loser",
         skeleton=[("text", NOT_IN_CVR),
                   ("text", "w_idx = ranking(self.winner, cvr[self.contest])"),
                   ("text", "l_idx = ranking(self.loser, cvr[self.contest])"),
                   ("text", "return 1 if l_idx != -1 and (w_idx == -1 or (w_idx != -1 and l_idx < w_idx)) else 0")],
         tail=TAIL_NEB_L),
    dict(name="nen_w", kind="skeleton", file=R, func="NENAssertion.is_vote_for_winner",
         skeleton=[("text", NOT_IN_CVR),
                   ("text", "return vote_for_cand(self.winner, self.eliminated, cvr[self.contest])")],
         tail=TAIL_NEN_W),
    dict(name="nen_l", kind="skeleton", file=R, func="NENAssertion.is_vote_for_loser",
         skeleton=[("text", NOT_IN_CVR),
                   ("text", "return vote_for_cand(self.loser, self.eliminated, cvr[self.contest])")],
         tail=TAIL_NEN_L),
]
