"""C08 — phantom records account for every possible card and are scored worst-case.

Correspondence: CVR.make_phantoms, Dominion/Hart.sample_from_cvrs (phantom MVR creation), Assorter.overstatement and
Assertion.overstatement_assorter of /repo against coq/theories/Phantoms.v (evaluated in Run_Phantoms.v).
Oracle: the property text evaluated on the implementation alone (counts, originals first and unchanged, unique ids,
no excess; B(phantom mvr, cvr) <= B(mvr, cvr); unpooled phantom CVR scores exactly 1/2)."""
import copy
import itertools
import math
from fractions import Fraction as F

import numpy as np

from . import common as C

IMPORTS = "From SV Require Import Run_Phantoms.\nOpen Scope Z_scope."
ANCHORS = [("shangrla/core/Audit.py",
            ["CVR.__init__", "CVR.has_contest", "CVR.make_phantoms", "Assorter.overstatement",
             "Assertion.overstatement_assorter"]),
           ("shangrla/formats/Dominion.py", ["Dominion.sample_from_cvrs", "Dominion.sample_from_manifest"]),
           ("shangrla/formats/Hart.py", ["Hart.sample_from_cvrs", "Hart.sample_from_manifest"])]


def lib():
    from shangrla.core import Audit as A
    return A


def exc_code(e):
    if isinstance(e, NotImplementedError):
        return "ENotImpl"
    for t, n in ((TypeError, "EType"), (ValueError, "EValue"), (KeyError, "EKey"), (StopIteration, "EStop"),
                 (AssertionError, "EAssert")):
        if isinstance(e, t):
            return n
    return "EOther"


# ---------------------------------------------------------------- snapshots and Coq literals
def flag(x):
    return bool(x) if isinstance(x, (bool, np.bool_)) else x


def snap(c):
    """Everything observable about a CVR object, as plain data (taken before and after calls)."""
    votes = c.votes
    default = (all(v == {} and isinstance(v, dict) for v in votes.values()) and c.card_in_batch is None
               and c.sample_num is None and c.p is None and c.sampled is False)
    return {"id": c.id, "contests": list(votes.keys()),
            "content": None if default else repr((sorted((str(k), repr(v)) for k, v in votes.items()), c.card_in_batch,
                                                  c.sample_num, c.p, c.sampled)),
            "phantom": flag(c.phantom), "tally_pool": c.tally_pool, "pool": flag(c.pool)}


class Enc:
    """Names -> numbers, one table per case (identifiers, contests, pool labels, content tags)."""

    def __init__(self, prefix="phantom-"):
        self.prefix, self.ids, self.cn, self.pools, self.tags = prefix, {}, {}, {repr(None): 0}, {}

    def contest(self, name):
        return self.cn.setdefault(repr(name), len(self.cn) + 1)

    def pool(self, label):
        return self.pools.setdefault(repr(label), len(self.pools))

    def ident(self, i):
        p = self.prefix
        if isinstance(i, str) and isinstance(p, str) and i.startswith(p):
            rest = i[len(p):]
            if rest.isascii() and rest.isdigit() and str(int(rest)) == rest:
                return f"(Phant {C.zlit(int(rest))})"
        return f"(Orig {C.zlit(self.ids.setdefault(repr(i), len(self.ids) + 1))})"

    def tag(self, content):
        return 0 if content is None else self.tags.setdefault(content, len(self.tags) + 1)

    def card(self, s, tag=None):
        return ("(mkcard " + self.ident(s["id"]) + " " + C.listlit([C.zlit(self.contest(k)) for k in s["contests"]]) + " "
                + C.zlit(self.tag(s["content"]) if tag is None else tag) + " " + C.blit(s["phantom"]) + " "
                + C.zlit(self.pool(s["tally_pool"])) + " " + C.blit(s["pool"]) + ")")


# ---------------------------------------------------------------- representations a caller legally holds
def rep_kind(rng):
    """one representation per world for integers / flags / floats: Python or numpy (e.g. from a pandas / numpy sum)"""
    return {"int": rng.choice([int, int, np.int64, np.int32]), "bool": rng.choice([bool, bool, np.bool_]),
            "float": rng.choice([float, float, np.float64])} if rng is not None else {"int": int, "bool": bool, "float": float}


def rep(kind, which, x):
    if x is None or isinstance(x, str):
        return x
    return kind[which](x)


def pyint(x):
    return None if x is None else int(x)


def res_lit(exc, ok_lit):
    return f"(Err {exc})" if exc else f"(Ok {ok_lit})"


# ================================================================ make_phantoms
def build_cvrs(specs):
    CVR = lib().CVR
    out = []
    for s in specs:
        kw = {}
        if s.get("tally_pool") is not None:
            kw["tally_pool"] = s["tally_pool"]
        if s.get("pool"):
            kw["pool"] = True
        if s.get("phantom"):
            kw["phantom"] = True
        out.append(CVR(id=s["id"], votes=copy.deepcopy(s["votes"]), **kw))
    return out


def call_make_phantoms(audit, contests, cvr_list, call, asked=None):
    """One call of the real make_phantoms on live objects; returns the case (inputs read just before, outputs after)."""
    CVR = lib().CVR
    before = [snap(c) for c in cvr_list]
    # first call on freshly built contests: the bounds the caller asked for; later calls: the objects' current state
    cons_before = list(asked) if asked is not None else [(con.id, pyint(con.cards)) for con in contests.values()]
    strata = [(bool(st.use_style), pyint(st.max_cards)) for st in audit.strata.values()]
    kw = {}
    prefix, tp, pool = call.get("prefix", "phantom-"), call.get("tally_pool"), call.get("pool", False)
    if "prefix" in call:
        kw["prefix"] = prefix
    if "tally_pool" in call:
        kw["tally_pool"] = tp
    if "pool" in call:
        kw["pool"] = pool
    case = {"strata": strata, "contests": cons_before, "keys": list(contests.keys()), "before": before, "prefix": prefix,
            "tally_pool": tp, "pool": pool, "exc": None}
    try:
        if call.get("positional"):
            out, n = CVR.make_phantoms(audit, contests, cvr_list, *([prefix] if "prefix" in call else []))
        else:
            out, n = CVR.make_phantoms(audit=audit, contests=contests, cvr_list=cvr_list, **kw)
        case["out"] = [snap(c) for c in out]
        case["same_objects"] = all(a is b for a, b in zip(out, cvr_list)) and len(out) >= len(cvr_list)
        case["n"] = n
        case["out_objs"] = out
    except Exception as e:  # noqa
        case["exc"] = exc_code(e)
        case["exc_text"] = f"{type(e).__name__}: {e}"
    case["cons_after"] = [(con.id, pyint(con.cards), pyint(getattr(con, "cvrs", None))) for con in contests.values()]
    case["representation"] = getattr(audit, "_rep", None)
    case["in_after"] = [snap(c) for c in cvr_list]
    return case


def mp_lit(c):
    e = Enc(c["prefix"])
    strata = C.listlit([f"({C.blit(us)}, {C.optlit(mc, C.zlit)})" for us, mc in c["strata"]])
    cons = C.listlit([f"({C.zlit(e.contest(i))}, {C.optlit(b, C.zlit)})" for i, b in c["contests"]])
    cvrs = C.listlit([e.card(s) for s in c["before"]])
    if c["exc"]:
        out = f"(Err {c['exc']})"
    else:
        ks = C.listlit([f"(mkcs {C.zlit(e.contest(i))} {C.optlit(b, C.zlit)} {C.zlit(int(v))})" for i, b, v in c["cons_after"]])
        out = f"(Ok ({C.listlit([e.card(s) for s in c['out']])}, {C.zlit(int(c['n']))}, {ks}))"
    return (f"(mkmp {strata} {cons} {cvrs} {C.zlit(e.pool(c['tally_pool']))} {C.blit(c['pool'])} {out} "
            f"{C.listlit([e.card(s) for s in c['in_after']])})")


def mp_json(c):
    return C.jsonable({k: v for k, v in c.items() if k != "out_objs"})


CONTEST_NAMES = ["city_council", "measure_1", "mayor", "DA"]
VOTES = [{}, {"Alice": 1}, {"Bob": True}, {"Alice": 1, "Bob": 2}, {"yes": "marked"}, {"no": 0}]


def gen_cvr_specs(rng, names, n, idstyle):
    specs = []
    unlisted = {k for k in names if rng.random() < 0.12}        # contests that no CVR lists (bound 0 is legal for them)
    for i in range(n):
        votes = {}
        pool_of = names + (["other"] if rng.random() < 0.3 else [])
        order = pool_of[:]
        rng.shuffle(order)
        for k in order:
            if rng.random() < 0.6 and k not in unlisted:
                votes[k] = copy.deepcopy(rng.choice(VOTES))
        if idstyle == "dominion":
            cid = f"{rng.randint(1, 3)}-{rng.randint(1, 2)}-{i + 1}"
        elif idstyle == "hart":
            cid = f"B{rng.randint(1, 2)}_{i + 1}"
        elif idstyle == "int":
            cid = i + 1
        else:
            cid = str(i + 1)
        s = {"id": cid, "votes": votes}
        if rng.random() < 0.25:
            s["tally_pool"] = rng.choice(["p1", "p2"])
            s["pool"] = rng.random() < 0.6
        specs.append(s)
    return specs


def make_objects(strata, con_specs, cvr_specs, route="from_dict", rng=None):
    """Build the audit, the contests and the CVRs.  The contests are built the way `route` says (Contest.from_dict,
    Contest.from_dict_of_dicts, or the constructor); also returns what the caller ASKED for, [(id, card bound)], which is
    what the first call of make_phantoms is checked against (construction is part of the path to make_phantoms;
    an omitted bound is the constructor's documented default 0)."""
    A = lib()
    kind = rep_kind(rng)
    # The bound in force is the STRATUM's max_cards (make_phantoms / from_cvr_list read stratum.max_cards; C08: "the stratum's
    # card bound").  The Audit object also has a top-level max_cards attribute: absent, equal, or a different (stale) number;
    # and the stratum's bound is sometimes revised in place after construction (e.g. 8 -> 10).
    ad = {"strata": {f"s{i}": {"use_style": rep(kind, "bool", us), "max_cards": rep(kind, "int", mc)}
                     for i, (us, mc) in enumerate(strata)}}
    top, revised = "absent", False
    if rng is not None and strata:
        r = rng.random()
        mc0 = strata[0][1]
        if r < 0.3:
            top, ad["max_cards"] = "equal", rep(kind, "int", mc0)
        elif r < 0.65:
            top, ad["max_cards"] = "different", rep(kind, "int", (mc0 or 0) + rng.choice([-2, -1, 1, 2, 3, 10]))
        if rng.random() < 0.3 and mc0 is not None:
            revised = True
            for v in ad["strata"].values():
                v["max_cards"] = rep(kind, "int", max(0, mc0 - rng.choice([1, 2, 5])))      # the bound first announced
            if top == "equal" and rng.random() < 0.5:
                ad["max_cards"] = rep(kind, "int", max(0, mc0 - 2))                           # top-level copy not revised
    audit = A.Audit.from_dict(ad)
    if revised:
        for st, (us, mc) in zip(audit.strata.values(), strata):
            st.max_cards = rep(kind, "int", mc)                                               # revised in place
    dicts = {}
    for key, cid, cards in con_specs:
        d = {"id": cid, "name": str(cid), "candidates": ["Alice", "Bob"], "winner": ["Alice"], "n_winners": rep(kind, "int", 1)}
        if cards != "default":
            d["cards"] = rep(kind, "int", cards)       # the bound in the representation the caller holds (int, np.int64, np.int32)
        dicts[key] = d
    if route == "dod" and all(key == cid for key, cid, _ in con_specs) and len(dicts) == len(con_specs):
        contests = A.Contest.from_dict_of_dicts(copy.deepcopy(dicts))       # sets id = key
    elif route == "ctor":
        contests = {key: A.Contest(**d) for key, d in dicts.items()}
    else:
        contests = {key: A.Contest.from_dict(dict(d)) for key, d in dicts.items()}
    asked = [(dicts[key]["id"], pyint(dicts[key].get("cards", 0))) for key in contests]
    cvr_list = build_cvrs(cvr_specs)
    for c in cvr_list:                                  # flags in the world's representation
        c.phantom, c.pool = rep(kind, "bool", c.phantom), rep(kind, "bool", c.pool)
    audit._rep = dict({k: v.__name__ for k, v in kind.items()}, audit_max_cards=pyint(getattr(audit, "max_cards", None)),
                      audit_max_cards_is=top, stratum_bound_revised_in_place=revised)
    return audit, contests, cvr_list, asked


def count_listing(specs, cid):
    return sum(1 for s in specs if cid in s["votes"] and not s.get("phantom"))


def gen_mp_scenarios(ctx):
    """Yield (strata, con_specs, cvr_specs, calls): each call is run on the same live objects, in order."""
    rng = ctx.rng
    # (a) exhaustive: fixed 4-card list, every shortfall vector in {-1..3}^k (k<=3) in the style branch, with every bound
    #     encoding; stratum shortfall -1..3 in the no-style branch
    base = [{"id": "1", "votes": {"A": {"x": 1}, "B": {}}}, {"id": "2", "votes": {"A": {}}},
            {"id": "3", "votes": {"B": {"y": 1}, "C": {"z": 1}}}, {"id": "4", "votes": {"other": {}}}]
    names = ["A", "B", "C"]
    for k in (1, 2, 3):
        for sf in itertools.product(range(-1, 4), repeat=k):
            cons = [(names[i], names[i], count_listing(base, names[i]) + sf[i]) for i in range(k)]
            yield [(True, 6)], cons, base, [{"prefix": "phantom-"}]
    for b0 in (0, None, 1, 3, "default"):            # a contest no CVR lists: legal bound 0, unspecified, larger, omitted
        for other in (count_listing(base, "A"), count_listing(base, "A") + 2):
            for order in (0, 1):
                cons = [("D", "D", b0), ("A", "A", other)]
                yield [(True, 6)], cons[::-1] if order else cons, base, [{"prefix": "phantom-"}]
        yield [(True, 6)], [("D", "D", b0)], base, [{"prefix": "phantom-"}]
        yield [(True, None)], [("D", "D", b0)], [], [{"prefix": "phantom-"}]
    for d in range(-1, 4):
        for cards in (None, 0, 2, 9):
            yield [(False, len(base) + d)], [("A", "A", cards), ("B", "B", cards)], base, [{"prefix": "phantom-"}]
    # (b) random structured scenarios, each run under several orders of the contests dict
    for _ in range(ctx.n(110, 2500)):
        nn = rng.randint(1, 4)
        cn = rng.sample(CONTEST_NAMES, nn)
        idstyle = rng.choice(["str", "str", "int", "dominion", "hart"])
        ncv = rng.choice([0, 1, 2, 3, 4, 5, 6, 8])
        cvrs = gen_cvr_specs(rng, cn, ncv, idstyle)
        us = rng.random() < 0.65
        r = rng.random()
        mc = None if (us and r < 0.25) else ncv + (0 if r < 0.5 else rng.randint(1, 5))
        if rng.random() < 0.06:
            mc = max(0, ncv - rng.randint(1, 2)) if ncv else None          # boundary: stratum bound too small / missing
        cons = []
        for name in cn:
            cnt = count_listing(cvrs, name)
            r = rng.random()
            if r < 0.2 and mc is not None:
                cards = None
            elif r < 0.4:
                cards = cnt
            elif r < 0.9:
                cards = cnt + rng.randint(1, 5)
            elif r < 0.95:
                cards = max(0, cnt - 1)                                      # boundary: bound below the count
            else:
                cards = "default"                                            # Contest() default cards = 0
            key = name if rng.random() < 0.85 else name + "_key"             # dict key need not be the id
            cons.append((key, name, cards))
        if rng.random() < 0.04 and len(cons) >= 2:
            cons[1] = (cons[1][0], cons[0][1], cons[1][2])                   # two dict entries with the same contest id
        strata = [(us, mc)]
        r = rng.random()
        if r < 0.03:
            strata = strata + [(not us, mc)]
        elif r < 0.05:
            strata = []
        if rng.random() < 0.05 and cvrs:
            cvrs[rng.randrange(len(cvrs))]["phantom"] = True                 # malformed: a phantom already in the input
        call = {}
        r = rng.random()
        if r < 0.6:
            call["prefix"] = rng.choice(["phantom-", "phantom-", "phantom-1-", "ph", "", "P_"])
        if rng.random() < 0.35:
            call["tally_pool"] = rng.choice(["p1", "px", None])
            call["pool"] = rng.random() < 0.6
        if rng.random() < 0.15:
            call = {k: v for k, v in call.items() if k == "prefix"}
            call["positional"] = True
        orders = [cons]
        if len(cons) > 1:
            perms = list(itertools.permutations(cons))
            byshort = sorted(cons, key=lambda t: (t[2] if isinstance(t[2], int) else (mc or 0)) - count_listing(cvrs, t[1]))
            orders = [byshort, byshort[::-1]] + rng.sample(perms, min(len(perms), 2))
        for o in orders:
            calls = [call]
            if rng.random() < 0.2:                                            # the same objects used twice
                c2 = dict(call)
                calls = [call, c2]
            yield strata, list(o), cvrs, calls
    # (c) reuse with a stratum switched between calls (attributes reassigned after construction)
    for _ in range(ctx.n(15, 200)):
        cn = rng.sample(CONTEST_NAMES, 2)
        cvrs = gen_cvr_specs(rng, cn, rng.randint(1, 6), "str")
        mc = len(cvrs) + rng.randint(0, 4)
        cons = [(n_, n_, rng.choice([None, count_listing(cvrs, n_) + rng.randint(0, 3)])) for n_ in cn]
        yield [(rng.random() < 0.5, mc)], cons, cvrs, [{"prefix": "phantom-"}, {"prefix": "phantom-", "flip_style": True}]
    # (d) Dominion / Hart style identifiers, for the phantom-MVR creation of the format modules
    for _ in range(ctx.n(40, 400)):
        cn = rng.sample(CONTEST_NAMES, rng.randint(1, 3))
        fmt = rng.choice(["dominion", "hart"])
        cvrs = gen_cvr_specs(rng, cn, rng.randint(1, 6), fmt)
        us = rng.random() < 0.6
        mc = len(cvrs) + rng.randint(1, 4)
        cons = [(n_, n_, rng.choice([None, count_listing(cvrs, n_) + rng.randint(0, 4)])) for n_ in cn]
        yield [(us, mc)], cons, cvrs, [{"prefix": "phantom-1-", "fmt": fmt}]


def mp_preconditions(c):
    """The property's quantifier: one stratum, no phantoms in the input, distinct contest ids, every bound that is used
    is specified and >= the corresponding count."""
    if len(c["strata"]) != 1 or any(s["phantom"] for s in c["before"]):
        return False
    us, mc = c["strata"][0]
    ids = [i for i, _ in c["contests"]]
    if len(set(ids)) != len(ids):
        return False
    if not us:
        return mc is not None and mc >= len(c["before"])
    for i, b in c["contests"]:
        b = mc if b is None else b
        if b is None or b < sum(1 for s in c["before"] if i in s["contests"]):
            return False
    return True


def mp_oracle(c):
    """C08, first sentence, on the implementation's output alone."""
    bad = []
    if c["exc"]:
        if c["exc"] == "EType" and c["strata"][0][0] and not c["before"] and c["contests"]:
            return [("raises TypeError when no real CVR exists (style branch)", "no-real-cvrs-style-TypeError")]
        return [(f"raises {c['exc_text'].split(':')[0]} on a valid input", "raises-on-valid-input")]
    us, mc = c["strata"][0]
    nin = len(c["before"])
    out, n = c["out"], c["n"]
    if out[:nin] != c["before"] or not c["same_objects"] or c["in_after"] != c["before"]:
        bad.append(("original records do not come back first and unchanged", "originals"))
    ph = out[nin:]
    if any(not s["phantom"] for s in ph):
        bad.append(("an added record is not flagged phantom", "added-not-phantom"))
    if n != len(ph):
        bad.append(("returned number of phantoms differs from the number of records added", "n-vs-added"))
    pid = [s["id"] for s in ph]
    if len(set(pid)) != len(pid):
        bad.append(("phantom identifiers are not unique", "ids-not-unique"))
    oid = [repr(s["id"]) for s in c["before"]]
    pfx = c["prefix"]
    if len(set(oid)) == len(oid) and not any(isinstance(s["id"], str) and s["id"].startswith(pfx) for s in c["before"]) \
            and len(set(oid + [repr(i) for i in pid])) != len(oid) + len(pid):
        bad.append(("identifiers of the returned list are not unique", "ids-not-unique-all"))
    if us:
        short = []
        for (i, b), (i2, cards, cvrs) in zip(c["contests"], c["cons_after"]):
            b = mc if b is None else b
            cnt = sum(1 for s in c["before"] if i in s["contests"])
            short.append(b - cnt)
            if sum(1 for s in out if i in s["contests"]) != b:
                bad.append(("records listing a contest do not add up to its card bound (style)", "count-style"))
            if cards != b or cvrs != cnt:
                bad.append(("contest.cards / contest.cvrs bookkeeping wrong", "bookkeeping"))
        if len(ph) != max([0] + short):
            bad.append(("number of phantoms differs from the largest shortfall", "excess"))
    else:
        if len(out) != mc:
            bad.append(("total number of records differs from the stratum's card bound (no style)", "count-nostyle"))
        for (i, b), (i2, cards, cvrs) in zip(c["contests"], c["cons_after"]):
            if cards != mc or cvrs != sum(1 for s in c["before"] if i in s["contests"]):
                bad.append(("contest.cards / contest.cvrs bookkeeping wrong", "bookkeeping"))
    return bad


def run_make_phantoms(ctx, res, keep_for_glue):
    cases = []
    for strata, cons, cvrs, calls in gen_mp_scenarios(ctx):
        route = ctx.rng.choice(["from_dict", "from_dict", "dod", "ctor"])
        audit, contests, cvr_list, asked = make_objects(strata, cons, cvrs, route, ctx.rng)
        for ncall, call in enumerate(calls):
            if call.get("flip_style"):
                for st in audit.strata.values():
                    st.use_style = not st.use_style
                call = {k: v for k, v in call.items() if k != "flip_style"}
            c = call_make_phantoms(audit, contests, cvr_list, call, asked if ncall == 0 else None)
            c["route"] = route
            cases.append(c)
            if not c["exc"] and call.get("fmt") and c["n"] > 0:
                keep_for_glue.append(c)
    cr = C.run_corr(ctx.pid, "mp", IMPORTS, "mp_case", cases, mp_lit, "agree_mp", shard=200, show="show_mp")
    res.corr.append(("CVR.make_phantoms vs Phantoms.make_phantoms", cr, mp_json))
    res.evaluations += len(cases)
    stats = {"mp_cases": len(cases), "mp_style": 0, "mp_nostyle": 0, "mp_raises": 0, "mp_multi_round": 0,
             "mp_property_preconditions_hold": 0, "mp_zero_phantoms": 0}
    for c in cases:
        if c["exc"]:
            stats["mp_raises"] += 1
        elif c["strata"][0][0]:
            stats["mp_style"] += 1
        else:
            stats["mp_nostyle"] += 1
        if mp_preconditions(c):
            stats["mp_property_preconditions_hold"] += 1
            res.oracle_runs += 1
            for what, sig in mp_oracle(c):
                res.oracle_violations.append({"what": "make_phantoms: " + what, "input": mp_json(c),
                                              "observed": c.get("exc_text") or {"n": c["n"], "out": c["out"]},
                                              "signature": "C08:make_phantoms:" + sig})
        if not c["exc"]:
            if c["n"] == 0:
                stats["mp_zero_phantoms"] += 1
            else:
                res.nontrivial.add(repr((c["strata"], c["contests"], [(s["id"], s["contests"]) for s in c["before"]], c["prefix"])))
            us, mc = c["strata"][0]
            if us:
                sh = [((mc if b is None else b) or 0) - sum(1 for s in c["before"] if i in s["contests"] and not s["phantom"])
                      for i, b in c["contests"]]
                run_max, rounds = 0, 0
                for s_ in sh:
                    if s_ > run_max:
                        rounds, run_max = rounds + 1, s_
                if rounds > 1:
                    stats["mp_multi_round"] += 1
    stats["mp_construction_routes"] = {r: sum(1 for c in cases if c.get("route") == r) for r in ("from_dict", "dod", "ctor")}
    stats["mp_explicit_bound_0"] = sum(1 for c in cases if any(b == 0 and b is not None for _, b in c["contests"]))
    stats["mp_bound_0_unlisted_contest_style"] = sum(
        1 for c in cases if not c["exc"] and c["strata"][0][0] and mp_preconditions(c)
        and any(b == 0 and not any(i in s_["contests"] for s_ in c["before"]) for i, b in c["contests"]))
    res.stats.update(stats)
    res.samples += [mp_json(c) for c in cases[200:202]]
    return cases


# ================================================================ format modules: phantom MVRs for sampled phantom cards
def run_format_glue(ctx, res, kept):
    import pandas as pd
    from shangrla.formats.Dominion import Dominion
    from shangrla.formats.Hart import Hart
    rng = ctx.rng
    cases, mvr_pairs = [], []
    for c in kept:
        objs = c["out_objs"]
        ids = [o.id for o in objs]
        fmt = None
        if all(isinstance(i, str) and i.count("-") == 2 for i in ids):
            fmt = "dominion"
        elif all(isinstance(o.id, str) and ((o.phantom and o.id.count("-") == 2) or (not o.phantom and o.id.count("_") == 1))
                 for o in objs):
            fmt = "hart"
        if fmt is None:
            continue
        sample = [rng.randrange(len(objs)) for _ in range(rng.randint(1, 6))]
        sample += [len(objs) - 1]                                   # always at least one phantom card
        try:
            if fmt == "dominion":
                rows = sorted({tuple(i.split("-")[:2]) for i in ids})
                man = pd.DataFrame({"Tray #": [1] * len(rows), "Tabulator Number": [r[0] for r in rows],
                                    "Batch Number": [r[1] for r in rows], "Total Ballots": [9] * len(rows),
                                    "VBMCart.Cart number": [3] * len(rows)})
                _, _, cvr_sample, mvrs = Dominion.sample_from_cvrs(objs, man, np.array(sample))
            else:
                rows = sorted({o.id.split("_")[0] for o in objs if not o.phantom})
                man = pd.DataFrame({"Container": [1] * len(rows), "Tabulator": ["T"] * len(rows), "Batch Name": rows,
                                    "Number of Ballots": [9] * len(rows)})
                _, _, cvr_sample, mvrs = Hart.sample_from_cvrs(objs, man, np.array(sample))
        except Exception as e:  # noqa
            res.stats["fm_raises"] = res.stats.get("fm_raises", 0) + 1
            res.stats.setdefault("fm_raise_text", f"{type(e).__name__}: {e}")
            continue
        cases.append({"prefix": c["prefix"], "cvrs": [snap(o) for o in objs], "sample": sample, "out": [snap(m) for m in mvrs],
                      "fmt": fmt})
        ph_sampled = [o for o in cvr_sample if o.phantom]
        if len(ph_sampled) == len(mvrs):
            mvr_pairs += list(zip(mvrs, ph_sampled))
        # oracle (glue): one phantom MVR per sampled phantom card, same id, flagged phantom, listing no contest
        res.oracle_runs += 1
        if [m.id for m in mvrs] != [o.id for o in ph_sampled] or any((not m.phantom) or m.votes != {} for m in mvrs):
            res.oracle_violations.append({"what": f"{fmt}.sample_from_cvrs: phantom MVRs do not match the sampled phantom cards",
                                          "input": C.jsonable(cases[-1]), "observed": [snap(m) for m in mvrs],
                                          "signature": f"C08:{fmt}:phantom-mvrs"})
    # sample_from_manifest: cards drawn from an appended phantom batch get a phantom MVR
    for _ in range(ctx.n(20, 200)):
        sizes = [rng.randint(1, 4) for _ in range(rng.randint(1, 3))]
        nph = rng.randint(1, 4)
        tot = sum(sizes) + nph
        cum = list(np.cumsum(sizes + [nph]))
        dman = pd.DataFrame({"Tray #": [1] * (len(sizes) + 1), "Tabulator Number": [str(i + 1) for i in range(len(sizes))] + ["phantom"],
                             "Batch Number": [7] * (len(sizes) + 1), "Total Ballots": sizes + [nph],
                             "VBMCart.Cart number": [2] * (len(sizes) + 1), "cum_cards": cum})
        hman = pd.DataFrame({"Container": [1] * (len(sizes) + 1), "Tabulator": ["T"] * len(sizes) + ["phantom"],
                             "Batch Name": [f"b{i}" for i in range(len(sizes))] + ["phantom"], "Number of Ballots": sizes + [nph],
                             "cum_cards": cum})
        for fmt, cls, man, lo in (("dominion", Dominion, dman, 1), ("hart", Hart, hman, 0)):
            sample = sorted(rng.sample(range(lo, tot + lo), rng.randint(1, tot)))
            want = sum(1 for s in sample if s - lo >= sum(sizes))
            res.oracle_runs += 1
            try:
                _, _, mvrs = cls.sample_from_manifest(man, sample)
            except Exception as e:  # noqa
                res.stats["fm_raises"] = res.stats.get("fm_raises", 0) + 1
                res.stats.setdefault("fm_raise_text", f"{type(e).__name__}: {e}")
                continue
            if len(mvrs) != want or any((not m.phantom) or m.votes != {} for m in mvrs) or len({m.id for m in mvrs}) != len(mvrs):
                res.oracle_violations.append({"what": f"{fmt}.sample_from_manifest: phantom MVRs do not match the sampled phantom cards",
                                              "input": {"sizes": sizes, "phantoms": nph, "sample": sample},
                                              "observed": [snap(m) for m in mvrs], "signature": f"C08:{fmt}:manifest-phantom-mvrs"})
            mvr_pairs += [(m, None) for m in mvrs[:2]]

    def lit(c):
        e = Enc(c["prefix"])
        return (f"({C.listlit([e.card(s) for s in c['cvrs']])}, {C.listlit([C.natlit(s) for s in c['sample']])}, "
                f"{C.listlit([e.card(s) for s in c['out']])})")
    cr = C.run_corr(ctx.pid, "fm", IMPORTS, "list card * list nat * list card", cases, lit, "agree_fm", shard=200, show="show_fm")
    res.corr.append(("Dominion/Hart.sample_from_cvrs phantom MVRs vs Phantoms.sample_phantom_mvrs", cr, C.jsonable))
    res.evaluations += len(cases)
    res.stats["fm_cases"] = len(cases)
    res.stats["fm_dominion"] = sum(1 for c in cases if c["fmt"] == "dominion")
    return mvr_pairs


# ================================================================ overstatement
def build_assertions(kind, cid, share=None):
    """Assertions built by the library itself: plurality, supermajority, IRV (both JSON assertion types)."""
    A = lib()
    from shangrla.core.NonnegMean import NonnegMean
    d = {"id": cid, "name": cid, "risk_limit": 0.05, "cards": 20, "n_winners": 1, "candidates": ["Alice", "Bob", "Candy"],
         "winner": ["Alice"], "audit_type": A.Audit.AUDIT_TYPE.CARD_COMPARISON, "test": NonnegMean.alpha_mart,
         "estim": NonnegMean.optimal_comparison, "use_style": True}
    if kind == "plurality":
        d["choice_function"] = A.Contest.SOCIAL_CHOICE_FUNCTION.PLURALITY
    elif kind == "supermajority":
        d["choice_function"] = A.Contest.SOCIAL_CHOICE_FUNCTION.SUPERMAJORITY
        d["share_to_win"] = share
    else:
        d["choice_function"] = A.Contest.SOCIAL_CHOICE_FUNCTION.IRV
        d["assertion_json"] = [{"winner": "Alice", "loser": "Bob", "assertion_type": "WINNER_ONLY"},
                               {"winner": "Alice", "loser": "Candy", "assertion_type": "IRV_ELIMINATION",
                                "already_eliminated": ["Bob"]}]
    con = A.Contest.from_dict(d)
    A.Assertion.make_all_assertions({cid: con})
    return con, list(con.assertions.values())


BALLOTS = {"plurality": [None, {}, {"Alice": 1}, {"Bob": True}, {"Alice": 1, "Bob": 1}, {"Candy": "marked"}, {"Alice": 0, "Bob": ""}],
           "supermajority": [None, {}, {"Alice": 1}, {"Bob": True}, {"Alice": 1, "Bob": 1}, {"Candy": 5}, {"Alice": "", "Candy": 1}],
           "irv": [None, {}, {"Alice": 1}, {"Bob": 1, "Alice": 2}, {"Alice": 1, "Bob": 2, "Candy": 3}, {"Candy": 1, "Bob": 2},
                   {"Bob": 1}]}


KIND = {"int": int, "bool": bool, "float": float}      # representation of flags / floats in the current overstatement world


def make_record(cid, ballot, phantom, how, ident, pool=None):
    """how: 'ctor' CVR(id, votes=..., phantom=...), 'from_dict' (as the tests do), 'format' CVR(id, votes={}, phantom=True),
    'default' CVR(id=..., phantom=...) with the constructor's default votes."""
    CVR = lib().CVR
    votes = {} if ballot is None else {cid: copy.deepcopy(ballot)}
    if how == "other":
        votes = {"other": {"x": 1}}
    if how == "format":
        r = CVR(id=ident, votes={}, phantom=True)
    elif how == "default":
        r = CVR(id=ident, phantom=phantom)
    elif how == "from_dict":
        dd = {"id": ident, "votes": votes}
        if phantom:
            dd["phantom"] = True
        if pool:
            dd["tally_pool"], dd["pool"] = pool[0], pool[1]
        r = CVR.from_dict([dd])[0]
    else:
        r = CVR(id=ident, votes=votes, phantom=phantom)
    if pool and how != "from_dict":
        r.tally_pool, r.pool = pool
    if how != "format":                                 # format-made phantom MVRs stay exactly as the format modules make them
        r.phantom, r.pool = rep(KIND, "bool", r.phantom), rep(KIND, "bool", r.pool)
    return r


def fx(x):
    """implementation number -> exact Fraction or float special"""
    if isinstance(x, F):
        return x
    x = float(x)
    return x if (math.isnan(x) or math.isinf(x)) else C.frac(x)


def ov_call(asn, cid, mvr, cvr, us, kind, tagd=None):
    """Run overstatement and overstatement_assorter of the real code, and assort on its own, for one pair."""
    ast = asn.assorter
    c = {"kind": kind, "style": us, "cid": cid, "mvr": snap(mvr), "cvr": snap(cvr), "u": fx(ast.upper_bound), "v": fx(asn.margin),
         "pm": None if ast.tally_pool_means is None else [(k, fx(v)) for k, v in ast.tally_pool_means.items()], "same": mvr is cvr}
    raised = {}
    for nm, r in (("amvr", mvr), ("acvr", cvr)):
        try:
            c[nm] = fx(ast.assort(r))
        except Exception as e:  # noqa
            c[nm] = None
            raised[(type(e), repr(e.args))] = True
    for nm, f in (("over", lambda: ast.overstatement(mvr, cvr, us)), ("oa", lambda: asn.overstatement_assorter(mvr, cvr, us))):
        try:
            c[nm], c[nm + "_exc"] = fx(f()), None
        except Exception as e:  # noqa
            c[nm] = None
            c[nm + "_exc"] = "EOther" if (type(e), repr(e.args)) in raised else exc_code(e)
            c[nm + "_text"] = f"{type(e).__name__}: {e}"
    c["mvr_after"], c["cvr_after"] = snap(mvr), snap(cvr)
    return c


def ov_lit(c):
    e = Enc("phantom-")
    pm = C.optlit(c["pm"], lambda d: C.listlit([f"({C.zlit(e.pool(k))}, {C.xlit(v)})" for k, v in d]))
    return (f"(mkov {C.blit(c['style'])} {C.zlit(e.contest(c['cid']))} {pm} {e.card(c['mvr'], tag=1)} "
            f"{e.card(c['cvr'], tag=1 if c['same'] else 2)} {C.optlit(c['amvr'], C.qlit)} {C.optlit(c['acvr'], C.qlit)} "
            f"{C.qlit(c['u'])} {C.qlit(c['v'])} {res_lit(c['over_exc'], C.xlit(c['over']) if c['over'] is not None else '')} "
            f"{res_lit(c['oa_exc'], C.xlit(c['oa']) if c['oa'] is not None else '')})")


def ov_oracle(asn, cid, mvr, cvr, us, c, res, phantom_mvrs):
    """C08, second sentence: a phantom in place of the manual record never increases the overstatement assorter;
    an unpooled phantom CVR counts exactly 1/2."""
    ast = asn.assorter
    if c["oa_exc"] or c["oa"] is None or isinstance(c["oa"], float):
        return
    uses_pool = bool(cvr.pool) and ast.tally_pool_means is not None
    for how, ph in phantom_mvrs:
        res.oracle_runs += 1
        try:
            b = fx(asn.overstatement_assorter(ph, cvr, us))
            o = fx(ast.overstatement(ph, cvr, us))
        except Exception as e:  # noqa
            res.oracle_violations.append({"what": f"overstatement_assorter raises for a phantom MVR ({how}) where it accepts the manual record",
                                          "input": C.jsonable(c), "observed": f"{type(e).__name__}: {e}",
                                          "signature": f"C08:phantom-mvr-raises:{how}"})
            continue
        if isinstance(b, float) or b > c["oa"]:
            res.oracle_violations.append({"what": f"replacing the manual record by a phantom ({how}) increases the overstatement assorter",
                                          "input": C.jsonable(c), "observed": {"B_phantom": b, "B_mvr": c["oa"]},
                                          "signature": f"C08:phantom-mvr-not-worst:{how}:style={us}"})
        if not uses_pool and not cvr.phantom and c["acvr"] is not None and not isinstance(o, float):
            # worst case = the manual record counts 0: overstatement is the CVR's own score, B = (1 - a_cvr/u)/(2 - v/u)
            want_b = (1 - c["acvr"] / c["u"]) / (2 - c["v"] / c["u"])
            if o != c["acvr"] or isinstance(b, float) or abs(b - want_b) > F(1, 10 ** 9) * max(1, abs(want_b)):
                res.oracle_violations.append({"what": f"a phantom MVR ({how}) is not scored as the worst case (assorter value 0): "
                                                      "overstatement differs from the CVR's own assorter value",
                                              "input": C.jsonable(c), "observed": {"overstatement_phantom": o, "assort_cvr": c["acvr"],
                                                                                   "B_phantom": b, "B_worst_case": want_b, "u": c["u"]},
                                              "signature": f"C08:phantom-mvr-not-scored-0:{how}"})
        if cvr.phantom and not uses_pool and o != F(1, 2):
            res.oracle_violations.append({"what": "phantom CVR against a phantom MVR: overstatement is not exactly 1/2",
                                          "input": C.jsonable(c), "observed": o, "signature": "C08:phantom-cvr-not-half"})
    if cvr.phantom and not uses_pool and c["over"] is not None and not isinstance(c["over"], float):
        res.oracle_runs += 1
        mv = F(0) if (mvr.phantom or (us and not mvr.has_contest(cid))) else c["amvr"]
        if mv is not None and c["over"] + mv != F(1, 2):
            res.oracle_violations.append({"what": "unpooled phantom CVR is not scored as a non-vote (1/2)",
                                          "input": C.jsonable(c), "observed": {"overstatement": c["over"], "mvr_assort": mv},
                                          "signature": "C08:phantom-cvr-not-half"})


def run_overstatement(ctx, res, mvr_pairs):
    rng = ctx.rng
    cases = []
    hist = {}

    def one(asn, cid, mvr, cvr, us, kind, label):
        c = ov_call(asn, cid, mvr, cvr, us, kind)
        cases.append(c)
        hist[label] = hist.get(label, 0) + 1
        phs = [("format", make_record(cid, None, True, "format", "phantom-9")),
               ("tests", make_record(cid, {}, True, "from_dict", "phantom_1"))]
        ov_oracle(asn, cid, mvr, cvr, us, c, res, phs)
        if c["mvr_after"] != c["mvr"] or c["cvr_after"] != c["cvr"]:
            res.oracle_violations.append({"what": "overstatement modifies its arguments", "input": C.jsonable(c),
                                          "observed": [c["mvr_after"], c["cvr_after"]], "signature": "C08:overstatement-mutates"})
        if c["mvr"]["phantom"] or c["cvr"]["phantom"]:
            res.nontrivial.add(repr((kind, us, c["mvr"]["contests"], c["mvr"]["phantom"], c["cvr"]["contests"], c["cvr"]["phantom"],
                                     c["cvr"]["pool"], c["pm"], c["amvr"], c["acvr"], c["v"])))

    configs = [("plurality", None), ("supermajority", 0.5), ("supermajority", 2 / 3), ("supermajority", 0.625), ("irv", None)]
    margins = [0.0, 0.125, 0.5, 1.0, -0.25, 1.25, 0.0625]
    global KIND
    for kind, share in configs:
        cid = "AvB"
        KIND = rep_kind(rng)
        con, asns = build_assertions(kind, cid, share)
        ballots = BALLOTS[kind]
        for asn in asns:
            u = float(asn.assorter.upper_bound)
            # exhaustive: every (mvr ballot x phantom flag x construction) x (cvr ballot x phantom flag) x style, unpooled
            mvr_kinds = [(b, False, "ctor") for b in ballots] + [(b, True, "ctor") for b in ballots] + \
                        [(None, True, "format"), ({}, True, "from_dict"), (None, True, "default"), (None, False, "other")]
            cvr_kinds = [(b, False, "ctor") for b in ballots] + [(b, True, "ctor") for b in ballots if b in (None, {}) or rng.random() < 0.5] \
                + [(None, False, "other")]
            for (mb, mp_, mh), (cb, cp_, ch), us in itertools.product(mvr_kinds, cvr_kinds, (True, False)):
                if ctx.quick and rng.random() < 0.45 and not (mp_ or cp_):
                    continue
                asn.margin = rep(KIND, "float", rng.choice([m for m in margins if m < 2 * u]))
                asn.assorter.tally_pool_means = None
                one(asn, cid, make_record(cid, mb, mp_, mh, "m1"), make_record(cid, cb, cp_, ch, "phantom-3" if cp_ else "c1"), us, kind,
                    "unpooled")
            # pooled CVRs (ONEAudit): means from set_tally_pool_means on a CVR list, or set by hand (incl. NaN, missing label)
            for _ in range(ctx.n(40, 600)):
                us = rng.random() < 0.5
                asn.margin = rep(KIND, "float", rng.choice([m for m in margins if m < 2 * u]))
                pool_cvrs = [make_record(cid, rng.choice(ballots), False, "ctor", f"q{i}", pool=(rng.choice(["p1", "p2"]), rng.random() < 0.8))
                             for i in range(rng.randint(0, 5))]
                r = rng.random()
                if r < 0.45:
                    try:
                        asn.assorter.set_tally_pool_means(cvr_list=pool_cvrs, tally_pools=["p1", "p2"] if rng.random() < 0.5 else None,
                                                          use_style=us)
                    except Exception:  # noqa
                        asn.assorter.tally_pool_means = {"p1": 0.5}
                elif r < 0.8:
                    asn.assorter.tally_pool_means = {k: rep(KIND, "float", rng.choice([0.0, 0.25, 0.5, 0.75, 1.0, float("nan")]))
                                                     for k in rng.sample(["p1", "p2", None], rng.randint(0, 3))}
                else:
                    asn.assorter.tally_pool_means = None
                cp_ = rng.random() < 0.5
                cvr = make_record(cid, rng.choice(ballots), cp_, rng.choice(["ctor", "from_dict"]), "phantom-2" if cp_ else "c2",
                                  pool=(rng.choice(["p1", "p2", None]), rng.random() < 0.8))
                mk = rng.choice(mvr_kinds)
                one(asn, cid, make_record(cid, mk[0], mk[1], mk[2], "m2"), cvr, us, kind, "pool-flagged")
            asn.assorter.tally_pool_means = None
            # phantom MVRs exactly as the format modules returned them, against the phantom CVR of the same card
            for m, pc in mvr_pairs[:ctx.n(25, 200)]:
                for us in (True, False):
                    asn.margin = rep(KIND, "float", rng.choice([mm for mm in margins if mm < 2 * u]))
                    cv = pc if (pc is not None and rng.random() < 0.5) else make_record(cid, rng.choice(ballots), rng.random() < 0.3, "ctor", "c3")
                    one(asn, cid, m, cv, us, kind, "format-made-mvr")
            # the same object on both sides
            for b in ballots:
                r = make_record(cid, b, rng.random() < 0.5, "ctor", "s1")
                one(asn, cid, r, r, rng.random() < 0.5, kind, "same-object")
    # assorters whose upper bound is well above 1 (super-majority with a small share to win: u = 1/(2 share) = 3.33, 1.67, 1.25)
    for share in (0.15, 0.3, 0.4):
        cid = "AvB"
        KIND = rep_kind(rng)
        con, asns = build_assertions("supermajority", cid, share)
        asn = asns[0]
        u = float(asn.assorter.upper_bound)
        ballots = BALLOTS["supermajority"]
        for cb, cp_, us in itertools.product(ballots, (False, True), (True, False)):
            for mb, mp_, mh in [(None, True, "format"), ({}, True, "from_dict"), (rng.choice(ballots), True, "ctor"),
                                (rng.choice(ballots), False, "ctor"), ({"Bob": 1}, False, "ctor"), ({"Alice": 1}, False, "ctor")]:
                asn.margin = rep(KIND, "float", rng.choice([0.0, 0.125, 0.5, 1.0, -0.25, 1.25, 2.0, 3.0][:5 + int(u)]))
                asn.assorter.tally_pool_means = None
                one(asn, cid, make_record(cid, mb, mp_, mh, "m4"), make_record(cid, cb, cp_, "ctor", "phantom-4" if cp_ else "c4"), us,
                    "supermajority", f"large-u share={share}")
    cr = C.run_corr(ctx.pid, "ov", IMPORTS + "\nOpen Scope Q_scope.", "ov_case", cases, ov_lit, "agree_ov", shard=250, show="show_ov")
    res.corr.append(("Assorter.overstatement / Assertion.overstatement_assorter vs Phantoms.overstatement(_assorter)", cr, C.jsonable))
    res.evaluations += len(cases)
    res.stats["ov_cases"] = len(cases)
    res.stats["ov_streams"] = hist
    res.stats["ov_phantom_mvr"] = sum(1 for c in cases if c["mvr"]["phantom"])
    res.stats["ov_phantom_mvr_listing_no_contest"] = sum(1 for c in cases if c["mvr"]["phantom"] and not c["mvr"]["contests"])
    res.stats["ov_phantom_cvr"] = sum(1 for c in cases if c["cvr"]["phantom"])
    res.stats["ov_pool_mean_used"] = sum(1 for c in cases if c["cvr"]["pool"] and c["pm"] is not None)
    res.stats["ov_raises"] = sum(1 for c in cases if c["over_exc"])
    res.samples += [C.jsonable(c) for c in cases[:2]]


def run_large_make_phantoms(ctx, res):
    """Oracle only (size-independent): 1 000 - 2 500 real CVRs, several contests on different subsets, bounds slightly above
    the counts; sizes are never multiples of 1 000 nor powers of two."""
    rng = ctx.rng
    sizes = []
    while len(sizes) < ctx.n(3, 12):
        n = rng.randint(1001, 2500) if len(sizes) % 2 else rng.randint(2001, 2500)
        if n % 1000 and n % 500 and n & (n - 1):
            sizes.append(n)
    for n in sizes:
        names = rng.sample(CONTEST_NAMES, rng.randint(3, 4))
        probs = dict(zip(names, rng.sample([0.95, 0.6, 0.3, 0.05], len(names))))
        cvrs = []
        for i in range(n):
            votes = {k: ({"Alice": 1} if i % 3 else {"Bob": 1}) for k in names if rng.random() < probs[k]}
            if i >= n - 3:                                       # the last records list every contest
                votes = {k: {"Alice": 1} for k in names}
            cvrs.append({"id": f"{i // 100 + 1}-1-{i % 100 + 1}", "votes": votes})
        us = rng.random() < 0.75
        mc = n + rng.randint(0, 9)
        cons = [(k, k, None if (rng.random() < 0.2) else count_listing(cvrs, k) + rng.randint(0, 7)) for k in names]
        rng.shuffle(cons)
        audit, contests, cvr_list, asked = make_objects([(us, mc)], cons, cvrs, rng.choice(["from_dict", "dod", "ctor"]), rng)
        c = call_make_phantoms(audit, contests, cvr_list, {"prefix": "phantom-1-"}, asked)
        c.pop("out_objs", None)
        res.oracle_runs += 1
        res.stats.setdefault("mp_large_sizes", []).append(n)
        for what, sig in (mp_oracle(c) if mp_preconditions(c) else [("generator produced an input outside the property", "gen")]):
            small = {"n_cvrs": n, "strata": c["strata"], "contests_asked": c["contests"], "contests_after": c.get("cons_after"),
                     "true_counts": {k: count_listing(cvrs, k) for k in names}, "returned_n": c.get("n"),
                     "records_returned": len(c.get("out", [])), "exc": c.get("exc_text"),
                     "cvr_list": "card i (0-based) has id f'{i//100+1}-1-{i%100+1}' and lists exactly the contests whose index list "
                                 "below contains i, with votes {'Alice': 1} if i % 3 else {'Bob': 1} (the last three cards: Alice)",
                     "cards_listing": {k: [i for i, s_ in enumerate(cvrs) if k in s_["votes"]] for k in names}}
            res.oracle_violations.append({"what": "make_phantoms (large list): " + what, "input": C.jsonable(small),
                                          "observed": C.jsonable({"n": c.get("n"), "contests_after": c.get("cons_after")}),
                                          "signature": "C08:make_phantoms:large:" + sig})


def run(ctx, res):
    from . import genarith
    genarith.regenerate(ctx.pid, "status_skeletons", res)   # whole-function skeletons: CVR.make_phantoms (and the C09 functions); its reading proved equal to Phantoms.v
    genarith.regenerate(ctx.pid, "audit_skeletons", res)   # regenerated tie: every statement of Assorter.overstatement / overstatement_assorter; scoring conventions proved on the regenerated text
    kept = []
    run_make_phantoms(ctx, res, kept)
    run_large_make_phantoms(ctx, res)
    pairs = run_format_glue(ctx, res, kept)
    run_overstatement(ctx, res, pairs)
    res.rule = ("make_phantoms: every shortfall vector in {-1..3}^k (k<=3) on a fixed list plus random CVR lists (0-8 cards, 1-4 "
                "contests built through Contest.from_dict / from_dict_of_dicts / the constructor and checked against the bounds asked for, "
                "style on/off, bounds None/0 for an unlisted contest/equal/larger/too small/omitted, key != id, prefixes, pool labels, "
                "every scenario under increasing/decreasing/random orders of the contests dict, 20% called twice on the same "
                "objects); non-trivial = at least one phantom created, distinct by (strata, bounds, card ids and styles, prefix). "
                "overstatement: exhaustive product of MVR kinds (7 ballots x phantom flag x 4 constructions) x CVR kinds x "
                "style for plurality, three super-majority shares and both IRV assertion types, plus pooled CVRs and the phantom "
                "MVR objects returned by Dominion/Hart.sample_from_cvrs, plus super-majority shares 0.15/0.3/0.4 (upper bound up to 3.33); "
                "non-trivial = a phantom on either side. Oracle-only stream: make_phantoms on 1 001-2 500 CVRs (never a multiple of "
                "500 or a power of two), 3-4 contests on different subsets, bounds 0-7 above the counts")
    res.assumptions = ["the assorter is abstract in the model (A : card -> Q); its values in the runs are assort() of /repo called on its own",
                       "identifiers, contest names and pool labels are mapped to numbers by the harness (string equality <-> number equality)"]
