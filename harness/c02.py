"""C02 — assorter means exceed 1/2 exactly when the reported winners really won; assorter ranges;
margin from a tally = 2 * mean - 1 over the same cards.

Implementation side: assorters built by the library itself (make_plurality_assertions,
make_supermajority_assertion, make_all_assertions), Assorter.assort / Assorter.mean, Contest.tally,
CVR.tabulate_votes, Assertion.find_margin_from_tally, Contest.find_margins_from_tally,
Assertion.set_margin_from_cvrs.  Model side: Ballot.v / Assorter.v through Run_Assorter.v.
(make_assertions_from_json builds only IRV assorters -- WINNER_ONLY / IRV_ELIMINATION -- which belong to C14/C04.)"""
import itertools
import os
import math
import warnings
from fractions import Fraction as F

import numpy as np

from . import common as C

ANCHORS = [("shangrla/core/Audit.py",
            ["CVR.get_vote_for", "CVR.as_vote", "CVR.has_one_vote", "CVR.has_contest", "CVR.tabulate_votes",
             "Assertion.make_plurality_assertions", "Assertion.make_supermajority_assertion",
             "Assertion.make_all_assertions", "Assertion.make_assertions_from_json",
             "Assertion.margin", "Assertion.find_margin_from_tally", "Assertion.set_margin_from_cvrs",
             "Assorter.__init__", "Assorter.mean", "Contest.tally", "Contest.find_margins_from_tally"])]
IMPORTS = "From SV Require Import Run_Assorter.\nOpen Scope Z_scope."

# names -> model identifiers.  A falsy name ("") is 0: Contest.tally skips it.
CAND = {"": 0, "ALL_OTHERS": -1, "NO_CANDIDATE": -2, "A": 1, "B": 2, "C": 3, "D": 4, "E": 5,
        "W1": 101, "Write-in": 102, "WRITE_IN": 103, "ALL": 104, "a": 105, "A ": 106, 7: 107, 42: 142}
CONS = {"c1": 1, "c2": 2, "c3": 3, "other": 9, "A": 11, "": 0}
LISTED = ["A", "B", "C", "D", "E"]
WRITEINS = ["W1", "Write-in", "WRITE_IN", "ALL", "a", "A ", 7, 42]   # unlisted names on ballots, str and int
TRUTHY = [True, True, 1, 5, "marked", 1.0, -1, "0", 2, "x"]
FALSY = [False, 0, "", None, 0.0]
SHARES = [F(1, 2), F(2, 3), F(3, 5), F(3, 4), F(1, 3), F(9, 10), F(1, 4), F(5, 8), F(11, 20), F(2, 5)]
TOL = 1e-9
stats_novalid = [0]     # super-majority margin checks made on a contest without any valid vote (measured)


def AU():
    import shangrla.core.Audit as A
    return A


# ---------------------------------------------------------------- Coq literals
def mark_lit(v):
    if v is None:
        return "MNone"
    if isinstance(v, (bool, np.bool_)):
        return f"(MBool {C.blit(bool(v))})"
    if isinstance(v, (int, np.integer)):
        return f"(MInt {C.zlit(int(v))})"
    if isinstance(v, (float, np.floating)):
        return "MNaN" if math.isnan(v) else f"(MFloat {C.qlit(float(v))})"
    if isinstance(v, str):
        assert all(ch.isalnum() or ch == " " for ch in v)
        return f'(MStr "{v}"%string)'
    raise ValueError(v)


def card_lit(card):
    cons = [f"({C.zlit(CONS[con])}, {C.listlit([f'({C.zlit(CAND[x])}, {mark_lit(m)})' for x, m in vs.items()])})"
            for con, vs in card["votes"].items()]
    return f"(mkcard {C.listlit(cons)} {C.blit(card['phantom'])})"


def oq(v):
    return "None" if v is None else f"(Some {C.qlit(v)})"


def ox(v):
    return "None" if v is None else f"(Some {C.xlit(v)})"


def kind_lit(k):
    if k[0] == "pl":
        return f"(APl {C.zlit(CAND[k[1]])} {C.zlit(CAND[k[2]])})"
    return f"(ASm {C.qlit(k[1])} {C.zlit(CAND[k[2]])} {C.listlit([C.zlit(CAND[x]) for x in k[3]])})"


def obs_lit(o):
    return (f"(mkobs {kind_lit(o['kind'])} {C.listlit([oq(v) for v in o['vals']])} {C.qlit(o['ub'])} "
            f"{ox(o['mean_s'])} {ox(o['mean_a'])} {C.blit(o['polling'])} {C.blit(o['style'])} "
            f"{ox(o['margin'])} {ox(o['u'])})")


def a_lit(c):
    return (f"mka {C.zlit(CONS[c['con']])} {C.listlit([card_lit(k) for k in c['cards']])} "
            f"{C.listlit([obs_lit(o) for o in c['obs']])}")


def dict_lit(items):
    return C.listlit([f"({C.zlit(CAND[k])}, {C.zlit(v)})" for k, v in items])


def t_lit(c):
    tab = "None" if c["tab"] is None else "(Some " + C.listlit([f"({C.zlit(CONS[con])}, {dict_lit(d)})" for con, d in c["tab"]]) + ")"
    return (f"mkt {C.zlit(CONS[c['con']])} {C.blit(c['enforce'])} {C.zlit(c['nw'])} "
            f"{C.listlit([card_lit(k) for k in c['cards']])} {dict_lit(c['tally'])} {tab}")


def tally_lit(t):
    return "None" if t is None else f"(Some (mktally {dict_lit(t[0])} {C.blit(t[1])}))"


def res_lit(r):
    return f"(Err {r[1]})" if r[0] == "err" else f"(Val {C.xlit(r[1])})"


def m_lit(c):
    return (f"mkm {tally_lit(c['arg'])} {tally_lit(c['ctally'])} {c['scf']} {C.zlit(CAND[c['w']])} "
            f"{C.zlit(CAND[c['l']])} {C.zlit(c['cards'])} {C.qlit(c['f'])} "
            f"{C.listlit([C.zlit(CAND[x]) for x in c['candidates']])} {res_lit(c['res'])}")


def r_lit(c):
    return (f"mkr {card_lit(c['card'])} {C.zlit(CONS[c['con']])} {C.listlit([C.zlit(CAND[x]) for x in c['cands']])} "
            f"{C.listlit([C.zlit(v) for v in c['votes']])} {C.listlit([C.blit(v) for v in c['truthy']])} "
            f"{C.blit(c['has'])} {C.optlit(c['one'], C.blit)}")


def jcase(c):
    return C.jsonable(c)


# ---------------------------------------------------------------- generation
# The same selection in other representations.  A mark style is chosen per world:
#   ("mark", T, Fs)   every mark drawn independently from the lists (mixed within a ballot)
#   ("ballot", T, Fs) one truthy and one falsy encoding per ballot (homogeneous ballots, mixed across ballots)
#   ("world", t, f)   one encoding for the whole world
# ABSENT as the falsy encoding means the key is left out.
ABSENT = object()
NANS = [float("nan"), np.nan, np.float64("nan")]      # truthy in Python: bool(float('nan')) is True
TRUTHY_ALL = TRUTHY + [np.int64(1), np.bool_(True), "1", "X", np.float64(1.0), np.int32(3)] + NANS
FALSY_ALL = FALSY + [np.int64(0), np.bool_(False), np.float64(0.0), ABSENT]
TRUTHY_ONE = [True, 1, 1.0, np.int64(1), np.bool_(True), "1", "X", float("nan"), np.float64("nan")]
FALSY_ONE = [False, 0, 0.0, "", None, ABSENT]
MARK_STYLE = [("mark", TRUTHY, FALSY)]


def set_mark_style(rng):
    k = rng.choice(["legacy", "mark", "mark", "ballot", "ballot", "world", "world", "nan"])
    if k == "nan":        # NaN-encoded marks alone or next to one other encoding
        MARK_STYLE[0] = ("mark", NANS + [rng.choice(TRUTHY_ONE)] * rng.randint(0, 2), FALSY_ALL)
    elif k == "legacy":
        MARK_STYLE[0] = ("mark", TRUTHY, FALSY)
    elif k == "world":
        MARK_STYLE[0] = ("world", [rng.choice(TRUTHY_ONE)], [rng.choice(FALSY_ONE)])
    else:
        MARK_STYLE[0] = (k, TRUTHY_ALL if rng.random() < 0.7 else TRUTHY_ONE, FALSY_ALL if rng.random() < 0.7 else FALSY_ONE)
    return k


def encode(rng, cands, sel, p_explicit, extra):
    """votes dict for one contest on one card: truthy encodings for `sel`, explicit falsy entries for some
    other listed candidates, `extra` (name -> mark) added verbatim; key order shuffled."""
    kind, T, Fs = MARK_STYLE[0]
    if kind == "ballot":
        T, Fs = [rng.choice(T)], [rng.choice(Fs)]
    d = {}
    for x in cands:
        if x in sel:
            d[x] = rng.choice(T)
        elif rng.random() < p_explicit:
            v = rng.choice(Fs)
            if v is not ABSENT:
                d[x] = v
    d.update(extra)
    keys = list(d)
    rng.shuffle(keys)
    return {k: d[k] for k in keys}


def gen_contest(rng, cid, scf=None, cands=None):
    scf = scf or rng.choice(["PLURALITY", "PLURALITY", "APPROVAL", "SUPERMAJORITY", "SUPERMAJORITY"])
    if cands is None:
        m = rng.randint(2, 5)
        cands = rng.sample(LISTED, m)
    m = len(cands)
    if scf == "SUPERMAJORITY":
        k = 1
    elif scf == "APPROVAL":
        k = rng.choice([1, 1, 2, m])
    else:
        k = rng.randint(1, min(3, m - 1))
    nwin = 1 if scf == "SUPERMAJORITY" else (k if scf == "PLURALITY" else rng.randint(1, min(3, m - 1)))
    return {"id": cid, "scf": scf, "cands": list(cands), "k": k, "nwin": nwin,
            "f": rng.choice(SHARES) if scf == "SUPERMAJORITY" else None,
            "polling": rng.random() < 0.5, "style": rng.random() < 0.6, "enforce": rng.random() < 0.6,
            "winners": None}


def gen_selections(rng, spec, n, clean):
    """intended sets of marked listed candidates, one per card that contains the contest"""
    cands, k, scf = spec["cands"], spec["k"], spec["scf"]
    m = len(cands)
    mode = rng.choice(["weights", "weights", "counts", "counts", "threshold" if scf == "SUPERMAJORITY" else "tie",
                       "unanimous", "blank"] if n > 1 else ["weights", "counts", "unanimous", "blank"])
    sels = []
    if mode == "weights":
        top = rng.choice([F(1, 3), F(2, 5), F(1, 2), F(3, 5), F(2, 3), F(3, 4), F(9, 10)])
        w = [float(top)] + [float(1 - top) * rng.random() + 0.01 for _ in range(m - 1)]
        rng.shuffle(w)
        p_over = 0 if clean else rng.choice([0.1, 0.3])
        for _ in range(n):
            if rng.random() < p_over:
                cnt = rng.randint(min(k + 1, m), m)
            else:
                cnt = rng.choice([0] + list(range(1, min(k, m) + 1)) * 3)
            pool, ww, s = list(cands), list(w), set()
            for _ in range(cnt):
                x = rng.choices(pool, ww)[0]
                i = pool.index(x)
                pool.pop(i)
                ww.pop(i)
                s.add(x)
            sels.append(s)
    elif mode in ("counts", "tie"):
        hi = max(1, n // 2)
        cnts = [rng.randint(0, hi) for _ in cands]
        if mode == "tie":
            i, j = rng.sample(range(m), 2)
            cnts[j] = cnts[i]
        for x, cn in zip(cands, cnts):
            sels += [{x}] * cn
        sels = sels[:n] if mode == "counts" else sels
        sels += [set()] * max(0, n - len(sels)) if rng.random() < 0.5 else []
        rng.shuffle(sels)
    elif mode == "threshold":
        f = spec["f"]
        t = rng.randint(1, max(1, n // f.denominator))
        valid, wv = f.denominator * t, f.numerator * t + rng.choice([0, 0, 0, 1, -1])
        wv = max(0, min(valid, wv))
        win = cands[0]
        sels = [{win}] * wv + [{rng.choice(cands[1:])} for _ in range(valid - wv)]
        for _ in range(rng.randint(0, 4)):
            sels.append(rng.choice([set(), set(rng.sample(cands, 2))]))
        rng.shuffle(sels)
    elif mode == "unanimous":
        sels = [{cands[0]}] * n
    else:
        sels = [set()] * n
    return sels, mode


def gen_world(rng, n=None):
    """1-3 contests, a card list containing subsets of them."""
    mstyle = set_mark_style(rng)
    ncon = rng.choice([1, 1, 1, 2, 3])
    shared = ncon > 1 and rng.random() < 0.5       # contests share the candidate / winner / loser list objects
    specs = []
    for i in range(ncon):
        if shared and specs:
            s = gen_contest(rng, f"c{i + 1}", scf=specs[0]["scf"], cands=specs[0]["cands"])
            s["k"], s["nwin"] = specs[0]["k"], specs[0]["nwin"]
        else:
            s = gen_contest(rng, f"c{i + 1}")
        specs.append(s)
    if rng.random() < 0.04:
        specs[0]["id"] = "A"                      # a contest whose id is also a candidate name
    n = n or rng.choice([1, 2, 3, 4, 5, 6, 8, 10, 13, 17, 24, 32, 40])
    clean = rng.random() < 0.55                   # no overvotes, no write-ins: the margin guards hold
    p_nc = rng.choice([0, 0, 0.15, 0.4])
    p_wi = 0 if clean else rng.choice([0, 0.1, 0.3])
    p_explicit = rng.choice([0, 0.2, 0.6])
    falsy_name = (not clean) and rng.random() < 0.15
    cards = [{"votes": {}, "phantom": rng.random() < 0.1} for _ in range(n)]
    modes = []
    for s in specs:
        idx = [i for i in range(n) if rng.random() >= p_nc]
        sels, mode = gen_selections(rng, s, len(idx), clean)
        modes.append(mode)
        if len(sels) > len(idx):                   # counts/threshold modes fix their own number of cards
            extra = len(sels) - len(idx)
            if n + extra <= 40:
                cards += [{"votes": {}, "phantom": False} for _ in range(extra)]
                idx += list(range(n, n + extra))
                n += extra
            else:
                sels = sels[:len(idx)]
        for i, sel in zip(idx, sels):
            extra = {}
            if rng.random() < p_wi:
                extra[rng.choice(WRITEINS)] = rng.choice(TRUTHY + FALSY[:2])
            if falsy_name and rng.random() < 0.3:
                extra[""] = rng.choice(TRUTHY + FALSY[:1])
            cards[i]["votes"][s["id"]] = encode(rng, s["cands"], sel, p_explicit, extra)
    for c in cards:
        if not c["votes"] and rng.random() < 0.3:
            c["votes"]["other"] = encode(rng, ["A", "B"], {rng.choice(["A", "B"])}, 0.3, {})
    # reported winners: the true top-k (ties broken arbitrarily) or an arbitrary k-subset
    for s in specs:
        if shared and s is not specs[0]:
            s["winners"] = specs[0]["winners"]
            continue
        tot = {x: sum(1 for c in cards if bool(c["votes"].get(s["id"], {}).get(x, False))) for x in s["cands"]}
        order = sorted(s["cands"], key=lambda x: (-tot[x], rng.random()))
        kk = s["nwin"]
        s["winners"] = order[:kk] if rng.random() < 0.6 else rng.sample(s["cands"], kk)
        if s["scf"] == "SUPERMAJORITY" and rng.random() < 0.6:
            s["winners"] = [s["cands"][0]]          # the candidate the threshold / unanimous profiles are built around
    return {"specs": specs, "cards": cards, "shared": shared, "twice": rng.random() < 0.3,
            "via_all": rng.random() < 0.3, "modes": modes, "clean": clean, "marks": mstyle}


FLOAT_SHARES = [0.55, 0.6, 1 / 3, 0.599999, 0.600001, 2 / 3, 0.45, 0.5000001, 0.3333, 0.7, 0.51]


def awkward_n(rng, lo, hi):
    """a length that is no multiple of 1000, of 64, nor a power of two, and not near a multiple of 1000"""
    while True:
        n = rng.randint(lo, hi)
        if 37 <= n % 1000 <= 963 and n % 64 and n & (n - 1):
            return n


def gen_sized_world(rng, n, scf, lead=None, tail=0, float_share=True):
    """One contest over n cards built from a small palette of shared card dicts (cheap for very long lists).
    plurality: winner's lead over the runner-up is `lead` votes (any sign; None = random, a few percent);
    super-majority: the winner has floor(f * valid) + d valid votes, d in {1, 0, 2, -1}.
    The last `tail` cards favour the loser, so the vote split changes along the list."""
    mstyle = set_mark_style(rng)
    cands = rng.sample(LISTED, rng.randint(2, 4))
    win, los = cands[0], cands[1]
    f = None
    if scf == "SUPERMAJORITY":
        x = rng.choice(FLOAT_SHARES) if float_share else float(rng.choice(SHARES))
        f = F(*float(x).as_integer_ratio())
    spec = {"id": "c1", "scf": scf, "cands": cands, "k": 1, "nwin": 1, "f": f, "polling": rng.random() < 0.5,
            "style": rng.random() < 0.6, "enforce": rng.random() < 0.6, "winners": [win]}
    p_exp = rng.choice([0, 0.5])

    def ballot(sel):
        return {"votes": {"c1": encode(rng, cands, sel, p_exp, {})}, "phantom": False}
    pal = {x: [ballot({x}) for _ in range(2)] for x in cands}
    blank, nocon = ballot(set()), {"votes": {}, "phantom": False}
    over = ballot({win, los})
    n_nc = rng.choice([0, n // 20, n // 7]) if n > 2 else 0
    n_blank = rng.choice([0, n // 30, n // 9]) if n > 2 else 0
    n_over = rng.choice([0, n // 40]) if (scf == "SUPERMAJORITY" and spec["enforce"]) else 0
    m = max(1, n - n_nc - n_blank - n_over)
    cnt = {x: 0 for x in cands}
    others = cands[2:]
    if scf == "SUPERMAJORITY":
        wv = max(0, min(m, int(f * m) + rng.choice([1, 1, 0, 2, -1])))
        cnt[win] = wv
        rest = m - wv
        for x in others:
            cnt[x] = rng.randint(0, rest // 3)
            rest -= cnt[x]
        cnt[los] = rest
    else:
        o = rng.randint(0, m // 10) if others else 0
        if lead is None:
            lead = rng.randint(-max(1, m // 12), max(1, m // 12))
        if (m - o - lead) % 2:
            if others:
                o += 1 if o < m else -1
            else:
                m -= 1
        r = m - o
        lead = max(-r, min(r, lead))
        if (r - lead) % 2:
            lead += 1 if lead < r else -1
        cnt[win], cnt[los] = (r + lead) // 2, (r - lead) // 2
        for x in others[:-1]:
            cnt[x] = rng.randint(0, o)
            o -= cnt[x]
        if others:
            cnt[others[-1]] = o
    tail = min(tail, cnt[los])
    head = [blank] * n_blank + [nocon] * n_nc + [over] * n_over
    for x in cands:
        k = cnt[x] - (tail if x == los else 0)
        head += [pal[x][0]] * (k // 2) + [pal[x][1]] * (k - k // 2)
    rng.shuffle(head)
    cards = head + [pal[los][0]] * tail
    return {"specs": [spec], "cards": cards, "shared": False, "twice": False, "via_all": rng.random() < 0.3,
            "modes": ["sized"], "clean": True, "lead": lead, "marks": mstyle}


def exhaustive_worlds(rng):
    """all multisets of <= 4 cards over the 9 card types (contest absent, or any subset of 3 candidates marked)"""
    MARK_STYLE[0] = ("mark", TRUTHY_ALL, FALSY_ALL)
    cands = ["A", "B", "C"]
    types = [None] + [set(s) for r in range(4) for s in itertools.combinations(cands, r)]
    worlds = []
    for n in range(1, 5):
        for combo in itertools.combinations_with_replacement(range(len(types)), n):
            cards = []
            for ti in combo:
                if types[ti] is None:
                    cards.append({"votes": {} if rng.random() < 0.7 else {"other": {"A": True}}, "phantom": False})
                else:
                    cards.append({"votes": {"c1": encode(rng, cands, types[ti], rng.choice([0, 0.5]), {})},
                                  "phantom": False})
            worlds.append({"cards": cards, "combo": combo})
    return worlds, cands


# ---------------------------------------------------------------- implementation side
NUMS = {"int": int, "np.int64": np.int64, "float": float, "np.float64": np.float64}


def gen_repr(rng):
    """How the same world is handed to the library: collection types, numeric types, positional or keyword calls."""
    if rng.random() < 0.25:
        return {"cand": "list", "win": "list", "los": "list", "cards": "int", "nw": "int", "share": "float",
                "positional": False, "cvrs": "list"}
    return {"cand": rng.choice(["list", "tuple", "set"]), "win": rng.choice(["list", "tuple", "set"]),
            "los": rng.choice(["list", "tuple", "set"]), "cards": rng.choice(list(NUMS)), "nw": rng.choice(list(NUMS)),
            "share": rng.choice(["float", "np.float64"]), "positional": rng.random() < 0.5,
            "cvrs": rng.choice(["list", "tuple"])}


COLL = {"list": list, "tuple": tuple, "set": set}


def make_cvrs(cards, positional=False):
    A = AU()
    if positional:
        return [A.CVR(str(i), None, c["votes"], c["phantom"]) for i, c in enumerate(cards)]
    return [A.CVR(id=str(i), votes=c["votes"], phantom=c["phantom"]) for i, c in enumerate(cards)]


def fl(v):
    return None if v is None else float(v)


def new_obs(asn, kind, polling, style):
    return {"kind": kind, "vals": [], "ub": float(asn.assorter.upper_bound), "polling": polling, "style": style,
            "mean_s": None, "mean_a": None, "margin": None, "u": None, "exc": []}


def observe_eval(asn, o, cvrs, positional=False):
    """Assorter.assort on every card, Assorter.mean with and without the style filter; None where the call raised"""
    o["vals"], o["mean_s"], o["mean_a"] = [], None, None
    for c in cvrs:
        try:
            o["vals"].append(float(asn.assorter.assort(c)))
        except Exception as e:  # noqa
            o["vals"].append(None)
            o["exc"].append(f"assort: {type(e).__name__}")
    for key, us in (("mean_s", True), ("mean_a", False)):
        try:
            o[key] = float(asn.assorter.mean(cvrs, us) if positional else asn.assorter.mean(cvr_list=cvrs, use_style=us))
        except Exception as e:  # noqa
            o["exc"].append(f"mean: {type(e).__name__}")


def observe_set(asn, o, cvrs, positional=False):
    """Assertion.set_margin_from_cvrs: the stored margin and test.u"""
    A = AU()
    o["margin"], o["u"] = None, None
    try:
        audit = A.Audit(strata={"s": A.Stratum(use_style=o["style"])})
        asn.set_margin_from_cvrs(audit, cvrs) if positional else asn.set_margin_from_cvrs(audit=audit, cvr_list=cvrs)
        o["margin"], o["u"] = float(asn.margin), float(asn.test.u)
    except Exception as e:  # noqa
        o["exc"].append(f"set_margin_from_cvrs: {type(e).__name__}")


def observe(asn, kind, cvrs, polling, style):
    """everything C02 observes of one assertion"""
    o = new_obs(asn, kind, polling, style)
    observe_eval(asn, o, cvrs)
    observe_set(asn, o, cvrs)
    return o


FAMILY_BAD = []


def build_assertions(con, spec, W, L, via_all, positional=False):
    """the library builds the assorters; returns list of (kind, Assertion)"""
    A = AU()
    if via_all and spec["scf"] != "APPROVAL":
        A.Assertion.make_all_assertions({con.id: con})
        d = con.assertions
    elif spec["scf"] == "SUPERMAJORITY":
        w0 = sorted(W)[0] if isinstance(W, set) else W[0]
        if spec["_rng"].random() < 0.3:     # the share is the contest's: the keyword (default 1/2) may be left out
            d = A.Assertion.make_supermajority_assertion(contest=con, winner=w0, loser=L)
        elif positional:
            d = A.Assertion.make_supermajority_assertion(con, con.share_to_win, w0, L)
        else:
            d = A.Assertion.make_supermajority_assertion(contest=con, share_to_win=con.share_to_win, winner=w0, loser=L)
        con.assertions = d
    else:
        d = A.Assertion.make_plurality_assertions(con, W, L) if positional else \
            A.Assertion.make_plurality_assertions(contest=con, winner=W, loser=L)
        con.assertions = d
    # the FAMILY of assertions (model: plurality_pairs W L / the single super-majority assertion; for make_all_assertions
    # the regenerated gen_maa_tail): all assorter means exceed 1/2 iff the reported winners won only if no pair is missing
    got = sorted((repr(a.winner), repr(a.loser)) for a in d.values())
    if spec["scf"] == "SUPERMAJORITY":
        want = [(repr(sorted(W)[0] if isinstance(W, set) else W[0]), repr(A.Contest.CANDIDATES.ALL_OTHERS))]
    else:
        want = sorted({(repr(w_), repr(l_)) for w_ in W for l_ in L})
    if got != want:
        FAMILY_BAD.append({"what": "assertion family differs from (reported winners) x (other candidates): "
                                   + ("make_all_assertions" if via_all and spec["scf"] != "APPROVAL" else "direct builder"),
                           "input": {"scf": spec["scf"], "candidates": C.jsonable(spec["cands"]), "winners": sorted(map(repr, W)),
                                     "losers": sorted(map(repr, L)), "n_winners": repr(con.n_winners)},
                           "observed": {"built (winner, loser)": got, "expected": want}})
    out = []
    for key, asn in d.items():
        if spec["scf"] == "SUPERMAJORITY":
            losers = [x for x in spec["cands"] if x != asn.winner]
            out.append((("sm", F(*float(con.share_to_win).as_integer_ratio()), asn.winner, losers), asn))
        else:
            out.append((("pl", asn.winner, asn.loser), asn))
    return out


def exc_kind(e):
    n = type(e).__name__
    return n if n in ("KeyError", "ZeroDivisionError", "TypeError", "NotImplementedError") else "TypeError"


def run_margin(asn, con, arg, tag, positional=False):
    """one call of find_margin_from_tally; returns the m-case"""
    ct = con.tally
    ctally = None if ct is None else (list(ct.items()), hasattr(ct, "default_factory"))
    a = None if arg is None else (list(arg.items()), hasattr(arg, "default_factory"))
    try:
        with warnings.catch_warnings():
            warnings.simplefilter("ignore")
            if arg is None:
                asn.find_margin_from_tally()
            elif positional:
                asn.find_margin_from_tally(arg)
            else:
                asn.find_margin_from_tally(tally=arg)
        r = ("val", float(asn.margin))
    except Exception as e:  # noqa
        r = ("err", exc_kind(e))
    f = con.share_to_win
    return {"arg": a, "ctally": ctally, "scf": con.choice_function, "w": asn.winner, "l": asn.loser,
            "cards": int(con.cards), "f": F(*float(f).as_integer_ratio()) if f is not None else F(1, 2),
            "candidates": list(con.candidates), "res": r, "tag": tag}


def prelude_cards(rng, w):
    """another card list for the same contests: a resample of the world's cards with some selections changed"""
    n = rng.randint(1, max(2, min(40, 2 * len(w["cards"]))))
    out = []
    for _ in range(n):
        c = w["cards"][rng.randrange(len(w["cards"]))]
        if rng.random() < 0.5:
            votes = {}
            for con, vs in c["votes"].items():
                spec = next((s for s in w["specs"] if s["id"] == con), None)
                votes[con] = encode(rng, spec["cands"], set(rng.sample(spec["cands"], rng.randint(0, 2))), 0.3, {}) \
                    if spec else vs
            c = {"votes": votes, "phantom": c["phantom"]}
        out.append(c)
    return out


def world_steps(w, rng, cvrs=None):
    """Run the real code on one world, as a generator that yields between phases so that two worlds can be
    evaluated alternately.  Its return value is (a_cases, t_cases, m_cases, facts for the oracle)."""
    A = AU()
    rp = w.setdefault("repr", gen_repr(rng))
    pos = rp["positional"]
    if cvrs is None:
        cvrs = make_cvrs(w["cards"], pos)
    cvrs = COLL[rp["cvrs"]](cvrs)
    specs = w["specs"]
    cons, lists = [], {}
    for s in specs:
        s["_rng"] = rng
        if w["shared"] and lists:
            cand_obj, W, L = lists["c"], lists["W"], lists["L"]
        else:
            sm = s["scf"] == "SUPERMAJORITY"
            cand_obj = COLL[rp["cand"]](s["cands"])
            # make_supermajority_assertion copies and appends to `loser` (a list) and make_all_assertions indexes
            # `winner`; elsewhere any collection is legal
            W = COLL["list" if (sm and rp["win"] == "set") else rp["win"]](s["winners"])
            L = [x for x in s["cands"] if x not in s["winners"]]
            rng.shuffle(L)
            L = COLL["list" if sm else rp["los"]](L)
            lists = {"c": cand_obj, "W": W, "L": L}
        f = NUMS[rp["share"]](float(s["f"])) if s["f"] is not None else None
        at = A.Audit.AUDIT_TYPE.POLLING if s["polling"] else A.Audit.AUDIT_TYPE.CARD_COMPARISON
        if pos:
            con = A.Contest(s["id"], s["id"], 0.05, NUMS[rp["cards"]](len(cvrs)), s["scf"], NUMS[rp["nw"]](s["k"]), f,
                            cand_obj, W, None, at)
        else:
            con = A.Contest(id=s["id"], name=s["id"], cards=NUMS[rp["cards"]](len(cvrs)), choice_function=s["scf"],
                            n_winners=NUMS[rp["nw"]](s["k"]), share_to_win=f, candidates=cand_obj, winner=W, audit_type=at)
        cons.append((s, con, W, L))
    built = []
    for s, con, W, L in cons:
        built.append([(s, con, build_assertions(con, s, W, L, w["via_all"], pos))])
    if w["twice"]:      # rebuild everything from the same Contest and list objects; the first generation is still used
        for i, (s, con, W, L) in enumerate(cons):
            built[i].append((s, con, build_assertions(con, s, W, L, w["via_all"] and rng.random() < 0.5, pos)))
    yield "built"
    con_dict = {con.id: con for _, con, _, _ in cons}
    enforce = specs[0]["enforce"]
    out = {}

    def evaluate(cvrs, cards, record):
        """every observation of C02 on one CVR list with the objects built above"""
        a_cases, t_cases, m_cases, facts = [], [], [], []
        with warnings.catch_warnings():
            warnings.simplefilter("ignore")
            slots = []
            for gens in built:
                for gi, (s, con, asns) in enumerate(gens):
                    obs = [new_obs(asn, kind, s["polling"], s["style"]) for kind, asn in asns]
                    a_cases.append({"con": s["id"], "cards": cards, "obs": obs, "gen": gi,
                                    "spec": {k: v for k, v in s.items() if k != "_rng"}})
                    slots += [(asn, o) for (kind, asn), o in zip(asns, obs)]
            if w.get("setters_first"):      # all setters before any evaluation, both in shuffled order
                order = list(slots)
                rng.shuffle(order)
                for asn, o in order:
                    observe_set(asn, o, cvrs, pos)
                    yield "set"
                rng.shuffle(order)
                for asn, o in order:
                    observe_eval(asn, o, cvrs, pos)
                    yield "eval"
            else:
                for asn, o in slots:
                    observe_eval(asn, o, cvrs, pos)
                    observe_set(asn, o, cvrs, pos)
                    yield "obs"
            # tallies: all contests in one call; then margins from the tally
            try:
                if rng.random() < 0.3:      # an earlier tally of other cards must leave no trace
                    A.Contest.tally(con_dict, cvrs[: max(1, len(cvrs) // 2)], enforce_rules=not enforce)
                    yield "tally0"
                if pos:
                    A.Contest.tally(con_dict, cvrs, enforce)
                else:
                    A.Contest.tally(con_dict=con_dict, cvr_list=cvrs, enforce_rules=enforce)
            except Exception:  # noqa  (a tally that raised shows up as a tally differing from the model's)
                pass
            try:
                tab = [(k, list(v.items())) for k, v in A.CVR.tabulate_votes(cvrs).items()]
            except Exception:  # noqa
                tab = [("other", [("A", -1)])]             # (never equal to the model's value)
            yield "tallied"
            for gens in built:
                s, con, asns = gens[-1]
                tally_items = list(con.tally.items()) if con.tally is not None else []
                t_cases.append({"con": s["id"], "enforce": enforce, "nw": s["k"], "cards": cards,
                                "tally": tally_items, "tab": tab})
                tab = None                                 # tabulate_votes compared once per world
                n_f = sum(1 for c in cards if s["id"] in c["votes"]) if s["style"] else len(cvrs)
                con.cards = NUMS[rp["cards"]](n_f) if n_f else 0   # (x / numpy 0 is inf, not ZeroDivisionError)
                snapshot = con.tally.copy() if con.tally is not None else None
                # Contest.find_margins_from_tally: every assertion, contest's own tally
                for kind, asn in asns:
                    asn.margin = None
                ctally0 = (list(con.tally.items()), True) if con.tally is not None else None
                try:
                    con.find_margins_from_tally()
                    raised = None
                except Exception as e:  # noqa
                    raised = exc_kind(e)
                f = con.share_to_win
                for kind, asn in asns:
                    mc = {"arg": None, "ctally": ctally0, "scf": con.choice_function, "w": asn.winner, "l": asn.loser,
                          "cards": int(con.cards), "f": F(*float(f).as_integer_ratio()) if f is not None else F(1, 2),
                          "candidates": list(con.candidates), "tag": "find_margins_from_tally"}
                    if asn.margin is not None:
                        mc["res"] = ("val", float(asn.margin))
                        m_cases.append(mc)
                    else:       # the loop stopped here; later assertions were never reached
                        mc["res"] = ("err", raised or "TypeError")
                        m_cases.append(mc)
                        break
                facts.append({"spec": {k: v for k, v in s.items() if k != "_rng"}, "enforce": enforce, "n_f": n_f,
                              "margins": [(kind, fl(asn.margin)) for kind, asn in asns] if raised is None else []})
                yield "margins"
                # explicit-argument variants on one assertion
                if asns and record:
                    kind, asn = asns[rng.randrange(len(asns))]
                    con.tally = snapshot.copy() if snapshot is not None else None
                    v = rng.choice(["plain", "empty", "subset", "cards0", "notally", "foreign", "scf"])
                    if v == "plain":
                        m_cases.append(run_margin(asn, con, dict(snapshot or {}), v, pos))
                    elif v == "empty":
                        m_cases.append(run_margin(asn, con, {}, v, pos))
                    elif v == "subset":
                        d = {k: x for k, x in (snapshot or {}).items() if rng.random() < 0.6}
                        m_cases.append(run_margin(asn, con, d, v, pos))
                    elif v == "cards0":
                        con.cards = 0
                        mc0 = run_margin(asn, con, None, v)
                        con.cards = NUMS[rp["cards"]](n_f)
                        # (super-majority, cards = 0: the result is inf * (p/f - 1); when the winner sits at the
                        #  threshold the sign of the second factor is a rounding matter -- not comparable)
                        tw = dict(snapshot or {}).get(asn.winner, 0)
                        vv = sum(dict(snapshot or {}).get(x, 0) for x in s["cands"])
                        if not (s["scf"] == "SUPERMAJORITY" and vv and abs(F(tw, vv) / mc0["f"] - 1) < F(1, 10 ** 9)):
                            m_cases.append(mc0)
                    elif v == "notally":
                        con.tally = None
                        m_cases.append(run_margin(asn, con, None, v))
                    elif v == "scf":    # the contest's social choice function is not the one the assertion was made for
                        keep = con.choice_function
                        con.choice_function = rng.choice([x for x in ("PLURALITY", "APPROVAL", "SUPERMAJORITY", "IRV") if x != keep])
                        if not (con.choice_function == "SUPERMAJORITY" and con.share_to_win is None and kind[0] == "sm"):
                            m_cases.append(run_margin(asn, con, None, v))
                        con.choice_function = keep
                    else:   # a tally with names that are not listed candidates, plain dict with every listed name
                        d = {x: rng.randint(0, 9) for x in s["cands"]}
                        d[rng.choice(WRITEINS)] = rng.randint(1, 9)
                        keys = list(d)
                        rng.shuffle(keys)
                        m_cases.append(run_margin(asn, con, {k: d[k] for k in keys}, v, pos))
                    con.tally = snapshot
        out["r"] = (a_cases, t_cases, m_cases, facts)

    if w.get("prelude"):        # the same objects first serve another CVR list; nothing of it may remain
        pc = prelude_cards(rng, w)
        yield from evaluate(COLL[rp["cvrs"]](make_cvrs(pc, pos)), pc, False)
    yield from evaluate(cvrs, w["cards"], True)
    for s in specs:
        s.pop("_rng", None)
    return out["r"]


def drive(gens):
    """advance the generators alternately until all are finished; returns their return values in order"""
    results = [None] * len(gens)
    live = list(range(len(gens)))
    while live:
        for i in list(live):
            try:
                next(gens[i])
            except StopIteration as e:
                results[i] = e.value
                live.remove(i)
    return results


def run_world(w, rng, cvrs=None):
    return drive([world_steps(w, rng, cvrs)])[0]


def variant_world(rng, w):
    """the same cards read by other Contest objects: other reported winners, modes and representation"""
    specs = []
    for s in w["specs"]:
        t = dict(s)
        t["winners"] = rng.sample(s["cands"], len(s["winners"]))
        t["polling"], t["style"], t["enforce"] = rng.random() < 0.5, rng.random() < 0.5, rng.random() < 0.5
        specs.append(t)
    if w["shared"]:
        for t in specs[1:]:
            t["winners"] = specs[0]["winners"]
    return {"specs": specs, "cards": w["cards"], "shared": w["shared"], "twice": rng.random() < 0.3,
            "via_all": rng.random() < 0.3, "modes": ["variant"], "clean": w["clean"], "marks": w.get("marks"),
            "setters_first": rng.random() < 0.4, "prelude": rng.random() < 0.3}


def run_pair(w1, w2, rng, share_cvrs):
    """two worlds built completely, then evaluated alternately; optionally on the very same CVR objects"""
    cv = make_cvrs(w1["cards"]) if share_cvrs else None
    return drive([world_steps(w1, rng, cv), world_steps(w2, rng, cv)])


# ---------------------------------------------------------------- oracle (implementation only)
def raw_marks(card, con):
    d = card["votes"].get(con)
    return None if d is None else {x for x, v in d.items() if bool(v)}


def raw_votes(cards, con, x):
    return sum(1 for c in cards if x in (raw_marks(c, con) or ()))


def is_gt_half(m):
    return m is not None and not math.isnan(m) and m > 0.5


def compact_cards(cards):
    """json-able form of a card list; long lists (built from a few shared card dicts) as palette + index sequence"""
    if len(cards) <= 300:
        return C.jsonable(cards)
    pal, idx, seq = [], {}, []
    for c in cards:
        k = id(c)
        if k not in idx:
            idx[k] = len(pal)
            pal.append(c)
        seq.append(idx[k])
    return {"palette": C.jsonable(pal), "sequence": seq}


def exact_mean(vals, keep):
    """exact mean (Fraction) of the doubles vals[i] with keep[i]; None if there are none"""
    cnt = {}
    for v, k in zip(vals, keep):
        if k:
            cnt[v] = cnt.get(v, 0) + 1
    n = sum(cnt.values())
    return None if n == 0 else sum(F(*v.as_integer_ratio()) * k for v, k in cnt.items()) / n


def oracle_case(acase, fact, viol):
    """The property on the implementation's outputs for one contest over one card list (any length).
    acase: the a_case (assort values, means, stored margins); fact: tally-margin facts or None"""
    s, cards = acase["spec"], acase["cards"]
    con, cands = s["id"], s["cands"]
    lst = set(cands)
    runs = 0

    def flag(what, observed, sig):
        viol.append({"what": what, "input": {"contest": {k: C.jsonable(v) for k, v in s.items()}, "cards": compact_cards(cards)},
                     "observed": C.jsonable(observed), "signature": f"C02:{sig}"})

    # per-card facts read from the raw dicts (cached per card object: long lists share a few dicts)
    cache = {}

    def info(c):
        r = cache.get(id(c))
        if r is None:
            m = raw_marks(c, con)
            has = m is not None
            m = m or set()
            r = cache[id(c)] = (has, m, len(m & lst), len({x for x in m if x}))
        return r
    infos = [info(c) for c in cards]
    has = [r[0] for r in infos]
    everyone = [True] * len(cards)
    # range
    for o in acase["obs"]:
        runs += 1
        for i, v in enumerate(o["vals"]):
            if v is None:
                flag(f"{o['kind'][0]} assorter raises on a ballot ({'containing' if has[i] else 'lacking'} the contest)",
                     {"card": cards[i], "exc": o["exc"][:1]}, f"raise:{o['kind'][0]}")
                break
            if not (0 <= v <= o["ub"]):
                flag(f"{o['kind'][0]} assorter value outside [0, upper_bound]", {"card": cards[i], "value": v, "ub": o["ub"]},
                     f"range:{o['kind'][0]}")
                break
    vt = {x: sum(1 for r in infos if x in r[1]) for x in lst}
    valid = sum(1 for r in infos if r[2] == 1)
    complete = [o for o in acase["obs"] if all(v is not None for v in o["vals"])]
    for style, key, keep in ((True, "mean_s", has), (False, "mean_a", everyone)):
        if not any(keep):
            continue
        # each mean is the mean of the assorter's own values over the cards the style rule selects
        em = {}
        for o in complete:
            runs += 1
            em[id(o)] = exact_mean(o["vals"], keep)
            if o[key] is None or math.isnan(o[key]) or abs(float(em[id(o)]) - o[key]) > TOL:
                flag("Assorter.mean differs from the mean of the assorter values over the cards it should use",
                     {"kind": o["kind"], "mean": o[key], "mean_of_values": float(em[id(o)]), "use_style": style,
                      "cards": len(cards)}, "mean")
        pl = [o for o in acase["obs"] if o["kind"][0] == "pl"]
        if pl and all(id(o) in em for o in pl):
            runs += 1
            lhs = all(is_gt_half(o[key]) for o in pl)
            rhs = all(vt[o["kind"][1]] > vt[o["kind"][2]] for o in pl)
            if lhs != rhs:
                flag("plurality/approval: all assorter means > 1/2 is not equivalent to every winner beating every loser",
                     {"means": [(o["kind"], o[key]) for o in pl], "votes": vt, "use_style": style}, "pl-iff")
        for o in complete:
            if o["kind"][0] != "sm" or o[key] is None or math.isnan(o[key]):
                continue
            runs += 1
            win = o["kind"][2]
            wv = sum(1 for r in infos if r[2] == 1 and win in r[1])
            gap = F(wv) - s["f"] * valid          # the intended share (exact rational)
            if abs(gap) <= F(max(valid, 1), 10 ** 9):
                # at (or within rounding of) the threshold the mean is 1/2 up to the rounding of 1/(2f)
                if abs(o[key] - 0.5) > TOL:
                    flag("super-majority: winner exactly at the threshold but the assorter mean is not 1/2",
                         {"mean": o[key], "winner_votes": wv, "valid": valid, "share": s["f"]}, "sm-iff")
            elif is_gt_half(o[key]) != (gap > 0):
                flag("super-majority: assorter mean > 1/2 is not equivalent to winner's votes > share * valid votes",
                     {"mean": o[key], "winner_votes": wv, "valid": valid, "share": s["f"], "use_style": style}, "sm-iff")
    # the margin stored by set_margin_from_cvrs is 2 * mean - 1 of the assorter's own values (no rounding to a tie)
    for o in complete:
        keep = has if o["style"] else everyone
        if not any(keep):
            continue
        runs += 1
        want = 2 * exact_mean(o["vals"], keep) - 1
        if o["margin"] is None or math.isnan(o["margin"]) or abs(o["margin"] - float(want)) > 1e-12:
            flag("set_margin_from_cvrs: the stored margin is not 2 * (mean of the assorter values) - 1",
                 {"kind": o["kind"], "margin": o["margin"], "two_mean_minus_one": float(want), "cards": len(cards),
                  "use_style": o["style"]}, "cvr-margin")
    # margin from the tally = 2 * mean - 1 over the same cards
    if fact and fact["n_f"] > 0 and fact["margins"]:
        enforce, nw = fact["enforce"], s["k"]
        key = "mean_s" if s["style"] else "mean_a"
        tallied = [r[0] and ((not enforce) or r[3] <= nw) for r in infos]
        for (kind, mg), o in zip(fact["margins"], acase["obs"]):
            if mg is None or o[key] is None or math.isnan(o[key]):
                continue
            if kind[0] == "pl":
                ok = all(t for t, r in zip(tallied, infos) if r[0]) and kind[1] and kind[2]
            else:
                ok = all(lst) and len(lst) == len(cands) and kind[2] in lst and \
                    all(r[2] == 0 or (t == (r[2] == 1)) for t, r in zip(tallied, infos) if r[0])
            if not ok:
                continue
            runs += 1
            if kind[0] == "sm" and valid == 0:
                stats_novalid[0] += 1       # no valid vote at all: the margin must be 0, not 0/0
            if math.isnan(mg) or abs(mg - (2 * o[key] - 1)) > TOL or \
                    (o["margin"] is not None and not math.isnan(o["margin"]) and abs(mg - o["margin"]) > TOL):
                flag(f"{'super-majority' if kind[0] == 'sm' else 'plurality/approval'}: margin from the tally differs from 2*mean - 1 over the same cards",
                     {"margin_from_tally": mg, "two_mean_minus_one": 2 * o[key] - 1, "margin_from_cvrs": o["margin"],
                      "kind": kind, "enforce_rules": enforce, "use_style": s["style"]}, f"margin:{kind[0]}")
    return runs


# ---------------------------------------------------------------- single-card readers
def reader_cases(rng, worlds, n):
    A = AU()
    out = []
    pool = [(c, s) for w in worlds for c in w["cards"] for s in w["specs"]]
    for _ in range(n):
        if not pool:
            break
        card, s = pool[rng.randrange(len(pool))]
        con = rng.choice([s["id"], s["id"], s["id"], "other", "c3"])
        k = rng.randint(0, 5)
        cands = [rng.choice(LISTED + WRITEINS + [""]) for _ in range(k)] if rng.random() < 0.5 else list(s["cands"])
        cvr = A.CVR(id="x", votes=card["votes"], phantom=card["phantom"])
        got = [cvr.get_vote_for(con, x) for x in cands]
        try:
            one = bool(cvr.has_one_vote(con, rng.choice([list, tuple])(cands)))
        except Exception:  # noqa
            one = None
        out.append({"card": card, "con": con, "cands": cands, "votes": [int(A.CVR.as_vote(g)) for g in got],
                    "truthy": [bool(g) for g in got], "has": bool(cvr.has_contest(con)),
                    "one": one})
    return out


# ---------------------------------------------------------------- exhaustive small profiles
def run_exhaustive(rng):
    """all multisets of <= 4 cards x 3 candidates; every ordered (w, l) plurality pair, every winner for the
    super-majority with three shares.  Returns a_cases (all of them carry the oracle; a subset goes to Coq)."""
    A = AU()
    worlds, cands = exhaustive_worlds(rng)
    a_all, t_all, m_all, facts = [], [], [], []
    with warnings.catch_warnings():
        warnings.simplefilter("ignore")
        for w in worlds:
            cvrs = make_cvrs(w["cards"])
            # plurality: each single winner against the two others, built from one Contest
            for x in cands:
                others = [y for y in cands if y != x]
                style, enforce = rng.random() < 0.5, rng.random() < 0.5
                spec = {"id": "c1", "scf": "PLURALITY", "cands": cands, "k": 1, "nwin": 1, "f": None,
                        "polling": rng.random() < 0.5, "style": style, "enforce": enforce, "winners": [x]}
                con = A.Contest(id="c1", name="c1", cards=len(cvrs), choice_function="PLURALITY", n_winners=1,
                                candidates=list(cands), winner=[x],
                                audit_type=A.Audit.AUDIT_TYPE.POLLING if spec["polling"] else A.Audit.AUDIT_TYPE.CARD_COMPARISON)
                d = A.Assertion.make_plurality_assertions(contest=con, winner=[x], loser=others)
                con.assertions = d
                asns = [(("pl", a.winner, a.loser), a) for a in d.values()]
                obs = [observe(a, k, cvrs, spec["polling"], style) for k, a in asns]
                ac = {"con": "c1", "cards": w["cards"], "obs": obs, "spec": spec, "gen": 0}
                fact = tally_and_margins(A, con, spec, asns, cvrs, w["cards"], enforce, t_all, m_all)
                a_all.append(ac)
                facts.append(fact)
            # super-majority: each winner, share fixed per winner
            for x, f in zip(cands, [F(1, 2), F(2, 3), F(1, 4)]):
                others = [y for y in cands if y != x]
                style, enforce = rng.random() < 0.5, rng.random() < 0.7
                spec = {"id": "c1", "scf": "SUPERMAJORITY", "cands": cands, "k": 1, "nwin": 1, "f": f,
                        "polling": rng.random() < 0.5, "style": style, "enforce": enforce, "winners": [x]}
                con = A.Contest(id="c1", name="c1", cards=len(cvrs), choice_function="SUPERMAJORITY", n_winners=1,
                                share_to_win=float(f), candidates=list(cands), winner=[x],
                                audit_type=A.Audit.AUDIT_TYPE.POLLING if spec["polling"] else A.Audit.AUDIT_TYPE.CARD_COMPARISON)
                d = A.Assertion.make_supermajority_assertion(contest=con, share_to_win=float(f), winner=x, loser=others)
                con.assertions = d
                asns = [(("sm", F(*float(f).as_integer_ratio()), a.winner, others), a) for a in d.values()]
                obs = [observe(a, k, cvrs, spec["polling"], style) for k, a in asns]
                ac = {"con": "c1", "cards": w["cards"], "obs": obs, "spec": spec, "gen": 0}
                fact = tally_and_margins(A, con, spec, asns, cvrs, w["cards"], enforce, t_all, m_all)
                a_all.append(ac)
                facts.append(fact)
    return a_all, t_all, m_all, facts


def tally_and_margins(A, con, spec, asns, cvrs, cards, enforce, t_out, m_out):
    A.Contest.tally({con.id: con}, cvrs, enforce_rules=enforce)
    t_out.append({"con": spec["id"], "enforce": enforce, "nw": spec["k"], "cards": cards,
                  "tally": list(con.tally.items()), "tab": None})
    n_f = sum(1 for c in cards if spec["id"] in c["votes"]) if spec["style"] else len(cards)
    con.cards = n_f
    margins = []
    for kind, asn in asns:
        mc = run_margin(asn, con, None, "exhaustive")
        m_out.append(mc)
        margins.append((kind, mc["res"][1] if mc["res"][0] == "val" else None))
    return {"spec": spec, "enforce": enforce, "n_f": n_f, "margins": margins}


# ---------------------------------------------------------------- entry point
def digest(ac):
    return repr((ac["spec"]["scf"], ac["spec"]["cands"], ac["spec"]["winners"], str(ac["spec"]["f"]),
                 [sorted((k, sorted((repr(x), repr(m)) for x, m in v.items())) for k, v in c["votes"].items()) for c in ac["cards"]]))


def run(ctx, res):
    from . import genarith
    genarith.regenerate(ctx.pid, "audit", res)   # regenerated tie: overstatement assorter, u bound, tally margins (DESIGN 2.1)
    genarith.regenerate(ctx.pid, "assorter_skeletons", res)   # whole-function skeletons: as_vote, get_vote_for, has_one_vote,
    #                                   make_plurality_assertions, make_supermajority_assertion, Contest.tally, find_margin_from_tally
    rng = ctx.rng
    stats_novalid[0] = 0
    n_worlds = ctx.n(260, 4000)
    a_cases, t_cases, m_cases = [], [], []
    stats = {}

    def hit(k, d=1):
        stats[k] = stats.get(k, 0) + d

    worlds = []

    def absorb(w, result):
        nonlocal a_cases, t_cases, m_cases
        ac, tc, mc, facts = result
        worlds.append(w)
        res.oracle_runs += 1
        while FAMILY_BAD:
            res.oracle_violations.append(FAMILY_BAD.pop())
        a_cases += ac
        t_cases += tc
        m_cases += mc
        # oracle: every generation of every contest; tally facts belong to the last generation
        by_con = {}
        for f in facts:
            by_con[f["spec"]["id"]] = f
        last = {}
        for c in ac:
            last[c["con"]] = c
        for c in ac:
            f = by_con.get(c["con"]) if last[c["con"]] is c else None
            res.oracle_runs += oracle_case(c, f, res.oracle_violations)
        for m in w["modes"]:
            hit(f"profile:{m}")
        hit("world:shared lists" if w["shared"] else "world:own lists")
        if w["twice"]:
            hit("world:assertions built twice")
        if w["via_all"]:
            hit("world:make_all_assertions")
        if w.get("setters_first"):
            hit("world:all setters before any evaluation, shuffled")
        if w.get("prelude"):
            hit("world:same objects first used on another CVR list")
        rp = w.get("repr", {})
        hit(f"marks:{w.get('marks')}")
        hit(f"repr:candidates {rp.get('cand')} / winner {rp.get('win')} / loser {rp.get('los')}")
        hit(f"repr:cards {rp.get('cards')}")
        hit(f"repr:n_winners {rp.get('nw')}")
        hit(f"repr:share {rp.get('share')}")
        hit("repr:positional calls" if rp.get("positional") else "repr:keyword calls")
        hit(f"cards:{'1' if len(w['cards']) == 1 else '2-8' if len(w['cards']) <= 8 else '9-24' if len(w['cards']) <= 24 else '25-40'}")

    # ---- random and boundary worlds; a quarter of them in pairs that are built completely and then evaluated
    #      alternately (half of the pairs on the very same CVR objects)
    k = 0
    impl_raised = [0]
    while k < n_worlds:
        w = gen_world(rng)
        w["setters_first"], w["prelude"] = rng.random() < 0.3, rng.random() < 0.25
        try:
            if rng.random() < 0.25:
                share = rng.random() < 0.5
                w2 = variant_world(rng, w) if share else gen_world(rng)
                r1, r2 = run_pair(w, w2, rng, share)
                absorb(w, r1)
                absorb(w2, r2)
                hit("pair:evaluated alternately" + (", shared CVR objects" if share else ""))
                k += 2
            else:
                absorb(w, run_world(w, rng))
                k += 1
        except (TypeError, ValueError, KeyError, IndexError, AttributeError, ZeroDivisionError) as e:
            # the library raised while building or evaluating assertions on a world the model accepts (on the unchanged
            # tree this never happens): a broken correspondence, recorded once per exception text; the search goes on
            # with the remaining worlds so that a concrete failing input can still be found
            import traceback
            tb = traceback.extract_tb(e.__traceback__)
            if not tb or not tb[-1].filename.startswith(C.REPO):
                raise
            impl_raised[0] += 1
            if impl_raised[0] > 200:
                raise
            what = f"implementation raised {type(e).__name__}: {e} at {os.path.basename(tb[-1].filename)}:{tb[-1].name} on a world the model accepts"
            if not any(pb["what"] == what for pb in res.proof_breaks):
                res.proof_breaks.append({"what": what, "output": "".join(traceback.format_exception(e))[-1500:],
                                         "world": {k_: C.jsonable(v_) for k_, v_ in w.items() if k_ in ("via_all", "twice", "shared", "repr", "modes", "marks")}})
            hit("world:implementation raised")
            k += 1
    # ---- awkward shares on short lists (to Coq as well), long lists and tiny margins (oracle only: the exact
    #      Fraction oracle does not depend on the length)
    def sized(w, to_coq, tag):
        nonlocal a_cases, t_cases, m_cases
        if len(w["cards"]) <= 3000:
            w["setters_first"], w["prelude"] = rng.random() < 0.3, rng.random() < 0.25
        ac, tc, mc, facts = run_world(w, rng)
        for c, f in zip(ac, facts):
            res.oracle_runs += oracle_case(c, f, res.oracle_violations)
        hit(f"sized:{tag}")
        if to_coq:
            worlds.append(w)
            a_cases += ac
            t_cases += tc
            m_cases += mc
        else:
            res.evaluations += sum(len(c["cards"]) for c in ac)     # implementation evaluations, not Coq cases
    for _ in range(ctx.n(40, 600)):                # non-round shares close to the achieved share
        v = rng.choice([3, 5, 5, 7, 9, 10, 11, 20, 25, 33, 40])
        sized(gen_sized_world(rng, v, "SUPERMAJORITY"), True, "short list, float share next to the achieved share")
    for _ in range(ctx.n(8, 80)):                  # beyond any plausible block size, split changing along the list
        n = awkward_n(rng, 1000, 2500)
        scf = rng.choice(["PLURALITY", "PLURALITY", "APPROVAL", "SUPERMAJORITY"])
        sized(gen_sized_world(rng, n, scf, tail=rng.randint(200, 600)), False, "1000-2500 cards, last cards favour the loser")
    for lo, hi, scf, lead in ((100000, 150000, "PLURALITY", rng.choice([1, -1])), (20000, 60000, "PLURALITY", rng.choice([1, 2, 0, -2])),
                              (20000, 40000, "SUPERMAJORITY", None))[: ctx.n(3, 3)] * ctx.n(1, 3):
        n = awkward_n(rng, lo, hi)
        sized(gen_sized_world(rng, n, scf, lead=lead, tail=rng.randint(300, 3000)), False,
              "20 000-150 000 cards, one- or two-vote margins")
    # ---- exhaustive small profiles (oracle on all; correspondence on all in thorough, a rotating part in quick)
    ea, et, em, efacts = run_exhaustive(rng)
    for c, f in zip(ea, efacts):
        res.oracle_runs += oracle_case(c, f, res.oracle_violations)
    res.exhaustive = True
    hit("exhaustive: assorter cases (<=4 cards x 3 candidates, all multisets, 6 contests each)", len(ea))
    if ctx.quick:
        keep = [i for i in range(len(ea)) if (i + ctx.seed) % 4 == 0]
    else:
        keep = list(range(len(ea)))
    a_cases += [ea[i] for i in keep]
    t_cases += [et[i] for i in keep]
    keepset = set(keep)
    # m cases of the exhaustive stream are in the same order as the a cases (one per assertion)
    pos = 0
    for i, c in enumerate(ea):
        k = len(c["obs"])
        if i in keepset:
            m_cases += em[pos:pos + k]
        pos += k
    r_cases = reader_cases(rng, worlds, ctx.n(600, 10000))

    for c in a_cases:
        for o in c["obs"]:
            hit(f"assorter:{o['kind'][0]}")
            if o["exc"]:
                hit("assorter raised")
        if any(any(bool(m) for m in v.get(c["con"], {}).values()) for v in (k["votes"] for k in c["cards"])):
            res.nontrivial.add(digest(c))
    for m in m_cases:
        hit(f"margin:{m['scf']}:{m['res'][0] if m['res'][0] == 'val' else m['res'][1]}")

    runs = [("a", "a_case", a_cases, a_lit, "agree_a", "show_a", 40,
             "Assorter.assort / upper_bound / mean(use_style) / set_margin_from_cvrs of library-built assorters vs Assorter.v"),
            ("t", "t_case", t_cases, t_lit, "agree_t", "show_t", 60, "Contest.tally / CVR.tabulate_votes vs Ballot.v"),
            ("m", "m_case", m_cases, m_lit, "agree_m", "show_m", 250,
             "Assertion.find_margin_from_tally / Contest.find_margins_from_tally vs Assorter.v"),
            ("r", "r_case", r_cases, r_lit, "agree_r", "show_r", 250,
             "CVR.get_vote_for / as_vote / has_contest / has_one_vote vs Ballot.v")]
    for name, typ, cases, lit, agree, show, shard, what in runs:
        shard = max(shard, -(-len(cases) // (4 * C.NCPU)))
        cr = C.run_corr(ctx.pid, name, IMPORTS, typ, cases, lit, agree, shard=shard, show=show)
        res.corr.append((what, cr, jcase))
        res.evaluations += len(cases)
    res.rule = ("worlds of 1-3 contests (plurality k=1..3 / approval / super-majority with shares 1/4..9/10) over 1-40 cards: "
                "profiles by weights, by counts, ties, exact thresholds, unanimous, blank; every truthy/falsy mark encoding, "
                "explicit falsy entries, blank ballots, ballots lacking the contest, write-ins, overvotes, falsy candidate names; "
                "reported winners true or arbitrary; assertions built directly / via make_all_assertions / twice / by contests "
                "sharing list objects; short lists with non-round float shares next to the achieved share; oracle-only long lists "
                "(1000-2500 cards of awkward length with the split changing along the list; 20 000-150 000 cards with one- or "
                "two-vote leads / minimal super-majorities); plus all multisets of <= 4 cards x 3 candidates; non-trivial = some card carries a truthy "
                "mark in the contest, distinct by (contest, winners, share, cards)")
    res.samples = [jcase({"con": c["con"], "spec": c["spec"], "cards": c["cards"][:6],
                          "obs": [{k: v for k, v in o.items() if k != "vals"} for o in c["obs"][:2]]}) for c in a_cases[:3]]
    stats["oracle: super-majority margin identity on a contest with no valid vote"] = stats_novalid[0]
    res.stats = stats
    res.assumptions = ["Python dict keys are distinct (theorems: wf_card); candidate names map to integers, the empty name to 0",
                       "margin clause guards: no card dropped by the rule check (plurality), tally and assorter agree on which ballots "
                       "are valid (super-majority; a contest with no valid vote at all is included: margin 0)",
                       "super-majority assorter values 1/(2f) are doubles: compared with tolerance, the > 1/2 category exactly away from 1/2"]
