"""C06 — data handed to a test lie in [0, u] with the u returned and installed; style / threshold filter."""
from . import common as C, compare as K

ANCHORS = K.ANCHORS


def run(ctx, res):
    from . import genarith
    genarith.regenerate(ctx.pid, "audit", res)   # regenerated tie: overstatement assorter, u bound, tally margins (DESIGN 2.1)
    genarith.regenerate(ctx.pid, "audit_skeletons", res)   # whole-function skeletons: overstatement, overstatement_assorter(_mean/_margin), Assorter.mean, set_margin_from_cvrs
    nw = ctx.n(320, 4000)
    pool, cmp_, spv, viol, runs, stats, facts = K.run_worlds(ctx, nw)
    bviol, bruns, bstats = K.run_big(ctx, ctx.n(4, 40))      # large / awkward worlds: oracles only
    viol, runs = viol + bviol, runs + bruns
    stats.update(bstats)
    aviol, aruns, astats = K.run_alternating(ctx, ctx.n(60, 600))   # two worlds at a time: all setters, then all oracles
    viol, runs = viol + aviol, runs + aruns
    stats.update(astats)
    K.correspondences(ctx, res, [], cmp_, spv)
    res.oracle_runs += runs
    for v in viol:
        if v.get("prop") == "C06":
            res.oracle_violations.append(v)
    K.report(ctx, res, [], cmp_, spv, stats, facts)
    res.assumptions = [
        "the assorter is a black box A with 0 <= A <= u_a and 1/2 <= u_a; pool means in [0, u_a] (lemma: means computed by "
        "set_tally_pool_means from such an A are)",
        "mvr_sample and cvr_sample have equal length (asserted by set_p_values); margin / upper bound are finite numbers "
        "with margin != 2 u_a (python-float division by zero is not modelled)",
        "set_p_values is modelled up to the call of test.test(d): what the test does with (u, d) is C01/C09/C11",
    ]
