"""Generators, implementation runner and Coq literal writer for shangrla/core/NonnegMean.py.
Shared by C01, C05, C11, C12, C13, C16."""
import math
import warnings
from fractions import Fraction as F

import numpy as np

from . import common as C

IMPORTS = "From SV Require Import Run_NNM.\nOpen Scope Q_scope."
ANCHORS = [("shangrla/core/NonnegMean.py",
            ["welford_mean_var", "NonnegMean.__init__", "NonnegMean.alpha_mart", "NonnegMean.sjm",
             "NonnegMean.betting_mart", "NonnegMean.fixed_alternative_mean", "NonnegMean.shrink_trunc",
             "NonnegMean.optimal_comparison", "NonnegMean.fixed_bet", "NonnegMean.agrapa",
             "NonnegMean.lam_to_eta", "NonnegMean.eta_to_lam", "NonnegMean.kaplan_kolmogorov",
             "NonnegMean.kaplan_markov", "NonnegMean.kaplan_wald", "NonnegMean.wald_sprt",
             "NonnegMean.sample_size"])]

EPS = F(1, 2 ** 52)
KINDS = ["alpha_fixed", "alpha_shrink", "alpha_optcomp", "bet_fixed", "bet_agrapa", "kk", "km", "kw", "sprt"]


def NM():
    from shangrla.core.NonnegMean import NonnegMean
    return NonnegMean


# ---------------------------------------------------------------- generation
def gen_cfg(rng, kind=None, finite=None):
    kind = kind or rng.choice(KINDS)
    u = rng.choice([F(1), F(1), F(1), F(2), F(3, 2), F(65, 64), F(1025, 1024), F(9, 8), F(1, 2), F(5, 4)])
    if kind == "alpha_optcomp" and u == 1:
        u = rng.choice([F(65, 64), F(1025, 1024), F(9, 8), F(33, 32), F(1048577, 1048576)])
    den = 16
    t = F(rng.randint(1, int(u * den) - 1), den)
    if rng.random() < 0.4:
        t = u / 2
    if finite is None:
        finite = rng.random() < 0.7
    if kind == "kk":
        finite = True
    if kind in ("km", "kw"):
        finite = False
    N = rng.randint(1, 16) if finite else None
    ro = True
    p = {}
    if kind == "alpha_fixed" or kind == "sprt":
        p["eta"] = t + (u - t) * F(rng.randint(1, 8), 8)
    elif kind == "alpha_shrink":
        p["eta"] = t + (u - t) * F(rng.randint(1, 8), 8)
        p["c"] = rng.choice([F(1, 2), F(1, 4), F(1), F(1, 16)])
        p["d"] = rng.choice([F(100), F(10), F(1), F(1, 2), F(3)])
        p["f"] = rng.choice([F(0), F(0), F(1, 2), F(2), F(1, 8)])
        p["minsd"] = rng.choice([F(1, 2 ** 20), F(1, 8), F(1, 1024)])
    elif kind == "alpha_optcomp":
        p["rate_error_2"] = rng.choice([C.frac(1e-4), F(1, 64), F(0), F(1, 4), F(1, 1024), F(1, 8)])
    elif kind == "bet_fixed":
        k = rng.randint(0, 16)
        p["lam"] = F(math.floor(F(k, 16) / u * 64), 64)   # <= 1/u, on a grid
    elif kind == "bet_agrapa":
        p["lam"] = F(rng.randint(0, 32), 16)
        c0, cm = rng.choice([(F(1, 2), F(3, 4)), (F(7, 8), F(7, 8)), (1 - EPS, 1 - EPS), (F(1, 4), F(15, 16))])
        p["c_grapa_0"], p["c_grapa_max"] = c0, cm
        p["c_grapa_grow"] = rng.choice([F(0), F(0), F(1), F(1, 2)])
    elif kind in ("kk", "km", "kw"):
        p["g"] = rng.choice([F(0), F(1, 8), F(1, 2), F(1, 64)])
        ro = rng.random() < 0.6
    if kind == "sprt":
        ro = True if finite else (rng.random() < 0.6)
    return {"kind": kind, "N": N, "t": t, "u": u, "ro": ro, "p": p}


def gen_xs(rng, cfg, n=None, maxlen=12):
    u, t, N = cfg["u"], cfg["t"], cfg["N"]
    top = min(N, maxlen) if N else maxlen
    if n is None:
        n = rng.randint(1, top) if rng.random() < 0.8 else (top if rng.random() < 0.5 else 1)
    n = min(n, top)
    den = 8
    umax = int(u * den)
    style = rng.choice(["unif", "unif", "high", "low", "zeros", "us", "ts", "zeros_then_u", "u_then_zeros", "two", "half"])
    if style == "unif":
        xs = [F(rng.randint(0, umax), den) for _ in range(n)]
    elif style == "high":
        xs = [F(rng.randint(max(0, umax - 2), umax), den) if rng.random() < 0.8 else F(rng.randint(0, umax), den) for _ in range(n)]
    elif style == "low":
        xs = [F(rng.randint(0, 2), den) if rng.random() < 0.8 else F(rng.randint(0, umax), den) for _ in range(n)]
    elif style == "zeros":
        xs = [F(0)] * n
    elif style == "us":
        xs = [u] * n
    elif style == "ts":
        xs = [t if rng.random() < 0.8 else F(rng.randint(0, umax), den) for _ in range(n)]
    elif style == "zeros_then_u":
        k = rng.randint(0, n)
        xs = [F(0)] * k + [u] * (n - k)
    elif style == "u_then_zeros":
        k = rng.randint(0, n)
        xs = [u] * k + [F(0)] * (n - k)
    elif style == "two":
        a, b = F(rng.randint(0, umax), den), F(rng.randint(0, umax), den)
        xs = [rng.choice([a, b]) for _ in range(n)]
    else:
        xs = [rng.choice([F(0), u / 2, u]) for _ in range(n)]
    return xs


# ---------------------------------------------------------------- implementation side
def build(cfg, variant=0):
    """variant picks how the same configuration is written down by the caller: keyword arguments or the documented
    positional order (test, estim, bet, u, N, t, random_order); Python floats or numpy scalars"""
    NonnegMean = NM()
    k = cfg["kind"]
    N = cfg["N"] if cfg["N"] is not None else np.inf
    num = (lambda v: np.float64(float(v))) if variant % 5 == 3 else (lambda v: float(v))
    kw = {kk: num(v) for kk, v in cfg["p"].items() if kk not in cfg.get("defaults", ())}   # omitted: the library's default applies
    u = int(cfg["u"]) if cfg.get("int_u") else num(cfg["u"])
    parts = {"alpha_fixed": ("alpha_mart", "fixed_alternative_mean", None), "alpha_shrink": ("alpha_mart", "shrink_trunc", None),
             "alpha_optcomp": ("alpha_mart", "optimal_comparison", None), "bet_fixed": ("betting_mart", None, "fixed_bet"),
             "bet_agrapa": ("betting_mart", None, "agrapa"), "kk": ("kaplan_kolmogorov", None, None),
             "km": ("kaplan_markov", None, None), "kw": ("kaplan_wald", None, None), "sprt": ("wald_sprt", None, None)}
    if k not in parts:
        raise ValueError(k)
    tn, en, bn = parts[k]
    test = getattr(NonnegMean, tn)
    if k == "sprt" and cfg.get("explicit_estim"):
        en = "fixed_alternative_mean"       # a caller may name the estimator explicitly; then no eta is set at construction
    if k == "sprt" and not cfg.get("explicit_estim") and "eta" not in cfg.get("defaults", ()) and variant % 4 == 2:
        # the SPRT is documented to use the fixed alternative whatever estimator the instance carries: an instance
        # configured with another one (and that estimator's tuning constants) must give the same answers (only when
        # the caller names eta: which default applies to an omitted eta does depend on whether an estimator is named)
        en = "shrink_trunc"
        kw.setdefault("c", 0.5)
        kw.setdefault("d", 10)
    estim = getattr(NonnegMean, en) if en else None
    bet = getattr(NonnegMean, bn) if bn else None
    if variant % 3 == 1:     # positional, in the documented order
        return NonnegMean(test, estim, bet, u, N, num(cfg["t"]), cfg["ro"], **kw)
    extra = {}
    if estim is not None:
        extra["estim"] = estim
    if bet is not None:
        extra["bet"] = bet
    if tn == "alpha_mart" and variant % 11 == 7:
        return NonnegMean(u=u, N=N, t=num(cfg["t"]), random_order=cfg["ro"], **extra, **kw)     # the default test is ALPHA
    return NonnegMean(test=test, u=u, N=N, t=num(cfg["t"]), random_order=cfg["ro"], **extra, **kw)


def used_instance(cfg0, xs0):
    """an instance built for cfg0 and run once on xs0 (None if the library refuses either)"""
    try:
        with warnings.catch_warnings():
            warnings.simplefilter("ignore")
            obj = build(cfg0)
            obj.test(np.array([float(v) for v in xs0]))
        return obj
    except Exception:  # noqa
        return None


def retarget(obj, cfg):
    """Re-parametrise an existing instance in place, the way Audit.py does with `asn.test.u = u`."""
    obj.u = float(cfg["u"])
    obj.N = cfg["N"] if cfg["N"] is not None else np.inf
    obj.t = float(cfg["t"])
    obj.random_order = cfg["ro"]
    for kk, v in cfg["p"].items():
        if kk not in cfg.get("defaults", ()):       # a parameter the caller never sets stays whatever the instance holds
            setattr(obj, kk, float(v))


_BUFFERS = {}


def as_input(cfg, xs, variant=0):
    """The sample as the caller might hold it: float ndarray (default; every other time the SAME buffer object of that
    length, refilled in place, as a caller streaming batches would), and — when every value is an integer — an int64 /
    int8 / bool ndarray, a list or a tuple of Python ints (0/1 votes are naturally integers or booleans).
    Kaplan-Markov/Wald need an ndarray."""
    allint = all(F(v).denominator == 1 for v in xs)
    zero_one = allint and all(v in (0, 1) for v in xs)
    seq_ok = cfg["kind"] not in ("km", "kw")
    v = variant % 7
    if allint and v == 1:
        return np.array([int(v_) for v_ in xs], dtype=np.int64)
    if allint and v == 2 and seq_ok:
        return [int(v_) for v_ in xs]
    if zero_one and v == 3 and cfg["kind"] not in ("alpha_shrink", "bet_agrapa"):
        # (welford_mean_var subtracts consecutive entries: numpy itself refuses `bool - bool` with a TypeError, so a
        #  boolean array is not an input the shrink/aGRAPA rules accept; the refusal is clean and is not counted)
        return np.array([bool(v_) for v_ in xs], dtype=bool)
    if allint and v == 4 and all(abs(v_) < 100 for v_ in xs):
        return np.array([int(v_) for v_ in xs], dtype=np.int8)
    if allint and v == 5 and seq_ok:
        return tuple(int(v_) for v_ in xs)
    if variant % 2 == 0:
        buf = _BUFFERS.get(len(xs))
        if buf is None:
            buf = _BUFFERS[len(xs)] = np.zeros(len(xs))
        buf[:] = [float(v_) for v_ in xs]
        return buf
    return np.array([float(v_) for v_ in xs])


def run_impl(cfg, xs, obj=None, variant=0):
    """Returns dict(p, hist, aux, exc, mutated).  The test is called twice on the same container: a pure function gives the
    same answer and leaves its input alone."""
    x = as_input(cfg, xs, variant)
    x0 = list(x)
    out = {"p": float("nan"), "hist": [], "aux": [], "exc": None, "mutated": False, "container": type(x).__name__ +
           (":" + str(getattr(x, "dtype", "")) if hasattr(x, "dtype") else "")}
    try:
        with warnings.catch_warnings():
            warnings.simplefilter("ignore")
            tst = obj if obj is not None else build(cfg, variant)
            p1, hist1 = tst.test(x)
            p, hist = tst.test(x)
            same = (nanclose(float(p1), float(p)) and len(np.atleast_1d(hist1)) == len(np.atleast_1d(hist))
                    and all(nanclose(float(a), float(b)) for a, b in zip(np.atleast_1d(hist1), np.atleast_1d(hist))))
            if list(x) != x0 or not same:
                out["mutated"] = True
            out["p"] = float(p)
            out["hist"] = [float(h) for h in np.atleast_1d(hist)]
            if cfg["kind"].startswith("alpha"):
                a = tst.estim(x)
                out["aux"] = [float(v) for v in (np.ones(len(x)) * a)]
            elif cfg["kind"].startswith("bet"):
                a = tst.bet(x)
                out["aux"] = [float(v) for v in (np.ones(len(x)) * a)]
                with np.errstate(all="ignore"):
                    out["m_impl"] = [float(v) for v in (np.ones(len(x)) * tst.sjm(tst.N, tst.t, np.array(x))[3])]
            if list(x) != x0:
                out["mutated"] = True
    except Exception as e:  # noqa
        out["exc"] = f"{type(e).__name__}: {e}"
    return out


def nanclose(a, b):
    return (a == b) or (math.isnan(a) and math.isnan(b)) or abs(a - b) <= 1e-12 * max(abs(a), abs(b), 1e-300)


def purity_violation(case):
    """A test that modifies the caller's data, or answers differently when asked twice, makes every later evaluation
    (growing prefixes of one array during escalation) depend on earlier calls."""
    if case["impl"].get("mutated"):
        return ["the test modified its input array or gave a different answer on the second call with the same data"]
    return []


# ---------------------------------------------------------------- Coq literals
def cfg_lit(cfg):
    k, p = cfg["kind"], cfg["p"]
    q = C.qlit
    if k == "alpha_fixed":
        tk = f"TAlpha (EFixed {q(p['eta'])})"
    elif k == "alpha_shrink":
        tk = f"TAlpha (EShrink {q(p['eta'])} {q(p['c'])} {q(p['d'])} {q(p['f'])} {q(p['minsd'])})"
    elif k == "alpha_optcomp":
        tk = f"TAlpha (EOptComp {q(p['rate_error_2'])})"
    elif k == "bet_fixed":
        tk = f"TBetting (BFixed {q(p['lam'])})"
    elif k == "bet_agrapa":
        tk = f"TBetting (BAgrapa {q(p['lam'])} {q(p['c_grapa_0'])} {q(p['c_grapa_max'])} {q(p['c_grapa_grow'])})"
    elif k == "kk":
        tk = f"TKK {q(p['g'])}"
    elif k == "km":
        tk = f"TKM {q(p['g'])}"
    elif k == "kw":
        tk = f"TKW {q(p['g'])}"
    else:
        tk = f"TSprt {q(p['eta'])}"
    return f"(mkcfg {C.optlit(cfg['N'], C.zlit)} {q(cfg['t'])} {q(cfg['u'])} {C.blit(cfg['ro'])} ({tk}))"


def case_lit(case):
    cfg, xs, o = case["cfg"], case["xs"], case["impl"]
    return (f"mkcase {cfg_lit(cfg)} {C.listlit([C.qlit(x) for x in xs])} {C.xlit(o['p'])} "
            f"{C.listlit([C.xlit(h) for h in o['hist']])} {C.listlit([C.xlit(a) for a in o['aux']])}")


def case_json(case):
    return {"cfg": C.jsonable(case["cfg"]), "xs": C.jsonable(case["xs"]), "impl": C.jsonable(case["impl"]),
            "tag": case.get("tag")}


def corpus_cases():
    """Minimised inputs of defects found earlier (DESIGN section 7); they run first on every invocation."""
    H = F(1, 2)
    raw = [
        ("sprt", 6, H, F(1), True, {"eta": F(3, 4)}, [F(0)] * 6),                       # negative / -0 history
        ("sprt", None, H, F(1), True, {"eta": F(3, 4)}, [F(0)] * 3),                    # p = 2.0
        ("sprt", None, H, F(1), True, {"eta": F(3, 4)}, [F(1), F(1), F(1), F(0), F(1)]),  # product taken twice
        ("sprt", 4, H, F(1), True, {"eta": F(3, 4)}, [F(0)] * 4),                       # NaN
        ("kk", 4, H, F(1), True, {"g": F(0)}, [F(1), F(1), F(0), F(0)]),               # 0/0 at m = 0
        ("kk", 4, H, F(1), True, {"g": F(0)}, [F(0), F(1), F(1), F(1)]),
        ("alpha_fixed", 10, H, F(1), True, {"eta": F(61, 64)}, [F(0), F(0), F(1), F(1), F(1)]),   # alternative leaves [0,u]
        ("alpha_optcomp", 3, H, F(17, 16), True, {"rate_error_2": F(1, 64)}, [F(7, 16), F(0), F(0)]),  # eta below mu
        ("alpha_optcomp", 10, H, F(5, 4), True, {"rate_error_2": F(1, 4)}, [H, F(0), H, F(0), F(0)]),
        ("alpha_shrink", 5, H, F(1), True, {"eta": F(3, 4), "c": H, "d": F(100), "f": F(0), "minsd": F(1, 2 ** 20)}, [H]),  # length 1
        ("bet_agrapa", 8, H, F(1), True, {"lam": H, "c_grapa_0": F(7, 8), "c_grapa_max": F(7, 8), "c_grapa_grow": F(0)}, [H, H, F(1), F(1)]),  # 0/0 bet
        ("bet_agrapa", None, H, F(1), True, {"lam": F(3), "c_grapa_0": H, "c_grapa_max": F(3, 4), "c_grapa_grow": F(0)}, [F(0), F(1)]),  # initial bet above the cap
        ("alpha_fixed", 5, F(1, 5), F(1), True, {"eta": H}, [F(1), F(0), F(1), F(0)]),   # m = 0, zero draw, positive draw
    ]
    out = []
    for kind, N, t, u, ro, p, xs in raw:
        out.append(({"kind": kind, "N": N, "t": t, "u": u, "ro": ro, "p": p}, xs))
    return out


def documented_default(cfg, key):
    """the value NonnegMean uses when the caller does not pass `key` (constructor / getattr defaults in NonnegMean.py)"""
    k, u, t = cfg["kind"], cfg["u"], cfg["t"]
    if key == "eta":
        # estim=None: the constructor sets eta = t + (u-t)/2; with an explicit estimator the default is taken at call time
        return t + (u - t) / 2 if (k == "sprt" and not cfg.get("explicit_estim")) else u * (1 - EPS)
    table = {"c": F(1, 2), "d": F(100), "f": F(0), "minsd": C.frac(10 ** -6), "rate_error_2": C.frac(0.0001),
             "lam": F(1, 2), "c_grapa_0": 1 - EPS, "c_grapa_max": 1 - EPS, "c_grapa_grow": F(0), "g": F(0)}
    return table[key]


def drop_to_defaults(rng, cfg):
    """Leave a random non-empty subset of the optional parameters to the library's documented defaults: the case's
    configuration carries the default VALUES (so model and oracles use them) and `defaults` names the keys the caller
    does not pass."""
    keys = [k for k in cfg["p"] if not (cfg["kind"] == "bet_fixed" and k == "lam")]
    if not keys:
        return cfg
    drop = rng.sample(keys, rng.randint(1, len(keys)))
    cfg = dict(cfg, p=dict(cfg["p"]), defaults=sorted(drop))
    for k in drop:
        cfg["p"][k] = documented_default(cfg, k)
    return cfg


def earlier_cfg(rng, cfg):
    """The configuration an instance was built and used with before being re-parametrised in place to `cfg`: a random
    one of the same kind, or (60%) one that differs from `cfg` in a FEW parameters only (often a single one: only t,
    only N, only eta ...), the way a caller re-tunes an instance between two uses."""
    other = gen_cfg(rng, kind=cfg["kind"])
    if rng.random() < 0.4:
        return other
    cfg0 = dict(cfg, p=dict(cfg["p"]))
    keys = ["u", "N", "t"] + list(cfg["p"])
    for key in rng.sample(keys, min(len(keys), rng.choice([1, 1, 1, 2, 3]))):
        if key in ("u", "N", "t"):
            cfg0[key] = other[key]
        elif key in other["p"]:
            cfg0["p"][key] = other["p"][key]
    if cfg0["kind"] == "sprt" and cfg0["N"] is not None:
        cfg0["ro"] = True
    return cfg0


def corr_cases(rng, n, kinds=None, reuse_frac=0.15, maxlen=12):
    """Generate n cases and run the implementation on them.  A fraction re-uses one instance that was
    built and run with another configuration first, then re-parametrised in place."""
    cases = [{"cfg": cfg, "xs": xs, "impl": run_impl(cfg, xs), "tag": "corpus"}
             for cfg, xs in corpus_cases() if not kinds or cfg["kind"] in kinds]
    for _ in range(n):
        cfg = gen_cfg(rng, kind=rng.choice(kinds) if kinds else None)
        xs = gen_xs(rng, cfg, maxlen=maxlen)
        obj, tag = None, "fresh"
        if rng.random() < 0.2:
            cfg = drop_to_defaults(rng, cfg)
            tag = "fresh, some parameters left to the library's defaults"
        elif rng.random() < reuse_frac:
            cfg0 = earlier_cfg(rng, cfg)
            if "eta" in cfg["p"] and cfg["kind"] in ("sprt", "alpha_fixed", "alpha_shrink") and rng.random() < 0.35:
                # the caller never names eta, neither when building the instance nor when re-tuning it: the default in
                # force is the one for the parameters of the call (explicit estimator: taken at call time)
                extra = {"explicit_estim": True} if cfg["kind"] == "sprt" else {}
                if rng.random() < 0.7:      # only the bound (and what must follow it) differs between the two uses
                    u0 = rng.choice([v for v in (F(1, 2), F(1), F(9, 8), F(5, 4), F(3, 2), F(2)) if v != cfg["u"]])
                    cfg0 = dict(cfg, p=dict(cfg["p"]), u=u0, t=(cfg["t"] if cfg["t"] < u0 else u0 / 2))
                cfg0 = dict(cfg0, p=dict(cfg0["p"]), defaults=["eta"], **extra)
                cfg = dict(cfg, p=dict(cfg["p"]), defaults=["eta"], **extra)
                cfg0["p"]["eta"] = documented_default(cfg0, "eta")
                cfg["p"]["eta"] = documented_default(cfg, "eta")
            xs0 = gen_xs(rng, cfg0, maxlen=maxlen)
            obj = used_instance(cfg0, xs0)
            if obj is not None:
                # parameters of cfg0 that cfg does not mention keep their old value in the instance: mirror that
                retarget(obj, cfg)
                tag = "reused"
        cases.append({"cfg": cfg, "xs": xs, "impl": run_impl(cfg, xs, obj, variant=rng.randint(0, 209)), "tag": tag})
        if tag == "reused":
            cases[-1]["earlier"] = (cfg0, xs0)      # how the instance was used before (for the targeted searches)
    return cases


def ill_conditioned(case):
    """ALPHA with an alternative within 2^-20 (relative) of the bound, followed by an observation below the bound: the
    factor (u - x)(u - eta)/(u - m)/u is then formed from u - eta, a difference of two nearly equal doubles, and the
    double result differs from the exact rational one by far more than the comparison tolerance (seen once in a
    thorough run: eta = u(1 - 2e-9), relative difference 4e-9 in the next history entry).  Such cases are still run and
    judged by every oracle, but not compared with the exact model."""
    cfg, o = case["cfg"], case["impl"]
    if cfg["kind"] != "alpha_shrink" or o["exc"] or not o["aux"]:
        return False         # (a fixed or capped alternative is a representable number: u - eta is then exact)
    u = float(cfg["u"])
    cap = u * (1 - 2.0 ** -52)
    return any(0 < u - e < u * 2.0 ** -20 and e != cap and float(x) < u for e, x in zip(o["aux"], case["xs"]))


def run_corr(pid, rng, n, kinds=None, name="nnm", maxlen=12):
    cases = corr_cases(rng, n, kinds=kinds, maxlen=maxlen)
    for c in cases:
        if ill_conditioned(c):
            c["tag"] = (c.get("tag") or "") + " (ill-conditioned: oracle only)"
    res = C.run_corr(pid, name, IMPORTS, "nnm_case", [c for c in cases if not ill_conditioned(c)], case_lit, "agree_nnm",
                     shard=150, show="show_nnm")
    return cases, res


def branch_stats(cases):
    st = {}
    for c in cases:
        k = c["cfg"]["kind"] + ("/finite" if c["cfg"]["N"] else "/iid")
        st[k] = st.get(k, 0) + 1
        h = c["impl"]["hist"]
        if any(v == 0.0 for v in h):
            st["hist has 0 (total exceeds N t)"] = st.get("hist has 0 (total exceeds N t)", 0) + 1
        if c["impl"]["exc"]:
            st["impl raised"] = st.get("impl raised", 0) + 1
        if c.get("tag") == "reused":
            st["instance re-parametrised in place"] = st.get("instance re-parametrised in place", 0) + 1
        if len(c["xs"]) == 1:
            st["length 1"] = st.get("length 1", 0) + 1
    return st


# ---------------------------------------------------------------- exact re-statement of the published definitions
def mu_exact(cfg, xs):
    N, t = cfg["N"], cfg["t"]
    out, S = [], F(0)
    for j, x in enumerate(xs, start=1):
        out.append((N * t - S) / (N - j + 1) if N is not None else t)
        S += x
    return out


def close(a, b, rel=1e-9, ab=1e-12):
    if math.isnan(a) or math.isnan(b):
        return math.isnan(a) and math.isnan(b)
    if math.isinf(a) or math.isinf(b):
        return a == b
    return abs(a - b) <= ab + rel * max(abs(a), abs(b))


def small_exhaustive(maxlen=4, kinds=None):
    """All samples over {0, u/2, u} of length 1..maxlen, for every kind of test, N in {n, n+2, infinite},
    t = u/2 (so observations equal to t, totals equal to N t and m_j hitting 0 / u all occur)."""
    import itertools
    out = []
    u = F(1)
    for kind in (kinds or KINDS):
        for n in range(1, maxlen + 1):
            for xs in itertools.product([F(0), u / 2, u], repeat=n):
                for N in ([n, n + 2] + ([None] if kind not in ("kk",) else [])):
                    if kind in ("km", "kw") and N is not None:
                        continue
                    p = {}
                    if kind in ("alpha_fixed", "sprt"):
                        p["eta"] = F(3, 4)
                    elif kind == "alpha_shrink":
                        p = {"eta": F(3, 4), "c": F(1, 2), "d": F(10), "f": F(1, 2), "minsd": F(1, 8)}
                    elif kind == "alpha_optcomp":
                        continue    # needs u != 1; covered by the random stream
                    elif kind == "bet_fixed":
                        p["lam"] = F(3, 4)
                    elif kind == "bet_agrapa":
                        p = {"lam": F(1, 2), "c_grapa_0": F(1, 2), "c_grapa_max": F(3, 4), "c_grapa_grow": F(1)}
                    else:
                        p["g"] = F(0) if (n + len(out)) % 3 else F(1, 8)
                    out.append(({"kind": kind, "N": N, "t": u / 2, "u": u, "ro": (len(out) % 4 != 0) or (kind == "sprt" and N is not None), "p": p},
                                list(xs)))
    return out


# ---------------------------------------------------------------- non-dyadic stream (oracles only, no model comparison)
def gen_nondyadic(rng):
    """Values that are NOT exactly representable sums (0.1, 0.6, 0.7, 1/3, 1/(2-v)): rounding now matters, so these
    cases are not compared with the exact model; only oracles that are insensitive to rounding are applied to them."""
    kind = rng.choice(KINDS)
    cfg = gen_cfg(rng, kind=kind)
    u = cfg["u"]
    pool = [F(1, 10), F(3, 10), F(6, 10), F(7, 10), F(1, 3), F(2, 3), F(55, 100), F(10, 19), F(0), F(1), F(1, 2)]
    vals = [C.frac(float(v)) * u for v in pool]
    vals = [v for v in vals if 0 <= v <= u]
    top = min(cfg["N"] or 40, 40)
    if cfg["N"]:
        cfg["N"] = max(cfg["N"], rng.randint(5, 40))
        top = cfg["N"]
    n = rng.randint(1, top)
    style = rng.choice(["const", "const", "two", "mix"])
    if style == "const":
        xs = [rng.choice(vals)] * n
    elif style == "two":
        a, b = rng.choice(vals), rng.choice(vals)
        xs = [rng.choice([a, b]) for _ in range(n)]
    else:
        xs = [rng.choice(vals) for _ in range(n)]
    if kind == "alpha_shrink":
        cfg["p"]["f"] = rng.choice([F(0), F(1, 2), F(2)])
    return cfg, xs


# ---------------------------------------------------------------- long samples / awkward magnitudes (oracles only)
LONG_LENGTHS = [65, 66, 70, 100, 127, 129, 150, 200, 257, 300, 500, 777, 1025, 1100, 1500, 2049, 2100, 2600, 3000]
LONG_WEIGHTS = [6, 4, 4, 6, 4, 4, 6, 4, 3, 3, 2, 2, 2, 1, 1, 2, 1, 1, 1]
SCALES = [1e-9, 4e-9, 2.0 ** -30, 1e-6, 1e-3, 1e3, 1e6, 2.0 ** 20]
LONG_STYLES = ["mix", "mix", "mix", "favourable", "int_u", "int_u", "overshoot", "overshoot", "scaled", "scaled",
               "mean_hits_u", "tiny_after_run"]


def _pool(u):
    base = [F(1, 10), F(3, 10), F(6, 10), F(7, 10), F(1, 3), F(2, 3), F(55, 100), F(0), F(1), F(1, 2), F(1, 4), F(3, 4)]
    return [v for v in (C.frac(float(b * u)) for b in base) if 0 <= v <= u]


def long_xs(rng, cfg, n, like=None):
    """n values in [0,u]: from the pool, or resampled from `like` (plus the extremes) so that magnitudes match"""
    u = cfg["u"]
    if like is not None:
        vals = sorted(set(like)) + [F(0), u]
    elif cfg.get("int_u"):
        vals = [F(i) for i in range(int(u) + 1)]
    else:
        vals = _pool(u)
    style = rng.choice(["mix", "mix", "two", "drift", "const"])
    if style == "const":
        return [rng.choice(vals)] * n
    if style == "two":
        a, b = rng.choice(vals), rng.choice(vals)
        return [rng.choice([a, b]) for _ in range(n)]
    if style == "drift":     # composition changes along the sample
        k = rng.randint(0, n)
        lo, hi = vals[:max(1, len(vals) // 2)], vals[len(vals) // 2:]
        return [rng.choice(hi) for _ in range(k)] + [rng.choice(lo) for _ in range(n - k)]
    return [rng.choice(vals) for _ in range(n)]


def scale_case(cfg, xs, s):
    """the same problem in other units: values, bounds and additive tuning constants times s, bets divided by s"""
    sc = lambda v: C.frac(float(v * C.frac(s)))
    cfg = dict(cfg, u=sc(cfg["u"]), t=sc(cfg["t"]), p=dict(cfg["p"]))
    for k in ("eta", "c", "minsd") + (() if cfg["kind"] == "kw" else ("g",)):     # Kaplan-Wald's g is a pure number
        if k in cfg["p"]:
            cfg["p"][k] = sc(cfg["p"][k])
    if "lam" in cfg["p"]:
        cfg["p"]["lam"] = C.frac(float(cfg["p"]["lam"] / C.frac(s)))
    xs = [min(sc(x), cfg["u"]) for x in xs]
    return cfg, xs


def gen_long(rng, kind=None, style=None):
    cfg, xs = _gen_long(rng, kind, style)
    if cfg["kind"] == "sprt" and cfg["N"] is not None:
        cfg["ro"] = True        # the SPRT refuses finite populations unless the order is random
    return cfg, xs


def _gen_long(rng, kind=None, style=None):
    """Samples of 65..3000 draws (lengths that are not multiples of typical block sizes), integer-typed bounds, totals that
    pass N t by a hair on the last draw, long favourable runs (floating-point overflow of the product) and problems
    expressed in very small / very large units.  Rounding matters here, so these cases are never compared with the exact
    model; only oracles that are insensitive to rounding are applied."""
    style = style or rng.choice(LONG_STYLES)
    kind = kind or rng.choice(KINDS)
    if style == "scaled" and kind == "alpha_optcomp":
        kind = "alpha_fixed"                # optimal_comparison is tied to the overstatement scale
    cfg = gen_cfg(rng, kind=kind)
    cfg["long"] = style
    n = rng.choices(LONG_LENGTHS, LONG_WEIGHTS)[0] + rng.choice([0, 0, 1, 3, 7])
    finite = cfg["N"] is not None
    if style == "mix":
        if finite:
            cfg["N"] = n + rng.choice([0, 1, rng.randint(0, 2 * n), 10 * n])
        return cfg, long_xs(rng, cfg, n)
    if style == "favourable":
        n = rng.choice([1100, 1800, 2100, 2600, 3000]) + rng.randint(0, 9)
        if kind in ("kk",):
            cfg["N"] = 10 ** 6
        elif finite:
            cfg["N"] = rng.choice([10 ** 6, 10 ** 5, 4 * n])
        u = cfg["u"]
        k = rng.randint(0, 80)
        head = long_xs(rng, cfg, k) if k else []
        body = [u if rng.random() < 0.985 else rng.choice(_pool(u)) for _ in range(n - k)]
        return cfg, head + body
    if style == "int_u":
        u = rng.choice([1, 2, 2, 3])
        cfg["u"], cfg["int_u"] = F(u), True
        cfg["t"] = rng.choice([F(u, 2), F(u, 2), F(u, 4), C.frac(0.55) * u])
        p = cfg["p"]
        if "eta" in p:
            p["eta"] = cfg["t"] + (u - cfg["t"]) * F(rng.randint(1, 7), 8)
        if kind == "alpha_optcomp":
            cfg["kind"], cfg["p"] = "alpha_fixed", {"eta": cfg["t"] + (u - cfg["t"]) * F(1, 2)}
        if kind == "bet_fixed":
            p["lam"] = F(rng.randint(0, 16), 16) / u
        n = min(n, 400)
        if finite:
            cfg["N"] = n + rng.choice([0, 5, n, 10 * n])
        return cfg, long_xs(rng, cfg, n)
    if style == "overshoot":
        # the LAST draw takes the sample total above N t by a hair
        for _ in range(60):
            N = rng.choice([rng.randint(10, 60), rng.randint(60, 400), rng.randint(1000, 20000)])
            cfg["N"] = N
            u, t = cfg["u"], cfg["t"]
            if rng.random() < 0.5:
                t = C.frac(float(rng.choice([F(55, 100), F(6, 10), F(1, 3), F(51, 100)]) * u))
                if not (0 < t < u):
                    continue
                cfg["t"] = t
                if "eta" in cfg["p"]:
                    cfg["p"]["eta"] = C.frac(float(t + (u - t) * F(rng.randint(1, 8), 8)))
            rel = rng.choice([1e-9, 1e-8, 1e-7, 4e-7, 9e-7, 3e-6, 1e-5])
            target = N * t * (1 + C.frac(rel))
            vals = _pool(u)
            mean = sum(vals) / len(vals)
            n = int(min(N, max(2, round(float(N * t / mean)) + rng.randint(-2, 2))))
            xs = [rng.choice(vals) for _ in range(n - 1)]
            need = target - sum(xs)
            if 0 <= need <= u:
                last = C.frac(float(need))
                if sum(xs) + last > N * t and sum(xs) <= N * t:
                    if kind in ("km", "kw"):
                        cfg["N"] = None
                    return cfg, xs + [last]
        cfg["long"] = "mix"
        return cfg, long_xs(rng, cfg, n)
    if style == "mean_hits_u":
        # a finite population whose null conditional mean becomes EXACTLY the (non-dyadic) bound after a few zeros and
        # stays there while draws equal to the bound follow (the "mean equals u" convention: p = 1 from there on)
        if kind in ("km", "kw", "kk", "alpha_optcomp"):      # (optimal_comparison is undefined at u = 1)
            cfg["kind"] = kind = rng.choice(["alpha_shrink", "alpha_fixed", "bet_agrapa", "bet_fixed", "sprt"])
            cfg = dict(gen_cfg(rng, kind=kind), long=style)
        u = C.frac(rng.choice([0.7, 0.55, 0.9, 1 / 3, 1.0, 1 / (2 - 0.3), 0.35]))
        N = rng.choice([60, 61, 100, 250, 1000])
        z = rng.randint(1, 5)
        t = C.frac(float(u * (N - z) / N))
        cfg.update(u=u, t=t, N=N, ro=True)
        p = cfg["p"]
        if "eta" in p:
            p["eta"] = C.frac(float(t + (u - t) * F(rng.randint(1, 8), 8)))
        if kind == "bet_fixed":
            p["lam"] = F(rng.randint(0, 16), 16)
        k = rng.randint(50, min(N - z, 400))
        return cfg, [F(0)] * z + [u] * k
    if style == "tiny_after_run":
        # a long favourable run, then an observation that is tiny but not zero (subnormal doubles included)
        kind = rng.choice(["km", "kw", "alpha_fixed", "bet_fixed", "kk"])
        cfg = dict(gen_cfg(rng, kind=kind), long=style)
        if "g" in cfg["p"]:
            cfg["p"]["g"] = F(0)
        if kind == "kk":
            cfg["N"] = 10 ** 6
        elif cfg["N"] is not None:
            cfg["N"] = 10 ** 5
        if kind in ("km", "kw", "kk"):
            cfg["t"] = C.frac(rng.choice([1e-3, 0.01, 0.25])) * cfg["u"]
        if kind == "bet_fixed" and rng.random() < 0.5:
            # the largest bet that keeps every factor non-negative when sampling with replacement: lambda = 1/t, for
            # which an observation of 0 makes the factor exactly zero
            cfg["N"] = None
            cfg["p"]["lam"] = 1 / cfg["t"]
        u = cfg["u"]
        n = rng.choice([130, 400, 1100])
        tiny = C.frac(rng.choice([5e-324, 1e-315, 1e-300, 1e-200]))
        tail = [tiny if rng.random() < 0.5 else F(0), u, tiny]
        return cfg, [u] * n + tail
    # scaled: an ordinary case expressed in other units
    cfg2, xs = (gen_nondyadic(rng) if rng.random() < 0.5 else (None, None))
    if cfg2 is None or cfg2["kind"] == "alpha_optcomp":
        cfg2 = gen_cfg(rng, kind=kind)
        top = cfg2["N"] or 40
        xs = gen_xs(rng, cfg2, maxlen=min(top, 40))
    s = rng.choice(SCALES)
    cfg2, xs = scale_case(cfg2, xs, s)
    cfg2["long"] = f"scaled by {s!r}"
    return cfg2, xs


def long_cases(rng, n, kinds=None):
    out = []
    for i in range(n):
        cfg, xs = gen_long(rng, kind=(kinds[i % len(kinds)] if kinds else None))
        out.append({"cfg": cfg, "xs": xs, "impl": run_impl(cfg, xs, variant=i), "tag": "long/awkward magnitude (oracle only): " + str(cfg["long"])})
    return out


def long_monotone_oracle(rng, n):
    """C10's last clause on the implementation at sample sizes no exhaustive stream reaches: a round that only APPENDS
    observations (k1 -> k2 draws of one long sample, k1 and k2 on either side of plausible block sizes: 64, 1024, 2048)
    never raises the overall p-value of a test whose overall value is the smallest history entry, and leaves the
    history of the first k1 - 1 draws unchanged.  Returns (violations, runs)."""
    bad, runs = [], 0
    kinds = ["alpha_shrink", "bet_agrapa", "alpha_fixed", "bet_fixed", "alpha_shrink", "bet_agrapa"]
    for i in list(range(n)) + [3 * j + 2 for j in range(12 * n)]:      # the short exact-total cases are cheap: many of them
        kind = kinds[i % len(kinds)] if i < n else rng.choice(["alpha_fixed", "bet_fixed", "alpha_shrink", "bet_agrapa", "sprt"])
        cfg = gen_cfg(rng, kind=kind, finite=(True if i >= n else None))
        cfg["long"] = "append"
        if kind == "alpha_shrink":
            cfg["p"]["f"] = rng.choice([F(0), F(1, 2), F(2), F(1, 8)])
        k2 = rng.choice([70, 130, 300, 1030, 1100, 2049, 2100, 2400, 2600])
        k1 = rng.choice([b for b in (40, 60, 64, 100, 1000, 1024, 2000, 2048) if b < k2])
        if cfg["N"] is not None:
            cfg["N"] = k2 + rng.choice([0, 10, k2, 20 * k2])
        xs = long_xs(rng, cfg, k2)
        if i % 3 == 2:
            # a round that ends where the sample total EQUALS the null total N t (non-dyadic values, so the running sum
            # carries rounding), followed by a round that appends only zeros
            v = C.frac(float(rng.choice([F(1, 10), F(3, 10), F(6, 10), F(7, 10), F(1, 3), F(55, 100)]) * cfg["u"]))
            k1 = rng.choice([9, 12, 17, 33, 50, 100, 129])
            r = rng.randint(1, 8)
            k2 = k1 + r
            cfg["N"] = k2 + rng.choice([0, 0, 3])
            cfg["t"] = C.frac(float(k1 * v / cfg["N"]))
            if not (0 < cfg["t"] < cfg["u"]):
                continue
            if "eta" in cfg["p"]:
                cfg["p"]["eta"] = C.frac(float(cfg["t"] + (cfg["u"] - cfg["t"]) * F(rng.randint(1, 8), 8)))
            xs = [v] * k1 + [F(0)] * r
        a, b = run_impl(cfg, xs[:k1], variant=i), run_impl(cfg, xs, variant=i)
        runs += 2
        if a["exc"] or b["exc"] or math.isnan(a["p"]) or math.isnan(b["p"]):
            continue
        inp = {"cfg": C.jsonable(cfg), "xs": C.jsonable(xs), "k1": k1, "k2": k2}
        if b["p"] > a["p"] * (1 + 1e-9) + 1e-300:
            bad.append((f"{kind}: the measured risk rises when observations are appended ({k1} -> {k2} draws)",
                        inp, {"p_before": a["p"], "p_after": b["p"]}))
        elif not all(close(u, v) for u, v in zip(a["hist"][:k1 - 1], b["hist"][:k1 - 1])):
            j = next(j for j, (u, v) in enumerate(zip(a["hist"][:k1 - 1], b["hist"][:k1 - 1])) if not close(u, v))
            bad.append((f"{kind}: appending observations changes an earlier entry of the p-value history ({k1} -> {k2} draws)",
                        inp, {"index": j, "before": a["hist"][j], "after": b["hist"][j]}))
    return bad, runs


def long_stats(cases):
    st = {}
    for c in cases:
        key = "long stream: " + str(c["cfg"].get("long")).split(" ")[0]
        st[key] = st.get(key, 0) + 1
        b = "long stream: length " + ("<=64" if len(c["xs"]) <= 64 else "65-1024" if len(c["xs"]) <= 1024 else "1025-2048" if len(c["xs"]) <= 2048 else ">2048")
        st[b] = st.get(b, 0) + 1
    return st


# ---------------------------------------------------------------- replay support
def unjson(v):
    """inverse of common.jsonable for the values this family uses ("n/d" strings, "nan"/"inf", lists, dicts)"""
    if isinstance(v, str):
        if "/" in v:
            a, b = v.split("/")
            return F(int(a), int(b))
        if v in ("nan", "inf", "-inf"):
            return float(v)
        return v
    if isinstance(v, bool) or v is None:
        return v
    if isinstance(v, int):
        return F(v)
    if isinstance(v, float):
        return C.frac(v)
    if isinstance(v, list):
        return [unjson(x) for x in v]
    if isinstance(v, dict):
        return {k: unjson(x) for k, x in v.items()}
    return v


def cfg_from_json(j):
    out = {"kind": j["kind"], "N": (int(j["N"]) if j["N"] is not None else None), "t": unjson(j["t"]), "u": unjson(j["u"]),
           "ro": bool(j["ro"]), "p": {k: unjson(v) for k, v in j["p"].items()}}
    for k in ("int_u", "long", "defaults", "explicit_estim"):
        if j.get(k):
            out[k] = j[k]
    return out


def replay_cases(payload):
    """(cfg, xs) pairs recorded in a replay file written by this family's checks"""
    out = []

    def take(d):
        if isinstance(d, dict) and "cfg" in d and "xs" in d and d["xs"] is not None:
            out.append((cfg_from_json(d["cfg"]), [unjson(x) for x in d["xs"]]))
    v = payload.get("violation") or {}
    take(v.get("input") or {})
    obs = v.get("observed") or {}
    if isinstance(obs, dict) and "cfg" in (v.get("input") or {}):
        for key in ("xs", "ys"):
            if key in obs:
                out.append((cfg_from_json(v["input"]["cfg"]), [unjson(x) for x in obs[key]]))
    for b in payload.get("broken_ties", []) + payload.get("no_longer_checks", []):
        take(b.get("first_case") or {})
    return out


def run_replay(ctx, res, oracle=None):
    """Re-run the recorded cases: correspondence on them, plus the module's per-case oracle."""
    pairs = replay_cases(ctx.replay)
    cases = [{"cfg": cfg, "xs": xs, "impl": run_impl(cfg, xs), "tag": "replay"} for cfg, xs in pairs]
    short = [c for c in cases if not c["cfg"].get("long")]     # long / awkward-magnitude cases are oracle-only
    if short:
        cr = C.run_corr(ctx.pid, "replay", IMPORTS, "nnm_case", short, case_lit, "agree_nnm", shard=150, show="show_nnm")
        res.corr.append(("replayed cases: NonnegMean vs NNM model", cr, case_json))
    for c in cases:
        res.evaluations += 1
        res.nontrivial.add(repr((c["cfg"], c["xs"])))
        res.nontrivial.add("replay")
        for what in (oracle(c) if oracle else []) + purity_violation(c):
            res.oracle_violations.append({"what": f"{c['cfg']['kind']}: {what}", "input": case_json(c),
                                          "signature": f"{ctx.pid}:{c['cfg']['kind']}:{what}"})
    res.rule = "replay of the cases recorded in the given replay file"
    res.samples = [case_json(c) for c in cases[:4]] or [{"note": "no replayable case in the file"}]
    return cases
