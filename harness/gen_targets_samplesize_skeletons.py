"""Whole-function skeletons for property C16 (group "samplesize_skeletons" of harness/genarith.py, loaded as a plugin).
Every statement of the five functions the sample-size estimates live in is listed: exact `ast.unparse` text, opened
if / else / for structure, and (interleave_values) the seven "fraction still to be placed" expressions translated to Q.
Any other statement, a reordered, added or missing line is a refusal = every obligation of GenProofs_samplesize_skeletons.v
counts as broken.  The `tail` of each target is the line-by-line Gallina reading of the exact texts (source line in the
comment), emitted only when the whole skeleton matched, and proved equal to the functions of coq/theories/SampleSize.v."""
GROUP = "samplesize_skeletons"
HEADER = "From SV Require Import SampleSize.\n"

SK_SS = [('text', 'N = self.N'),
 ('if', 'reps is None'),
 ('text', 'pop = np.tile(np.array(x), math.ceil(N / len(x)))[0:N]'),
 ('text', 'p = self.test(pop, **kwargs)[1]'),
 ('text', 'crossed = p <= alpha'),
 ('text', 'sam_size = int(N if np.sum(crossed) == 0 else np.argmax(crossed) + 1)'),
 ('else',),
 ('text', "seed = kwargs.get('seed', 1234567890)"),
 ('text', 'prng = np.random.RandomState(seed)'),
 ('text', 'sams = np.zeros(int(reps))'),
 ('text', 'pfx = np.array(x) if prefix else []'),
 ('text', 'ran_len = N - len(x) if prefix else N'),
 ('for', 'r in range(reps)'),
 ('text', 'pop = np.append(pfx, prng.choice(x, size=ran_len, replace=True))'),
 ('text', 'p = self.test(pop, **kwargs)[1]'),
 ('text', 'crossed = p <= alpha'),
 ('text', 'sams[r] = N if np.sum(crossed) == 0 else np.argmax(crossed) + 1'),
 ('endfor',),
 ('text', 'sam_size = int(np.quantile(sams, quantile))'),
 ('endif',),
 ('text', 'return sam_size')]

SK_FSS = [('text', "assert self.margin > 0, f'Margin {self.margin} is nonpositive'"),
 ('if', 'data is not None'),
 ('text', 'sample_size = self.test.sample_size(data, alpha=self.contest.risk_limit, reps=reps, prefix=prefix, quantile=quantile, seed=seed)'),
 ('else',),
 ('text', 'big = self.assorter.upper_bound if self.contest.audit_type == Audit.AUDIT_TYPE.POLLING else self.make_overstatement(overs=0)'),
 ('text', 'small = 0 if self.contest.audit_type == Audit.AUDIT_TYPE.POLLING else self.make_overstatement(overs=1 / 2)'),
 ('text', 'rate_1 = rate_1 if rate_1 is not None else (1 - self.margin) / 2'),
 ('text', 'x = big * np.ones(self.test.N)'),
 ('if', 'self.contest.audit_type == Audit.AUDIT_TYPE.POLLING'),
 ('if', 'self.contest.choice_function == Contest.SOCIAL_CHOICE_FUNCTION.IRV'),
 ('text', "raise NotImplementedError(f'data must be provided to estimate sample sizes for IRV assertions')"),
 ('else',),
 ('if', 'self.contest.tally'),
 ('text', 'n_0 = self.contest.tally[self.loser]'),
 ('text', 'n_big = self.contest.tally[self.winner]'),
 ('text', 'n_half = self.test.N - n_0 - n_big'),
 ('text', 'x = Assertion.interleave_values(n_0, n_half, n_big, big=big)'),
 ('else',),
 ('text', "raise ValueError(f'contest {self.contest} tally required but not defined')"),
 ('endif',),
 ('endif',),
 ('else',),
 ('if', 'self.contest.audit_type in [Audit.AUDIT_TYPE.CARD_COMPARISON, Audit.AUDIT_TYPE.ONEAUDIT]'),
 ('text', 'rate_1_i = np.arange(0, self.test.N, step=int(1 / rate_1), dtype=int) if rate_1 else []'),
 ('text', 'rate_2_i = np.arange(0, self.test.N, step=int(1 / rate_2), dtype=int) if rate_2 else []'),
 ('text', 'x[rate_1_i] = small'),
 ('text', 'x[rate_2_i] = 0'),
 ('else',),
 ('text', "raise NotImplementedError(f'audit type {self.contest.audit_type} for contest {self.contest} not implemented')"),
 ('endif',),
 ('endif',),
 ('text', 'sample_size = self.test.sample_size(x, alpha=self.contest.risk_limit, reps=reps, prefix=prefix, quantile=quantile, seed=seed)'),
 ('endif',),
 ('text', 'self.sample_size = sample_size'),
 ('text', 'return sample_size')]

SK_IV = [('text', 'N = n_small + n_med + n_big'),
 ('text', 'x = np.zeros(N)'),
 ('text', 'i_small = 0'),
 ('text', 'i_med = 0'),
 ('text', 'i_big = 0'),
 ('text', 'r_small = 1 if n_small else 0'),
 ('text', 'r_med = 1 if n_med else 0'),
 ('text', 'r_big = 1 if n_big else 0'),
 ('if', 'r_small'),
 ('text', 'x[0] = small'),
 ('text', 'i_small = 1'),
 ('expr', 'r_small', 'r0_small', ['n_small', 'i_small'], {}),
 ('else',),
 ('if', 'r_med'),
 ('text', 'x[0] = med'),
 ('text', 'i_med = 1'),
 ('expr', 'r_med', 'r0_med', ['n_med', 'i_med'], {}),
 ('else',),
 ('text', 'x[0] = big'),
 ('text', 'i_big = 1'),
 ('expr', 'r_big', 'r0_big', ['n_big', 'i_big'], {}),
 ('endif',),
 ('endif',),
 ('for', 'i in range(1, N)'),
 ('if', 'r_small > r_big'),
 ('if', 'r_med > r_small'),
 ('text', 'x[i] = med'),
 ('text', 'i_med += 1'),
 ('expr', 'r_med', 'rl_med_a', ['n_med', 'i_med'], {}),
 ('else',),
 ('text', 'x[i] = small'),
 ('text', 'i_small += 1'),
 ('expr', 'r_small', 'rl_small', ['n_small', 'i_small'], {}),
 ('endif',),
 ('else',),
 ('if', 'r_med > r_big'),
 ('text', 'x[i] = med'),
 ('text', 'i_med += 1'),
 ('expr', 'r_med', 'rl_med_b', ['n_med', 'i_med'], {}),
 ('else',),
 ('text', 'x[i] = big'),
 ('text', 'i_big += 1'),
 ('expr', 'r_big', 'rl_big', ['n_big', 'i_big'], {}),
 ('endif',),
 ('endif',),
 ('endfor',),
 ('text', 'return x')]

SK_CFS = [('text', 'self.sample_size = 0'),
 ('for', 'a in self.assertions.values()'),
 ('text', 'data = None'),
 ('if', 'mvr_sample is not None'),
 ('text', 'data, u = a.mvrs_to_data(mvr_sample, cvr_sample)'),
 ('else',),
 ('if', 'self.audit_type == Audit.AUDIT_TYPE.ONEAUDIT'),
 ('text', 'data, u = a.mvrs_to_data(cvr_sample, cvr_sample)'),
 ('endif',),
 ('endif',),
 ('text',
  'self.sample_size = max(self.sample_size, a.find_sample_size(data=data, rate_1=audit.error_rate_1, rate_2=audit.error_rate_2, reps=audit.reps, '
  'quantile=audit.quantile, seed=audit.sim_seed))'),
 ('endfor',),
 ('text', 'return self.sample_size')]

SK_AFS = [('if', 'len(self.strata) > 1'),
 ('text', "raise NotImplementedError('Stratified audits are not currently implemented.')"),
 ('endif',),
 ('text', 'stratum = next(iter(self.strata.values()))'),
 ('if', 'stratum.use_style and cvrs is None'),
 ('text', "raise ValueError('stratum.use_style==True but cvrs were not provided.')"),
 ('endif',),
 ('text', 'old = 0 if stratum.use_style else len(mvr_sample)'),
 ('text', 'old_sizes = {c: old for c in contests.keys()}'),
 ('for', '(c, con) in contests.items()'),
 ('if', 'stratum.use_style'),
 ('text', 'old_sizes[c] = np.sum(np.array([cvr.sampled for cvr in cvrs if cvr.has_contest(c)]))'),
 ('endif',),
 ('text', 'new_size = 0'),
 ('for', '(a, asn) in con.assertions.items()'),
 ('if', 'not asn.proved'),
 ('if', 'mvr_sample is not None'),
 ('text', 'data, u = asn.mvrs_to_data(mvr_sample, cvr_sample)'),
 ('text', 'new_size = max(new_size, asn.find_sample_size(data=data, prefix=True, reps=self.reps, quantile=self.quantile, seed=self.sim_seed))'),
 ('else',),
 ('text', 'data = None'),
 ('if', 'con.audit_type == Audit.AUDIT_TYPE.ONEAUDIT'),
 ('if', 'cvrs is None'),
 ('text', "raise ValueError('ONEAudit sample size estimate requires cvrs.')"),
 ('endif',),
 ('text', 'data, u = asn.mvrs_to_data(cvrs, cvrs, use_all=True)'),
 ('if', 'self.error_rate_1'),
 ('text', 'idx = np.arange(0, len(data), math.floor(1 / self.error_rate_1))'),
 ('text', 'data[idx] = asn.make_overstatement(overs=1 / 2)'),
 ('endif',),
 ('if', 'self.error_rate_2'),
 ('text', 'idx = np.arange(0, len(data), math.floor(1 / self.error_rate_2))'),
 ('text', 'data[idx] = asn.make_overstatement(overs=1)'),
 ('endif',),
 ('endif',),
 ('text',
  'new_size = max(new_size, asn.find_sample_size(data=data, rate_1=self.error_rate_1, rate_2=self.error_rate_2, reps=self.reps, quantile=self.quantile, '
  'seed=self.sim_seed))'),
 ('endif',),
 ('endif',),
 ('endfor',),
 ('text', 'con.sample_size = new_size'),
 ('endfor',),
 ('if', 'stratum.use_style'),
 ('for', 'cvr in cvrs'),
 ('if', 'cvr.sampled'),
 ('text', 'cvr.p = 1'),
 ('else',),
 ('text', 'cvr.p = 0'),
 ('for', '(c, con) in contests.items()'),
 ('if', 'cvr.has_contest(c) and (not cvr.sampled)'),
 ('text', 'cvr.p = max(con.sample_size / (con.cards - old_sizes[c]), cvr.p)'),
 ('endif',),
 ('endfor',),
 ('endif',),
 ('endfor',),
 ('text', 'total_size = math.ceil(np.sum([c.p for c in cvrs if not c.phantom]))'),
 ('else',),
 ('text', 'total_size = np.max(np.array([con.sample_size for con in contests.values()]))'),
 ('endif',),
 ('text', 'return total_size')]

# ---------------------------------------------------------------------------------------------- Gallina tails
TAIL_SS = """Definition gen_ss_tail (sqrtq : Q -> Q) (draws : nat -> list Q) (quantile : Q -> list nat -> nat)
    (c : cfg) (alpha : Q) (x : list Q) (reps : option nat) (prefix : bool) (q : Q) : res nat :=
  match cN c with
  | None => Err EType                                                      (* N = inf: outside the domain *)
  | Some n =>
    let N := Z.to_nat n in                                                 (* N = self.N *)
    match reps with
    | None =>                                                              (* if reps is None: *)
      match x with
      | [] => Err EZeroDiv                                                 (*   N / len(x) with len(x) == 0 *)
      | _ :: _ =>
        let pop := tile_to N x x in                                        (*   pop = np.tile(np.array(x), math.ceil(N / len(x)))[0:N] *)
        let p := snd (run_test sqrtq c pop) in                             (*   p = self.test(pop, **kwargs)[1] *)
        let crossed := first_crossing alpha 0 p in                         (*   crossed = p <= alpha *)
        Ok (match crossed with Some k => k | None => N end)                (*   sam_size = int(N if np.sum(crossed) == 0 else np.argmax(crossed) + 1) *)
      end
    | Some reps =>                                                         (* else:  seed / prng / sams = np.zeros(int(reps)) *)
      let pfx := if prefix then x else [] in                               (*   pfx = np.array(x) if prefix else [] *)
      let sams := map (fun r =>                                            (*   for r in range(reps):   [ran_len only sizes the draw] *)
          let pop := pfx ++ draws r in                                     (*     pop = np.append(pfx, prng.choice(x, size=ran_len, replace=True)) *)
          let p := snd (run_test sqrtq c pop) in                           (*     p = self.test(pop, **kwargs)[1] *)
          let crossed := first_crossing alpha 0 p in                       (*     crossed = p <= alpha *)
          match crossed with Some k => k | None => N end)                  (*     sams[r] = N if np.sum(crossed) == 0 else np.argmax(crossed) + 1 *)
        (seq 0 reps) in
      Ok (quantile q sams)                                                 (*   sam_size = int(np.quantile(sams, quantile)) *)
    end                                                                    (* return sam_size *)
  end.
"""

TAIL_FSS = """Definition gen_fss_population (a : asn) (rate_1 rate_2 : option Q) : res (list Q) :=
  match a_margin a with
  | None => Err EType
  | Some margin =>
    let polling := match a_type a with Polling => true | _ => false end in
    let big := if polling then a_ub a else make_overstatement (a_ub a) margin 0 in          (* big = self.assorter.upper_bound if ...POLLING else self.make_overstatement(overs=0) *)
    let small := if polling then 0 else make_overstatement (a_ub a) margin (1 # 2) in       (* small = 0 if ...POLLING else self.make_overstatement(overs=1 / 2) *)
    let rate_1 := match rate_1 with Some r => r | None => (1 - margin) / 2 end in          (* rate_1 = rate_1 if rate_1 is not None else (1 - self.margin) / 2 *)
    match cN (a_cfg a) with
    | None => Err EType
    | Some n =>
      let N := Z.to_nat n in
      let x := repeat big N in                                                              (* x = big * np.ones(self.test.N) *)
      if polling then                                                                       (* if self.contest.audit_type == Audit.AUDIT_TYPE.POLLING: *)
        if a_irv a then Err ENotImpl                                                        (*   if ...IRV: raise NotImplementedError *)
        else match a_tally a with                                                           (*   else: if self.contest.tally: *)
             | Some (n_0, n_big) =>                                                         (*     n_0 = tally[self.loser]; n_big = tally[self.winner] *)
                 if (N <? n_0 + n_big)%nat then Err EDomain
                 else let n_half := (N - n_0 - n_big)%nat in                                (*     n_half = self.test.N - n_0 - n_big *)
                      interleave_values n_0 n_half n_big 0 (1 # 2) big                      (*     x = Assertion.interleave_values(n_0, n_half, n_big, big=big) *)
             | None => Err EValue                                                           (*   else: raise ValueError *)
             end
      else                                                                                  (* elif ... in [CARD_COMPARISON, ONEAUDIT]: *)
        rbind (rate_idx N (Some rate_1)) (fun rate_1_i =>                                   (*   rate_1_i = np.arange(0, self.test.N, step=int(1 / rate_1), dtype=int) if rate_1 else [] *)
        rbind (rate_idx N rate_2) (fun rate_2_i =>                                          (*   rate_2_i = np.arange(0, self.test.N, step=int(1 / rate_2), dtype=int) if rate_2 else [] *)
        let x := assign_at rate_1_i small x in                                              (*   x[rate_1_i] = small *)
        let x := assign_at rate_2_i 0 x in                                                  (*   x[rate_2_i] = 0 *)
        Ok x))
    end
  end.
Definition gen_fss_tail (sqrtq : Q -> Q) (draws : nat -> list Q) (quantile : Q -> list nat -> nat)
    (a : asn) (data : option (list Q)) (rate_1 rate_2 : option Q) (reps : option nat) (prefix : bool) (q : Q) : res nat :=
  match a_margin a with
  | None => Err EType
  | Some margin =>
    if Qle_bool margin 0 then Err EAssert                                                   (* assert self.margin > 0 *)
    else match data with
         | Some d => ss sqrtq draws quantile (a_cfg a) (a_alpha a) d reps prefix q          (* if data is not None: self.test.sample_size(data, alpha=risk_limit, reps, prefix, quantile, seed) *)
         | None => rbind (gen_fss_population a rate_1 rate_2)                               (* else: ... *)
                         (fun x => ss sqrtq draws quantile (a_cfg a) (a_alpha a) x reps prefix q)   (* self.test.sample_size(x, alpha=risk_limit, ...) *)
         end                                                                                (* self.sample_size = sample_size; return sample_size *)
  end.
"""

TAIL_IV = """(* (n - i) / n as Python evaluates it: ZeroDivisionError when n == 0, else the regenerated expression *)
Definition gen_iv_div (g : Q -> Q -> Q) (n i : nat) : option Q :=
  match n with O => None | S _ => Some (g (inject_Z (Z.of_nat n)) (inject_Z (Z.of_nat i))) end.
Definition gen_iv_first (ns nm nb : nat) (st : ist) : option (tag * ist) :=
  match ns with
  | S _ =>                                                                                  (* if r_small:  x[0] = small; i_small = 1 *)
      match gen_iv_div gen_iv_r0_small ns 1 with                                            (*   r_small = (n_small - i_small) / n_small *)
      | Some r => Some (TSmall, mkist 1 (i_m st) (i_b st) r (r_m st) (r_b st)) | None => None end
  | O => match nm with
         | S _ =>                                                                           (* elif r_med:  x[0] = med; i_med = 1 *)
             match gen_iv_div gen_iv_r0_med nm 1 with                                       (*   r_med = (n_med - i_med) / n_med *)
             | Some r => Some (TMed, mkist (i_s st) 1 (i_b st) (r_s st) r (r_b st)) | None => None end
         | O =>                                                                             (* else:  x[0] = big; i_big = 1 *)
             match gen_iv_div gen_iv_r0_big nb 1 with                                       (*   r_big = (n_big - i_big) / n_big *)
             | Some r => Some (TBig, mkist (i_s st) (i_m st) 1 (r_s st) (r_m st) r) | None => None end
         end
  end.
Definition gen_iv_step (ns nm nb : nat) (st : ist) : option (tag * ist) :=
  if Qlt_bool (r_b st) (r_s st) then                                                        (* if r_small > r_big: *)
    if Qlt_bool (r_s st) (r_m st) then                                                      (*   if r_med > r_small:  x[i] = med; i_med += 1 *)
      match gen_iv_div gen_iv_rl_med_a nm (S (i_m st)) with                                 (*     r_med = (n_med - i_med) / n_med *)
      | Some r => Some (TMed, mkist (i_s st) (S (i_m st)) (i_b st) (r_s st) r (r_b st)) | None => None end
    else                                                                                    (*   else:  x[i] = small; i_small += 1 *)
      match gen_iv_div gen_iv_rl_small ns (S (i_s st)) with                                 (*     r_small = (n_small - i_small) / n_small *)
      | Some r => Some (TSmall, mkist (S (i_s st)) (i_m st) (i_b st) r (r_m st) (r_b st)) | None => None end
  else if Qlt_bool (r_b st) (r_m st) then                                                   (* elif r_med > r_big:  x[i] = med; i_med += 1 *)
      match gen_iv_div gen_iv_rl_med_b nm (S (i_m st)) with                                 (*     r_med = (n_med - i_med) / n_med *)
      | Some r => Some (TMed, mkist (i_s st) (S (i_m st)) (i_b st) (r_s st) r (r_b st)) | None => None end
  else                                                                                      (* else:  x[i] = big; i_big += 1 *)
      match gen_iv_div gen_iv_rl_big nb (S (i_b st)) with                                   (*     r_big = (n_big - i_big) / n_big *)
      | Some r => Some (TBig, mkist (i_s st) (i_m st) (S (i_b st)) (r_s st) (r_m st) r) | None => None end.
Fixpoint gen_iv_loop (fuel ns nm nb : nat) (st : ist) : option (list tag) :=                (* for i in range(1, N): *)
  match fuel with
  | O => Some []
  | S f => match gen_iv_step ns nm nb st with
           | None => None
           | Some (t, st') => match gen_iv_loop f ns nm nb st' with Some l => Some (t :: l) | None => None end
           end
  end.
Definition gen_iv_tail (ns nm nb : nat) (small med big : Q) : res (list Q) :=
  match (ns + nm + nb)%nat with                                                             (* N = n_small + n_med + n_big; x = np.zeros(N) *)
  | O => Err EIndex                                                                         (* x[0] = ... on an empty array *)
  | S N' =>
      let st0 := mkist 0 0 0 (r_init ns) (r_init nm) (r_init nb) in                         (* i_small = i_med = i_big = 0; r_v = 1 if n_v else 0 *)
      match gen_iv_first ns nm nb st0 with
      | None => Err EZeroDiv
      | Some (t0, st1) => match gen_iv_loop N' ns nm nb st1 with
                          | None => Err EZeroDiv
                          | Some l => Ok (map (tag_value small med big) (t0 :: l))          (* return x *)
                          end
      end
  end.
"""

TAIL_CFS = """Definition gen_cfs_tail (sqrtq : Q -> Q) (draws : nat -> list Q) (quantile : Q -> list nat -> nat)
    (asns : list (asn * option (list Q))) (rate_1 rate_2 : option Q) (reps : option nat) (q : Q) : res nat :=
  fold_left (fun sample_size ad =>                                                          (* for a in self.assertions.values():  [data: what mvrs_to_data delivered, or None] *)
      rbind sample_size (fun m =>
      rbind (asn_find sqrtq draws quantile (fst ad) (snd ad) rate_1 rate_2 reps false q)    (*   a.find_sample_size(data=data, rate_1=audit.error_rate_1, rate_2=..., reps=..., quantile=..., seed=...) *)
            (fun k => Ok (Nat.max m k))))                                                   (*   self.sample_size = max(self.sample_size, ...) *)
    asns (Ok 0%nat).                                                                        (* self.sample_size = 0 ... return self.sample_size *)
"""

TAIL_AFS = """Definition gen_afs_contest (sqrtq : Q -> Q) (draws : nat -> list Q) (quantile : Q -> list nat -> nat)
    (asns : list (bool * asn * option (list Q))) (rate_1 rate_2 : option Q) (reps : option nat) (q : Q) : res nat :=
  fold_left (fun new_size (pad : bool * asn * option (list Q)) =>                           (* new_size = 0; for (a, asn) in con.assertions.items(): *)
      match pad with
      | (proved, a, data) =>
          if proved then new_size                                                           (*   if not asn.proved: *)
          else rbind new_size (fun m =>
               rbind (match data with
                      | Some d => asn_find sqrtq draws quantile a (Some d) None None reps true q      (*     asn.find_sample_size(data=data, prefix=True, reps, quantile, seed) *)
                      | None => asn_find sqrtq draws quantile a None rate_1 rate_2 reps false q       (*     asn.find_sample_size(data=data, rate_1=self.error_rate_1, rate_2=self.error_rate_2, ...) *)
                      end) (fun k => Ok (Nat.max m k)))                                     (*     new_size = max(new_size, ...) *)
      end) asns (Ok 0%nat).                                                                 (* con.sample_size = new_size *)
Definition gen_afs_total_nostyle (sizes : list nat) : res nat :=
  match sizes with
  | [] => Err EValue
  | s :: r => Ok (fold_left Nat.max r s)                                                    (* total_size = np.max(np.array([con.sample_size for con in contests.values()])) *)
  end.
"""

TARGETS = [
    dict(name="ss", kind="skeleton", file="shangrla/core/NonnegMean.py", func="NonnegMean.sample_size", skeleton=SK_SS, tail=TAIL_SS),
    dict(name="iv", kind="skeleton", file="shangrla/core/Audit.py", func="Assertion.interleave_values", skeleton=SK_IV, tail=TAIL_IV),
    dict(name="fss", kind="skeleton", file="shangrla/core/Audit.py", func="Assertion.find_sample_size", skeleton=SK_FSS, tail=TAIL_FSS),
    dict(name="cfs", kind="skeleton", file="shangrla/core/Audit.py", func="Contest.find_sample_size", skeleton=SK_CFS, tail=TAIL_CFS),
    dict(name="afs", kind="skeleton", file="shangrla/core/Audit.py", func="Audit.find_sample_size", skeleton=SK_AFS, tail=TAIL_AFS),
]
