"""C01 — risk limit: p-values are sequentially valid under every null population.
Oracles: exact enumeration of all N! orderings of small null populations (sampling without replacement) and of all
support^n sequences for finite-support laws (IID), on the IMPLEMENTATION; rejection frequency vs alpha for every
attained p-value."""
import itertools
import math
from fractions import Fraction as F

from . import common as C, nnm, genarith

ANCHORS = nnm.ANCHORS
WOR_KINDS = ["alpha_fixed", "alpha_shrink", "alpha_optcomp", "bet_fixed", "bet_agrapa", "kk", "sprt"]
IID_KINDS = ["alpha_fixed", "alpha_shrink", "alpha_optcomp", "bet_fixed", "bet_agrapa", "km", "kw", "sprt"]


def min_p(cfg, xs, obj=None):
    o = nnm.run_impl(cfg, list(xs), obj)
    if o["exc"]:
        return None
    vals = [v for v in o["hist"] + [o["p"]]]
    if any(math.isnan(v) for v in vals):
        return float("-inf")      # a NaN "p-value" is treated as a rejection at every level (worst case)
    return min(vals)


def gen_null_pop(rng, cfg, N):
    """values on the grid in [0,u] with total <= N t; several adversarial shapes"""
    u, t = cfg["u"], cfg["t"]
    den = 8
    umax = int(u * den)
    shape = rng.choice(["unif", "exact", "two", "allt", "zeros_u", "climb"])
    for _ in range(200):
        if shape == "allt":
            pop = [t] * N
        elif shape == "zeros_u":
            k = int(math.floor(N * t / u))
            pop = [u] * k + [F(0)] * (N - k)
            rest = N * t - k * u
            if N - k > 0 and rest > 0 and rng.random() < 0.7:
                pop[k] = min(u, F(math.floor(rest * den), den))
        elif shape == "two":
            a, b = F(rng.randint(0, umax), den), F(rng.randint(0, umax), den)
            pop = [rng.choice([a, b]) for _ in range(N)]
        elif shape == "climb":
            pop = [F(rng.randint(0, 1), den) for _ in range(N - 1)] + [u]
        else:
            pop = [F(rng.randint(0, umax), den) for _ in range(N)]
        if shape == "exact":   # push the total up to exactly N t where possible
            tot = sum(pop)
            i = 0
            while tot < N * t and i < N:
                add = min(u - pop[i], N * t - tot)
                add = F(math.floor(add * den), den)
                pop[i] += add
                tot += add
                i += 1
        if sum(pop) <= N * t:
            rng.shuffle(pop)
            return pop
        shape = "unif" if shape != "unif" else "two"
    return [F(0)] * N


def reused_instance(rng, cfg):
    """An instance that was built and used with ANOTHER configuration of the same kind and then re-parametrised in
    place (as Audit.py does with `asn.test.u = u`), or None for a fresh instance per call."""
    if rng.random() < 0.7:
        return None
    import warnings
    import numpy as np
    cfg0 = nnm.earlier_cfg(rng, cfg)
    if cfg["kind"] == "kk" and cfg0["N"] is None:
        cfg0["N"] = cfg["N"]
    try:
        with warnings.catch_warnings():
            warnings.simplefilter("ignore")
            obj = nnm.build(cfg0)
            obj.test(np.array([float(v) for v in nnm.gen_xs(rng, cfg0, maxlen=6)]))
        nnm.retarget(obj, cfg)
        return obj
    except Exception:  # noqa
        return None


def wor_oracle(rng, cfg, pop):
    """all orderings of pop; returns (violation or None, number of test runs)"""
    N = len(pop)
    obj = reused_instance(rng, cfg)
    counts = {}
    for perm in itertools.permutations(pop):
        counts[perm] = counts.get(perm, 0) + 1
    total = math.factorial(N)
    ps = []
    runs = 0
    for perm, mult in counts.items():
        p = min_p(cfg, perm, obj)
        runs += 1
        if p is None:
            return None, runs     # exceptions are C11's business
        ps.append((p, mult))
    ps.sort()
    acc = 0
    i = 0
    while i < len(ps):
        a = ps[i][0]
        while i < len(ps) and ps[i][0] == a:
            acc += ps[i][1]
            i += 1
        alpha = max(a, 0.0)
        if alpha < 1 and acc / total > alpha * (1 + 1e-9) + 1e-12:
            worst = [list(k) for k, _ in counts.items()][:0]
            return {"alpha": alpha, "orderings_rejecting": acc, "orderings": total,
                    "frequency": acc / total}, runs
    return None, runs


def wor_oracle_two(cfg, N, k, a, b, obj=None):
    """two-valued population (k cards of value a, N-k of value b): all C(N,k) distinct orderings, equal multiplicity"""
    ps = []
    runs = 0
    for pos in itertools.combinations(range(N), k):
        xs = [b] * N
        for i in pos:
            xs[i] = a
        p = min_p(cfg, xs, obj)
        runs += 1
        if p is None:
            return None, runs
        ps.append(p)
    ps.sort()
    total = len(ps)
    i = 0
    while i < total:
        a0 = ps[i]
        while i < total and ps[i] == a0:
            i += 1
        alpha = max(a0, 0.0)
        if alpha < 1 and i / total > alpha * (1 + 1e-9) + 1e-12:
            return {"alpha": alpha, "orderings_rejecting": i, "distinct_orderings": total, "frequency": i / total}, runs
    return None, runs


def iid_oracle(rng, cfg, support, probs, n):
    """all sequences of length n from a finite-support law with mean <= t"""
    ps = []
    runs = 0
    for seq in itertools.product(range(len(support)), repeat=n):
        w = F(1)
        for i in seq:
            w *= probs[i]
        if w == 0:
            continue
        p = min_p(cfg, [support[i] for i in seq])
        runs += 1
        if p is None:
            return None, runs
        ps.append((p, w))
    ps.sort()
    acc = F(0)
    i = 0
    while i < len(ps):
        a = ps[i][0]
        while i < len(ps) and ps[i][0] == a:
            acc += ps[i][1]
            i += 1
        alpha = max(a, 0.0)
        if alpha < 1 and float(acc) > alpha * (1 + 1e-9) + 1e-12:
            return {"alpha": alpha, "probability": float(acc)}, runs
    return None, runs


def gen_law(rng, cfg):
    u, t = cfg["u"], cfg["t"]
    for _ in range(100):
        k = rng.choice([2, 3])
        support = sorted(set([F(0), u] + [F(rng.randint(0, int(u * 8)), 8) for _ in range(k - 1)]))[:3]
        w = [rng.randint(0, 8) for _ in support]
        if sum(w) == 0:
            continue
        probs = [F(x, sum(w)) for x in w]
        if sum(s * p for s, p in zip(support, probs)) <= t:
            return support, probs
    return [F(0), u], [F(1), F(0)]


def run(ctx, res):
    genarith.regenerate(ctx.pid, "nnm_products", res)   # regenerated tie: factors and null mean the supermartingale proofs are about
    genarith.regenerate(ctx.pid, "nnm_estims", res)     # sjm / welford / estimators / bets: skeletons + formulas
    genarith.regenerate(ctx.pid, "nnm_masks", res)      # whole-function skeletons + boundary conventions (p = 0 / p = 1 rules)
    if getattr(ctx, "replay", None):
        nnm.run_replay(ctx, res, None)
        inp = (ctx.replay.get("violation") or {}).get("input") or {}
        if "cfg" in inp and ("population" in inp or "count_a" in inp or "support" in inp):
            cfg = nnm.cfg_from_json(inp["cfg"])
            if "population" in inp:
                v, runs = wor_oracle(ctx.rng, cfg, [nnm.unjson(x) for x in inp["population"]])
            elif "count_a" in inp:
                obj = None
                if inp.get("instance_used_before_with"):
                    e = inp["instance_used_before_with"]
                    obj = nnm.used_instance(nnm.cfg_from_json(e["cfg"]), [nnm.unjson(x) for x in e["xs"]])
                    if obj is not None:
                        nnm.retarget(obj, cfg)
                v, runs = wor_oracle_two(cfg, int(inp["N"]), int(inp["count_a"]), nnm.unjson(inp["a"]), nnm.unjson(inp["b"]), obj)
            else:
                v, runs = iid_oracle(ctx.rng, cfg, [nnm.unjson(x) for x in inp["support"]], [nnm.unjson(x) for x in inp["probs"]], int(inp["n"]))
            res.oracle_runs += runs
            res.evaluations += 1
            res.nontrivial.add("replayed population")
            if v:
                res.oracle_violations.append({"what": f"{cfg['kind']}: rejection frequency under the null exceeds alpha (replayed input)",
                                              "input": inp, "observed": v, "signature": f"C01:replay:{cfg['kind']}"})
        return
    cases, cr = nnm.run_corr(ctx.pid, ctx.rng, ctx.n(700, 10000), maxlen=ctx.n(12, 14))
    res.corr.append(("NonnegMean.test/estim/bet vs NNM.run_test", cr, nnm.case_json))
    res.evaluations += len(cases)
    for c in cases:
        for what in nnm.purity_violation(c):
            res.oracle_violations.append({"what": f"{c['cfg']['kind']}: {what}", "input": nnm.case_json(c),
                                          "signature": f"C01:{c['cfg']['kind']}:{what}"})
    for c in cases:
        if len(set(c["xs"])) > 1:
            res.nontrivial.add(repr((c["cfg"], c["xs"])))
    # --- the statistic the theorems are about, on samples far longer than any enumeration reaches (65..3000 draws,
    #     integer-typed u, other units): exact running sums and null means, published product, well-formed output
    from . import c11 as _c11, c12 as _c12
    lg = nnm.long_cases(ctx.rng, ctx.n(150, 1500))
    for c in lg:
        res.oracle_runs += 1
        res.evaluations += 1
        for what in [w for w, _ in _c12.oracle_defs(c)] + _c11.oracle(c):
            res.oracle_violations.append({"what": f"{c['cfg']['kind']}: {what} (long sample: the statistic is not the supermartingale of the theorems)",
                                          "input": nnm.case_json(c), "signature": f"C01:long:{c['cfg']['kind']}:{what}"})
    # --- without replacement: all N! orderings
    npop = ctx.n(70, 600)
    maxN = ctx.n(6, 7)
    hist = {}
    for i in range(npop):
        kind = WOR_KINDS[i % len(WOR_KINDS)]
        N = ctx.rng.randint(2, maxN) if ctx.rng.random() < 0.7 else maxN
        cfg = nnm.gen_cfg(ctx.rng, kind=kind, finite=True)
        cfg["N"] = N
        pop = gen_null_pop(ctx.rng, cfg, N)
        v, runs = wor_oracle(ctx.rng, cfg, pop)
        res.oracle_runs += runs
        res.evaluations += 1
        hist[f"wor/{kind}/N={N}"] = hist.get(f"wor/{kind}/N={N}", 0) + 1
        if len(set(pop)) > 1:
            res.nontrivial.add(repr((cfg, pop)))
        if v:
            res.oracle_violations.append({"what": f"{kind}: rejection frequency over all orderings of a null population exceeds alpha",
                                          "input": {"cfg": C.jsonable(cfg), "population": C.jsonable(pop)}, "observed": v,
                                          "signature": f"C01:wor:{kind}"})
    # --- larger two-valued populations (all C(N,k) distinct orderings): long enough for running sd / variance to matter
    for i in range(ctx.n(21, 210)):
        kind = WOR_KINDS[i % len(WOR_KINDS)]
        cfg = nnm.gen_cfg(ctx.rng, kind=kind, finite=True)
        if kind == "alpha_shrink":
            cfg["p"]["f"] = ctx.rng.choice([F(1, 2), F(2), F(1, 8), F(0)])
        N = ctx.rng.randint(8, ctx.n(12, 16))
        cfg["N"] = N
        u, t = cfg["u"], cfg["t"]
        a = F(ctx.rng.randint(1, int(u * 8)), 8)
        b = F(ctx.rng.randint(0, int(min(a, t) * 8)), 8) if ctx.rng.random() < 0.5 else F(0)
        if a <= b:
            a, b = u, F(0)
        kmax = int(math.floor((N * t - N * b) / (a - b))) if N * t >= N * b else 0
        k = max(0, min(N, kmax))
        if ctx.rng.random() < 0.3 and k > 1:
            k -= 1
        v, runs = wor_oracle_two(cfg, N, k, a, b)
        res.oracle_runs += runs
        res.evaluations += 1
        hist[f"wor2/{kind}"] = hist.get(f"wor2/{kind}", 0) + 1
        res.nontrivial.add(repr((cfg, N, k, a, b)))
        if v:
            res.oracle_violations.append({"what": f"{kind}: rejection frequency over all orderings of a two-valued null population exceeds alpha",
                                          "input": {"cfg": C.jsonable(cfg), "N": N, "count_a": k, "a": C.jsonable(a), "b": C.jsonable(b)},
                                          "observed": v, "signature": f"C01:wor2:{kind}"})
    # --- IID: all sequences from a finite-support law
    for i in range(ctx.n(24, 240)):
        kind = IID_KINDS[i % len(IID_KINDS)]
        cfg = nnm.gen_cfg(ctx.rng, kind=kind, finite=False)
        support, probs = gen_law(ctx.rng, cfg)
        n = ctx.rng.randint(2, ctx.n(5, 7))
        v, runs = iid_oracle(ctx.rng, cfg, support, probs, n)
        res.oracle_runs += runs
        res.evaluations += 1
        hist[f"iid/{kind}/n={n}"] = hist.get(f"iid/{kind}/n={n}", 0) + 1
        res.nontrivial.add(repr((cfg, support, probs, n)))
        if v:
            res.oracle_violations.append({"what": f"{kind}: rejection probability under an IID null law exceeds alpha",
                                          "input": {"cfg": C.jsonable(cfg), "support": C.jsonable(support), "probs": C.jsonable(probs), "n": n},
                                          "observed": v, "signature": f"C01:iid:{kind}"})
    # --- targeted search: when the correspondence broke, look for a concrete null population on the disagreeing
    #     configurations (finite N, two-valued populations with the largest mean the null allows, N up to 20)
    if cr.bad and not res.oracle_violations:
        import time as _time
        seen = set()
        t_end = _time.time() + 240            # search budget
        # configurations where a running statistic of the data weighs most come first
        order = sorted(cr.bad, key=lambda cm: (-float(cm[0]["cfg"]["p"].get("f", 0)), float(cm[0]["cfg"]["p"].get("d", 0))))
        for c0, _ in order:
            cfg = dict(c0["cfg"])
            key = repr((cfg["kind"], cfg["p"], c0.get("earlier")))
            if key in seen or len(seen) >= 24 or cfg["kind"] in ("km", "kw") or _time.time() > t_end:
                continue
            seen.add(key)
            u, t = cfg["u"], cfg["t"]
            found = None
            for N in (12, 16, 20):
                for a in sorted({u, (t + u) / 2, F(math.ceil(t * 8) + 1, 8)}):
                    if not (t < a <= u):
                        continue
                    k = int(math.floor(N * t / a))
                    for kk in {k, max(k - 1, 0)}:
                        if math.comb(N, kk) > 6000:
                            continue
                        cfg2 = dict(cfg, N=N, ro=True)      # (a finite population is sampled in random order)
                        obj = None
                        if c0.get("earlier"):
                            # the disagreeing instance had been used with another configuration and re-tuned in place:
                            # the population is judged by an instance with the same past
                            # (its earlier use is re-enacted at the population size under study, so that what differs
                            #  between the two uses is what differed in the disagreeing case)
                            e_cfg, e_xs = c0["earlier"]
                            earlier2 = (dict(e_cfg, N=N, ro=True), list(e_xs)[:N])
                            obj = nnm.used_instance(*earlier2)
                            if obj is not None:
                                nnm.retarget(obj, cfg2)
                        v, runs = wor_oracle_two(cfg2, N, kk, a, F(0), obj)
                        res.oracle_runs += runs
                        if v:
                            found = (cfg2, N, kk, a, v, (earlier2 if obj is not None else None))
                            break
                    if found:
                        break
                if found:
                    break
            if found:
                cfg2, N, kk, a, v, earlier = found
                past = ({"instance_used_before_with": {"cfg": C.jsonable(earlier[0]), "xs": C.jsonable(earlier[1])}} if earlier else {})
                res.oracle_violations.append({"what": f"{cfg2['kind']}: rejection frequency over all orderings of a two-valued null population exceeds alpha"
                                                      + (" (instance re-tuned in place after an earlier use)" if earlier else ""),
                                              "input": {"cfg": C.jsonable(cfg2), "N": N, "count_a": kk, "a": C.jsonable(a), "b": 0, **past},
                                              "observed": v, "signature": f"C01:wor2:{cfg2['kind']}"})
    res.rule = ("correspondence as C11; oracle: exact enumeration on the implementation of all N! orderings of null populations "
                f"(N<={maxN}; shapes: uniform, total exactly N t, two-valued, all-t, zeros-and-u, climb) and of all support^n sequences "
                "of finite-support null laws, rejection frequency compared with alpha at every attained p-value; "
                "non-trivial = non-constant population / sample")
    res.samples = [nnm.case_json(c) for c in cases[:2]]
    res.stats = dict(nnm.branch_stats(cases), **hist, **nnm.long_stats(lg))
    res.assumptions = ["finite N: full theorems for ALPHA (all estimators), betting (fixed, aGRAPA), SPRT, Kaplan-Kolmogorov; "
                       "N=infinity: theorems for every law of rational-valued observations given by its expectation functional (positive, "
                       "normalised, linear; real-valued), every finite horizon, for ALPHA, betting, SPRT, Kaplan-Markov, Kaplan-Wald; "
                       "outside the statement: mass on irrational values, the limit in the horizon",
                       "standard-library axioms used by the arbitrary-law theorems only: ClassicalDedekindReals.sig_forall_dec, "
                       "FunctionalExtensionality.functional_extensionality_dep (Coq Reals)",
                       "np.sqrt: any function with nonnegative values (theorems)"]
