"""Generators, implementation runner, Coq literal writers and brute-force oracles for shangrla/raire.
Shared by C04 (soundness / sufficiency / emptiness) and C15 (optimality).

A case is a dict:
  n        number of candidates (model candidate i = contest.candidates[i])
  names    candidate identifiers given to the implementation, names[i] for model candidate i
  types    list of (ballot, multiplicity); a ballot is a tuple of candidate indices, most preferred first
  nocontest  number of extra CVRs that do not contain the contest at all (model: blank ballots)
  tot      contest.tot_ballots
  winner   reported winner (index)
  bp       True: bp_estimate, False: cp_estimate
  exact    True: a Fraction-valued asn_func is passed to the real compute_raire_assertions
  order    None or a permutation of the candidates given as Contest(order=...) (search hint)
  second   True: the same Contest / cvrs objects were first used for a call with another winner
  log      True: the call is made with log=True and a string sink as stream
  before   calls made immediately before, in the same process (state must not leak between calls):
           {'kind': 'other_cvrs', types, tot, winner, bp}   same contest id and candidate ids, other CVRs
           {'kind': 'other_fn'}                              same Contest and cvrs objects, the other difficulty function
           {'kind': 'other_winner', winner}                  same objects, another reported winner
           {'kind': 'other_contest', winner, bp}             the second IRV contest 'c2' carried by the same cards (c2types)
           {'kind': 'same_contest'|'same_dict', types, tot, winner, bp}   the SAME Contest object (and cvrs dict, refilled in
                                                             place) first used with a different profile, total and winner
  c2types  ballot types of a second IRV contest 'c2' (same candidate ids) placed on the same cards
  rankrep  numeric representation of the rank positions in the CVR dicts (RANK_REPS); the model sees int(rank)
  impl     {'out': [(kind, w, l, elim|None, votes_for_winner, votes_for_loser, difficulty)] | None, 'exc': str|None,
            'objs': the returned assertion objects (not serialised), 'cvrs': the CVR dict given to the code}
"""
import contextlib
import io
import itertools
import math
import sys
import time
from fractions import Fraction as F

from . import common as C

IMPORTS = "From SV Require Import Run_Raire.\nOpen Scope nat_scope."
ANCHORS = [("shangrla/raire/raire.py", ["compute_raire_assertions"]),
           ("shangrla/raire/raire_utils.py",
            ["ranking", "vote_for_cand", "RaireAssertion.__init__", "RaireAssertion.__lt__",
             "NEBAssertion.is_vote_for_winner", "NEBAssertion.is_vote_for_loser", "NEBAssertion.same_as",
             "NEBAssertion.subsumes", "is_suffix", "NENAssertion.__init__", "NENAssertion.is_vote_for_winner",
             "NENAssertion.is_vote_for_loser", "NENAssertion.same_as", "NENAssertion.subsumes",
             "RaireNode.__init__", "RaireNode.is_descendent_of", "RaireFrontier.replace_descendents",
             "RaireFrontier.insert_node", "find_best_audit", "manage_node", "perform_dive"]),
           ("shangrla/raire/sample_estimator.py", ["bp_estimate", "cp_estimate"])]

CONTEST = "c1"


class untraced:
    """Harness-only code (generators, Fraction arithmetic, brute-force oracles) runs with the thorough tier's line
    tracer switched off; the tracer is only meant to see the anchored implementation functions."""

    def __enter__(self):
        self.old = sys.gettrace()
        if self.old is not None:
            sys.settrace(None)
        return self

    def __exit__(self, *exc):
        if self.old is not None:
            sys.settrace(self.old)
        return False


def corr(*a, **k):
    """C.run_corr without the line tracer (it only writes literals and runs coqc)."""
    with untraced():
        return C.run_corr(*a, **k)


# ---------------------------------------------------------------- exact difficulty functions (same formulas, Fractions)
def cp_frac(w, l, other, total):
    with untraced():
        amargin = 2 * ((F(w) + F(1, 2) * other) / total) - 1
        return 1 / amargin


def bp_frac(w, l, other, total):
    with untraced():
        p = F(w + l, total)
        q = F(w - l, w + l)
        return 1 / (p * (q * q))


# ---------------------------------------------------------------- independent IRV semantics (for generators and oracles)
def first_standing(b, elim):
    for c in b:
        if c not in elim:
            return c
    return None


def tallies(n, ballots, elim):
    t = [0] * n
    for b, k in ballots:
        c = first_standing(b, elim)
        if c is not None:
            t[c] += k
    return t


def irv_orders(n, ballots, limit=2000):
    """All valid elimination orders (every tie-break), as tuples; capped."""
    res = []

    def go(elim_seq):
        if len(res) >= limit:
            return
        if len(elim_seq) == n:
            res.append(tuple(elim_seq))
            return
        t = tallies(n, ballots, set(elim_seq))
        standing = [c for c in range(n) if c not in elim_seq]
        m = min(t[c] for c in standing)
        for c in standing:
            if t[c] == m:
                go(elim_seq + [c])

    go([])
    return res


def all_ballots(n, maxlen=None):
    out = [()]
    for k in range(1, (maxlen or n) + 1):
        out += list(itertools.permutations(range(n), k))
    return out


def py_vote(a, b):
    """(vote for winner, vote for loser) of assertion a = (kind, w, l, elim) on ballot b — independent semantics."""
    kind, w, l, elim = a
    if kind == "NEB":
        vw = len(b) > 0 and b[0] == w
        vl = l in b and (w not in b or b.index(l) < b.index(w))
        return int(vw), int(vl)
    e = set(elim)
    f = first_standing(b, e)
    return int(f is not None and f == w), int(f is not None and f == l)


def py_tally(a, ballots):
    tw = tl = 0
    for b, k in ballots:
        vw, vl = py_vote(a, b)
        tw += k * vw
        tl += k * vl
    return tw, tl


def py_contradicts(a, order):
    kind, w, l, elim = a
    if kind == "NEB":
        return w in order and l in order and order.index(w) < order.index(l)
    if w not in order:
        return False
    return set(order[:order.index(w)]) == set(elim)


def true_assertions(n, ballots):
    """Every true NEB / NEN assertion with its tallies: [(a, tw, tl)]."""
    res = []
    for w in range(n):
        for l in range(n):
            if w == l:
                continue
            a = ("NEB", w, l, None)
            tw, tl = py_tally(a, ballots)
            if tw > tl:
                res.append((a, tw, tl))
            others = [c for c in range(n) if c not in (w, l)]
            for k in range(len(others) + 1):
                for e in itertools.combinations(others, k):
                    a = ("NEN", w, l, tuple(e))
                    tw, tl = py_tally(a, ballots)
                    if tw > tl:
                        res.append((a, tw, tl))
    return res


def alt_orders(n, winner):
    return [o for o in itertools.permutations(range(n)) if o[-1] != winner]


def brute(n, ballots, tot, winner, bp):
    """(possible, optimum) by brute force over all n! orders: optimum = max over alternative orders of the least
    difficulty of a true assertion contradicting it (None when some order cannot be contradicted)."""
    dfun = bp_frac if bp else cp_frac
    ta = [(a, dfun(tw, tl, tot - tw - tl, tot)) for a, tw, tl in true_assertions(n, ballots)]
    worst = None
    for o in alt_orders(n, winner):
        ds = [d for a, d in ta if py_contradicts(a, o)]
        if not ds:
            return False, None
        m = min(ds)
        worst = m if worst is None or m > worst else worst
    return True, worst


# ---------------------------------------------------------------- implementation side
def R():
    from shangrla.raire import raire, raire_utils, sample_estimator
    return raire, raire_utils, sample_estimator


NAME_SCHEMES = [
    lambda n: [chr(65 + i) for i in range(n)],
    lambda n: [f"cand{10 - i}" for i in range(n)],
    lambda n: [str(7 * i % 11) for i in range(n)],
    lambda n: [3 * i + 1 for i in range(n)],          # integer identifiers
    lambda n: [("Z", "a", "M", "b", "Q", "c")[i] for i in range(n)],
    # identifiers that are not single characters: numeric strings reaching two digits, ids that are concatenations /
    # prefixes / substrings of other ids, ids with spaces (separator-free joins and substring tests must not confuse them)
    lambda n: [("1", "2", "12", "21", "121", "112")[i] for i in range(n)],
    lambda n: [("1", "2", "3", "12", "10", "11")[i] for i in range(n)],
    lambda n: [("12", "1", "2", "3", "23", "123")[i] for i in range(n)],
    lambda n: [("a", "ab", "b", "abb", "ba", "aba")[i] for i in range(n)],
    lambda n: [("A B", "A", "B", "B A", " A", "A B C")[i] for i in range(n)],
    lambda n: [("10", "1", "0", "01", "100", "11")[i] for i in range(n)],
]
AWKWARD = list(range(5, 11))      # indices of the awkward-identifier schemes


RANK_REPS = ["int", "np.int64", "np.int32", "np.int8", "np.uint16", "float", "np.float64", "mixed", "batches"]


def rank_value(pos, rep, i, nitems):
    """The rank position `pos` of ballot number i in the numeric representation `rep` (all compare equal to int(pos)):
    Python int, numpy integers of several widths (what a numpy rank matrix / a pandas column yields), integral floats,
    'mixed' = representation chosen per ballot, 'batches' = first half numpy int64, second half Python int (two
    batches merged)."""
    import numpy as np
    if rep == "mixed":
        rep = ("int", "np.int64", "np.int32", "np.int8", "np.uint16")[(3 * i + pos) % 5]
    elif rep == "batches":
        rep = "np.int64" if 2 * i < nitems else "int"
    if rep == "int":
        return int(pos)
    if rep == "float":
        return float(pos)
    return getattr(np, rep[3:])(pos)


def contest_winner(case):
    """The winner RECORDED in the Contest object.  The reported winner under audit is the `winner` ARGUMENT of
    compute_raire_assertions (its docstring: "winner - reported winner of the contest"); the model and all oracles use
    the argument.  case['cwinner']: absent/'same' = the argument, an index = that candidate, 'none' = None."""
    cw = case.get("cwinner", "same")
    if cw in (None, "same"):
        return case["names"][case["winner"]]
    if cw == "none":
        return None
    return case["names"][cw]


def gen_cwinner(rng, n, winner, possible=None):
    r = rng.random()
    if r < 0.55:
        return "same"
    if r < 0.65:
        return "none"
    if r < 0.8 and possible and possible != [winner]:
        return rng.choice(possible)          # the object records a possible true winner while another one is reported
    others = [c for c in range(n) if c != winner]
    return rng.choice(others) if others else "same"


def build_inputs(case, rng=None):
    """Contest + cvrs exactly as a caller would build them (dict of ballot id -> {contest: {cand: position}})."""
    _, U, _ = R()
    names = case["names"]
    rep = case.get("rankrep") or "int"
    cvrs = {}
    items = []
    for b, k in case["types"]:
        items += [b] * k
    items += [None] * case.get("nocontest", 0)
    if rng is not None:
        rng.shuffle(items)
    for i, b in enumerate(items):
        if b is None:
            cvrs[f"b{i}"] = {"other": {names[0]: 0}}        # a CVR without this contest (ranks our candidate first elsewhere)
        else:
            rec = {CONTEST: {names[c]: rank_value(pos, rep, i, len(items)) for pos, c in enumerate(b)}}
            if i % 5 == 0:
                rec["other"] = {names[-1]: 0, names[0]: 1}    # another contest on the same card is ignored
            cvrs[f"b{i}"] = rec
    items2 = []
    for b, k in case.get("c2types") or []:
        items2 += [b] * k
    for j, ((bid, rec), b) in enumerate(zip(cvrs.items(), items2)):   # a second IRV contest with the same candidate ids on the same cards
        rec["c2"] = {names[c]: rank_value(pos, rep, j, len(items2)) for pos, c in enumerate(b)}
    order = [names[c] for c in case["order"]] if case.get("order") is not None else []
    contest = U.Contest(CONTEST, list(names), contest_winner(case), case["tot"], order=order)
    return contest, cvrs


def canon(result, names):
    """Implementation output -> [(kind, w, l, elim|None, vw, vl, difficulty)] or None when it is not a list of
    NEB/NEN assertions with finite numeric fields."""
    _, U, _ = R()
    idx = {nm: i for i, nm in enumerate(names)}
    if not isinstance(result, list):
        return None
    out = []
    for a in result:
        try:
            if type(a) is U.NEBAssertion:
                kind, elim = "NEB", None
            elif type(a) is U.NENAssertion:
                kind, elim = "NEN", tuple(idx[c] for c in a.eliminated)
            else:
                return None
            d = a.difficulty
            if not isinstance(d, F):
                d = float(d)
                if math.isnan(d) or math.isinf(d):
                    return None
            vw, vl = int(a.votes_for_winner), int(a.votes_for_loser)
            if vw != a.votes_for_winner or vl != a.votes_for_loser or vw < 0 or vl < 0:
                return None
            out.append((kind, idx[a.winner], idx[a.loser], elim, vw, vl, d))
        except Exception:  # noqa
            return None
    return out


def asn_fn(bp, exact):
    _, _, S = R()
    if exact:
        return bp_frac if bp else cp_frac
    return S.bp_estimate if bp else S.cp_estimate


CALLS = {"n": 0}      # number of cases already run in this process (recorded with each case)


def run_before(case, contest, cvrs):
    """The calls of case['before'], in order, results discarded."""
    Rm, U, _ = R()
    names = case["names"]
    for b in case.get("before") or []:
        k = b["kind"]
        if k == "other_cvrs":
            c2 = dict(case, types=b["types"], nocontest=0, tot=b["tot"], winner=b["winner"], order=None, c2types=None)
            ct, cv = build_inputs(c2)
            Rm.compute_raire_assertions(ct, cv, names[b["winner"]], asn_fn(b["bp"], case["exact"]), False, agap=0)
        elif k == "other_fn":
            Rm.compute_raire_assertions(contest, cvrs, names[case["winner"]], asn_fn(not case["bp"], case["exact"]), False, agap=0)
        elif k == "other_winner":
            Rm.compute_raire_assertions(contest, cvrs, names[b["winner"]], asn_fn(case["bp"], case["exact"]), False, agap=0)
        elif k == "other_contest":
            n2 = sum(kk for _, kk in case.get("c2types") or [])
            ct = U.Contest("c2", list(names), names[b["winner"]], max(1, n2))
            Rm.compute_raire_assertions(ct, cvrs, names[b["winner"]], asn_fn(b["bp"], case["exact"]), False, agap=0)
        elif k in ("same_contest", "same_dict"):
            # the SAME Contest object (tot_ballots / winner re-assigned) first used with a DIFFERENT profile over the same
            # candidates (corrected CVRs after a re-scan); 'same_dict' also re-uses the cvrs dict object, refilled in place
            c2 = dict(case, types=b["types"], nocontest=0, tot=b["tot"], winner=b["winner"], order=None, c2types=None)
            _, cv = build_inputs(c2)
            saved = dict(cvrs)
            if k == "same_dict":
                cvrs.clear()
                cvrs.update(cv)
                cv = cvrs
            contest.tot_ballots, contest.winner = b["tot"], names[b["winner"]]
            try:
                Rm.compute_raire_assertions(contest, cv, names[b["winner"]], asn_fn(b["bp"], case["exact"]), False, agap=0)
            finally:
                contest.tot_ballots, contest.winner = case["tot"], contest_winner(case)
                if k == "same_dict":
                    cvrs.clear()
                    cvrs.update(saved)
        elif k == "case":          # a whole other case (replay of "the call made just before in the same process")
            c2 = b["case"]
            ct, cv = build_inputs(c2)
            Rm.compute_raire_assertions(ct, cv, c2["names"][c2["winner"]], asn_fn(c2["bp"], c2["exact"]), False, agap=0)
        else:
            raise ValueError(k)


def run_impl(case, rng=None):
    Rm, U, S = R()
    contest, cvrs = build_inputs(case, rng)
    fn = asn_fn(case["bp"], case["exact"])
    res = {"out": None, "exc": None, "objs": None, "cvrs": cvrs, "position_in_process": CALLS["n"]}
    CALLS["n"] += 1
    try:
        with C.time_limit(20):      # a change that makes the search loop must not stall the check
            run_before(case, contest, cvrs)
            if case.get("second"):
                other = case["names"][(case["winner"] + 1) % case["n"]]
                Rm.compute_raire_assertions(contest, cvrs, other, fn, False, agap=0)
            if case.get("log"):      # logging on (to a sink; one log line goes to stdout whatever `stream` is)
                sink = io.StringIO()
                with contextlib.redirect_stdout(sink):
                    r = Rm.compute_raire_assertions(contest, cvrs, case["names"][case["winner"]], fn, True, stream=sink, agap=0)
            else:
                r = Rm.compute_raire_assertions(contest, cvrs, case["names"][case["winner"]], fn, False, agap=0)
        res["objs"] = r
        res["out"] = canon(r, case["names"])
        if res["out"] is None:
            res["exc"] = "returned " + repr(r)[:200]
    except Exception as e:  # noqa
        res["exc"] = f"{type(e).__name__}: {e}"
    return res


def ballots_of(case):
    """ballot types of the model profile, the CVRs lacking the contest counted as blank"""
    bt = [(tuple(b), k) for b, k in case["types"] if k > 0]
    if case.get("nocontest", 0):
        bt.append(((), case["nocontest"]))
    return bt


# ---------------------------------------------------------------- generation
def rand_ballot(rng, n, full_p=0.4):
    r = rng.random()
    if r < 0.07:
        return ()
    k = n if r < 0.07 + full_p else rng.randint(1, n)
    return tuple(rng.sample(range(n), k))


def gen_profile(rng, n, maxb=60):
    style = rng.choice(["uniform", "types", "types", "tie", "tie", "tiefav", "close", "dominant", "blank", "tiny", "cycle",
                        "spatial", "ladder"])
    nb = rng.randint(1, maxb)
    types = {}

    def add(b, k=1):
        if k > 0:
            types[b] = types.get(b, 0) + k

    if style == "uniform":
        for _ in range(nb):
            add(rand_ballot(rng, n))
    elif style == "types":
        k = rng.randint(1, min(6, nb))
        for _ in range(k):
            add(rand_ballot(rng, n), rng.randint(1, max(1, 2 * nb // k)))
    elif style == "tie":
        # a profile plus its image under a transposition: the two swapped candidates tie at every round
        a, b = rng.sample(range(n), 2)
        sw = {a: b, b: a}
        for _ in range(max(1, nb // 2)):
            x = rand_ballot(rng, n)
            add(x)
            add(tuple(sw.get(c, c) for c in x))
        if rng.random() < 0.4:
            add(rand_ballot(rng, n))
    elif style == "tiefav":
        # two candidates tie at every round (profile symmetric under swapping them) while a third is well ahead:
        # audits that are possible although some outcome suffixes have no assertion of their own
        a, b = rng.sample(range(n), 2)
        sw = {a: b, b: a}
        rest = [c for c in range(n) if c not in (a, b)]
        fav = rng.choice(rest) if rest else a
        for _ in range(max(1, nb // 4)):
            x = rand_ballot(rng, n)
            add(x)
            add(tuple(sw.get(c, c) for c in x))
        for _ in range(rng.randint(1, 3)):
            x = (fav,) + tuple(rng.sample([d for d in range(n) if d != fav], rng.randint(0, n - 1)))
            k = rng.randint(1, max(1, nb // 6))
            add(x, k)
            add(tuple(sw.get(c, c) for c in x), k)
    elif style == "spatial":
        # voters and candidates on a line, ballots rank by distance, truncated at random
        pos = [rng.random() for _ in range(n)]
        for _ in range(nb):
            v = rng.random()
            full = sorted(range(n), key=lambda c: abs(pos[c] - v))
            add(tuple(full[:rng.randint(1, n)]) if rng.random() < 0.5 else tuple(full))
    elif style == "ladder":
        # a clear elimination order (tallies roughly doubling) with transfers going in random directions
        perm = rng.sample(range(n), n)
        for i, c in enumerate(perm):
            k = max(1, (2 ** i) * max(1, nb // (2 ** n)) + rng.randint(-1, 1))
            for _ in range(rng.randint(1, 3)):
                add((c,) + tuple(rng.sample([d for d in range(n) if d != c], rng.randint(0, n - 1))), max(1, k // 2))
    elif style == "close":
        base = max(1, nb // n)
        for c in range(n):
            add((c,) + tuple(rng.sample([d for d in range(n) if d != c], rng.randint(0, n - 1))), base + rng.randint(0, 1))
        for _ in range(rng.randint(0, 3)):
            add(rand_ballot(rng, n))
    elif style == "dominant":
        c = rng.randrange(n)
        add((c,) + tuple(rng.sample([d for d in range(n) if d != c], rng.randint(0, n - 1))), nb // 2 + 1)
        for _ in range(nb // 2):
            add(rand_ballot(rng, n))
    elif style == "blank":
        add((), rng.randint(1, nb))
        for _ in range(rng.randint(0, 6)):
            add(rand_ballot(rng, n, full_p=0.1))
    elif style == "tiny":
        for _ in range(rng.randint(1, 4)):
            add(rand_ballot(rng, n))
    else:  # Condorcet-style cycle with small perturbation
        k = rng.randint(1, max(1, nb // n))
        for s in range(n):
            add(tuple((s + j) % n for j in range(n)), k + (rng.randint(0, 1) if rng.random() < 0.5 else 0))
    tl = sorted(types.items())
    # cap at maxb ballots
    total = sum(k for _, k in tl)
    while total > maxb:
        i = rng.randrange(len(tl))
        b, k = tl[i]
        cut = min(k, total - maxb)
        tl[i] = (b, k - cut)
        total -= cut
    tl = [(b, k) for b, k in tl if k > 0]
    if not tl:
        tl = [((0,), 1)]
    return tl, style


def pick_n(rng):
    return rng.choice([2, 3, 3, 4, 4, 4, 5, 5, 5, 5, 5, 6])


def gen_case(rng, n=None, maxb=60):
    n = n or pick_n(rng)
    types, style = gen_profile(rng, n, maxb)
    nocontest = rng.randint(1, 3) if rng.random() < 0.2 else 0
    nb = sum(k for _, k in types) + nocontest
    tot = nb + (rng.randint(1, 10) if rng.random() < 0.25 else 0)
    bt = list(types) + ([((), nocontest)] if nocontest else [])
    orders = irv_orders(n, bt, limit=200)
    winners = sorted({o[-1] for o in orders})
    r = rng.random()
    if r < 0.6:
        winner, wk = rng.choice(winners), ("right" if len(winners) == 1 else "tied")
    else:
        winner = rng.randrange(n)
        wk = ("right" if winners == [winner] else "tied" if winner in winners else "wrong")
    r = rng.random()
    if r < 0.4:
        order, ok = None, "none"
    elif r < 0.6:
        cand = [o for o in orders if o[-1] == winner]
        order, ok = (list(rng.choice(cand)), "true") if cand else (list(rng.choice(orders)), "other-count")
    elif r < 0.8:
        order, ok = rng.sample(range(n), n), "random"
    elif r < 0.9:
        order, ok = list(reversed(rng.choice(orders))), "reversed"
    else:
        order, ok = list(range(n)), "identity"
    return gen_before(rng, {"n": n, "names": rng.choice(NAME_SCHEMES)(n), "types": types, "nocontest": nocontest, "tot": tot,
            "winner": winner, "bp": rng.random() < 0.5, "exact": rng.random() < 0.5, "order": order,
            "second": rng.random() < 0.1, "log": rng.random() < 0.03,
            "rankrep": "int" if rng.random() < 0.5 else rng.choice(RANK_REPS[1:]), "cwinner": gen_cwinner(rng, n, winner, winners), "tag": f"{style}/{wk}/hint-{ok}",
            "possible_winners": winners})


def gen_before(rng, case, force=False):
    """Attach a sequence of earlier calls (and a second IRV contest on the same cards) to a case."""
    n = case["n"]
    if not force and rng.random() >= 0.2:
        return case
    if rng.random() < 0.6:
        case["c2types"] = gen_profile(rng, n, maxb=max(1, sum(k for _, k in case["types"])))[0]
    seq = []
    for _ in range(rng.randint(1, 3)):
        k = rng.choice(["other_cvrs", "other_cvrs", "other_fn", "other_winner", "same_contest", "same_contest", "same_dict"]
                       + (["other_contest"] * 2 if case.get("c2types") else []))
        if k in ("other_cvrs", "same_contest", "same_dict"):
            t2, _ = gen_profile(rng, n, maxb=30)
            seq.append({"kind": k, "types": t2, "tot": sum(kk for _, kk in t2) + (rng.randint(1, 10) if rng.random() < 0.3 else 0),
                        "winner": rng.randrange(n), "bp": rng.random() < 0.5})
        elif k == "other_fn":
            seq.append({"kind": k})
        elif k == "other_winner":
            seq.append({"kind": k, "winner": rng.randrange(n)})
        else:
            seq.append({"kind": k, "winner": rng.randrange(n), "bp": rng.random() < 0.5})
    case["before"] = seq
    case["tag"] = case["tag"] + "/seq"
    return case


def sequence_cases(rng, k):
    """Cases that are each a sequence of calls in one process; run FIRST, so that a failure of the first of them is
    reproducible from its own replay (fresh process, same sequence)."""
    return [gen_before(rng, gen_case(rng, n=rng.choice([3, 4, 4, 5])), force=True) for _ in range(k)]


def large_case(rng):
    """10 000 - 30 000 ballots from a handful of ballot types, 3-4 candidates, with one- or two-vote margins in the
    final round and at the elimination(s) before it (so an NEN with a tiny margin is needed)."""
    n = rng.choice([3, 3, 4])
    role = rng.sample(range(n), n)            # role[0] wins, role[1] is runner-up, role[2] goes out before, role[3] first
    W, R1, E1 = role[0], role[1], role[2]
    N = rng.randint(12000, 35000)
    m_final, m_elim = rng.choice([1, 2]), rng.choice([1, 2])
    types = {}

    def add(b, k):
        if k > 0:
            types[tuple(b)] = types.get(tuple(b), 0) + k

    # E1 has e votes, R1 has e + m_elim first preferences; E1's ballots split between W and R1 (and exhaust)
    e = N // 4
    r1 = e + m_elim
    t_w, t_r = e // 3 + rng.randint(0, 50), e // 3 + rng.randint(0, 50)
    w0 = r1 + t_r + m_final - t_w          # final round: w0 + t_w = r1 + t_r + m_final
    add([W, R1] if rng.random() < 0.5 else [W], w0 // 2)
    add([W, E1, R1], w0 - w0 // 2)
    add([R1, W, E1], r1 // 2)
    add([R1], r1 - r1 // 2)
    add([E1, W, R1], t_w)
    add([E1, R1], t_r)
    add([E1], e - t_w - t_r)
    if n == 4:
        E0 = role[3]
        m0 = rng.choice([1, 2])
        # E0 is eliminated first, m0 votes below E1; its ballots exhaust (or, sometimes, a few name W last)
        f = e - m0
        g = rng.randint(0, 3)
        add([E0], f - g)
        add([E0, W], g)
        if g:                              # keep the final-round margin: give R1 the same number
            add([R1], g)
    if rng.random() < 0.3:
        add([], rng.randint(1, 500))
    tl = sorted(types.items())
    nb = sum(k for _, k in tl)
    bt = list(tl)
    orders = irv_orders(n, bt, limit=50)
    winners = sorted({o[-1] for o in orders})
    winner = winners[0] if rng.random() < 0.85 else rng.randrange(n)
    hint = None if rng.random() < 0.5 else list(rng.choice(orders))
    return {"n": n, "names": rng.choice(NAME_SCHEMES)(n), "types": tl, "nocontest": 0,
            "tot": nb + (rng.randint(1, 100) if rng.random() < 0.3 else 0), "winner": winner,
            "bp": rng.random() < 0.5, "exact": rng.random() < 0.5, "order": hint, "second": False, "log": False,
            "rankrep": rng.choice(RANK_REPS), "cwinner": gen_cwinner(rng, n, winner, winners),
            "tag": f"large/{'right' if winners == [winner] else 'tied' if winner in winners else 'wrong'}/hint-{'true' if hint else 'none'}",
            "possible_winners": winners}


def multisets(items, k):
    return itertools.combinations_with_replacement(items, k)


def exhaustive_cases(max_c=3, max_b=4, winners="all", dfuns=(False, True), hints=(None,)):
    """All profiles (multisets of partial rankings) of 2..max_c candidates and 1..max_b ballots."""
    cases = []
    for n in range(2, max_c + 1):
        bl = all_ballots(n)
        for nb in range(1, max_b + 1):
            for ms in multisets(bl, nb):
                types = {}
                for b in ms:
                    types[b] = types.get(b, 0) + 1
                tl = sorted(types.items())
                for w in (range(n) if winners == "all" else [0]):
                    for bp in dfuns:
                        for h in hints:
                            k = len(cases)
                            scheme = NAME_SCHEMES[0] if k % 3 else NAME_SCHEMES[AWKWARD[(k // 3) % len(AWKWARD)]]
                            rep = RANK_REPS[(k // 4) % len(RANK_REPS)] if k % 4 == 1 else "int"
                            cw = "same" if k % 5 else ("none" if (k // 5) % 3 == 0 else (w + 1 + (k // 15) % (n - 1)) % n)
                            cases.append({"n": n, "names": scheme(n), "types": tl, "nocontest": 0, "tot": nb, "rankrep": rep, "cwinner": cw,
                                          "winner": w, "bp": bp, "exact": True, "order": h(n) if h else None,
                                          "second": False, "tag": "exhaustive"})
    return cases


PREV = {"case": None}       # the case run just before in this process (recorded so that a leak between calls can be replayed)
BUDGET = {"left": None}     # seconds of implementation time left for this check (set by c04.run / c15.run)


def run_cases(cases, rng=None):
    """Run the implementation on every case.  The whole check has a budget of implementation time: a change that
    makes every call slower and slower (state accumulating across calls) must not stall it; the cases left over are
    marked as not run, which breaks the correspondence (fail closed) without claiming that they fail."""
    for c in cases:
        if BUDGET["left"] is not None and BUDGET["left"] <= 0:
            c["impl"] = {"out": None, "exc": "ImplTimeout: skipped: implementation time budget of this check exhausted",
                         "objs": None, "cvrs": {}, "position_in_process": CALLS["n"]}
            continue
        t0 = time.time()
        c["prev"] = PREV["case"]
        c["impl"] = run_impl(c, rng)
        PREV["case"] = c
        if BUDGET["left"] is not None:
            BUDGET["left"] -= time.time() - t0
    return cases


# ---------------------------------------------------------------- Coq literals
def nlit(n):
    """nat literal; large ones go through Z (no big unary literals in the case files)"""
    n = int(n)
    return str(n) if n <= 4000 else f"(Z.to_nat {n}%Z)"


def alit(kind, w, l, elim):
    if kind == "NEB":
        return f"NEB {w} {l}"
    return f"NEN {w} {l} {C.listlit([str(c) for c in elim])}"


def types_lit(bt):
    return C.listlit([f"({C.listlit([str(c) for c in b])}, {nlit(k)})" for b, k in bt])


def case_lit(case):
    o = case["impl"]
    if o["out"] is None:
        out = "Malformed"
    else:
        out = "(Returned " + C.listlit([f"({alit(k, w, l, e)}, {nlit(vw)}, {nlit(vl)}, {C.qlit(d)})"
                                        for k, w, l, e, vw, vl, d in o["out"]]) + ")"
    return (f"mkrc {C.listlit([str(i) for i in range(case['n'])])} {types_lit(ballots_of(case))} {nlit(case['tot'])} "
            f"{case['winner']} {C.blit(case['bp'])} {C.blit(case['exact'])} {out}")


def inputs_json(case):
    return {"candidates": C.jsonable(case["names"]), "ballot_types(indices into candidates, multiplicity)":
            [[list(b), k] for b, k in case["types"]], "cvrs_without_contest": case.get("nocontest", 0),
            "tot_ballots": case["tot"], "winner_index": case["winner"], "asn_func": ("bp" if case["bp"] else "cp") +
            ("_fraction" if case["exact"] else "_estimate"), "order_hint": case.get("order"),
            "rank_representation": case.get("rankrep") or "int"}


def algo_lit(case):
    """(case, order hint) for Run_Raire.agree_algo"""
    return f"({case_lit(case)}, {C.listlit([str(x) for x in (case.get('order') or [])])})"


def algo_cases(cases, rng=None):
    """The stream compared output-for-output with the model of the search (RaireAlgo.raire): every case that was run
    with the Fraction-valued difficulty function, plus an exact re-run of the ones that used the float functions."""
    out = []
    for c in cases:
        if c["exact"]:
            out.append(c)
        else:
            c2 = dict(c, exact=True, tag=(c.get("tag") or "") + "/exact-rerun")
            c2.pop("impl", None)
            out.append(c2)
    run_cases([c for c in out if "impl" not in c], rng)
    return out


def case_json(case):
    o = case["impl"]
    prev = case.get("prev")
    return {"previous_call_in_this_process": inputs_json(prev) if prev is not None else None,
            "candidates": C.jsonable(case["names"]), "ballot_types(indices into candidates, multiplicity)":
            [[list(b), k] for b, k in case["types"]], "cvrs_without_contest": case.get("nocontest", 0),
            "tot_ballots": case["tot"], "winner_index": case["winner"], "asn_func": ("bp" if case["bp"] else "cp") +
            ("_fraction" if case["exact"] else "_estimate"), "order_hint": case.get("order"),
            "second_call_on_same_objects": case.get("second", False), "log": case.get("log", False), "tag": case.get("tag"),
            "rank_representation": case.get("rankrep") or "int", "winner_recorded_in_Contest_object": case.get("cwinner", "same"),
            "calls_before_in_same_process": C.jsonable(case.get("before")), "second_contest_c2_on_same_cards": C.jsonable(case.get("c2types")),
            "cases_run_earlier_in_this_process": o.get("position_in_process"),
            "impl_output": C.jsonable(o["out"]), "impl_exc": o["exc"]}


def case_from_json(j):
    """Inverse of case_json (for ./check Cxx quick --replay file): rebuilds the inputs; the implementation is re-run."""
    names = j["candidates"]
    fn = j["asn_func"]
    return {"n": len(names), "names": names,
            "types": [(tuple(b), k) for b, k in j["ballot_types(indices into candidates, multiplicity)"]],
            "nocontest": j.get("cvrs_without_contest", 0), "tot": j["tot_ballots"], "winner": j["winner_index"],
            "bp": fn.startswith("bp"), "exact": fn.endswith("_fraction"), "order": j.get("order_hint"),
            "second": j.get("second_call_on_same_objects", False), "log": j.get("log", False),
            "rankrep": j.get("rank_representation") or "int", "cwinner": j.get("winner_recorded_in_Contest_object", "same"),
            "before": [dict(b, types=[(tuple(x), k) for x, k in b["types"]]) if "types" in b else b
                       for b in (j.get("calls_before_in_same_process") or [])] or None,
            "c2types": [(tuple(x), k) for x, k in (j.get("second_contest_c2_on_same_cards") or [])] or None, "tag": "replay/" + "/".join((j.get("tag") or "").split("/")[1:])}


def with_prev(j):
    c = case_from_json(j)
    pj = j.get("previous_call_in_this_process")
    if pj:
        c["before"] = [{"kind": "case", "case": case_from_json(pj)}] + (c["before"] or [])
    return c


def replay_cases(ctx):
    """The cases named by a replay file (failing-input or first disagreeing case), or None."""
    rp = getattr(ctx, "replay", None)
    if not rp:
        return None
    js = []
    if isinstance(rp.get("violation"), dict) and isinstance(rp["violation"].get("input"), dict):
        js.append(rp["violation"]["input"])
    for b in rp.get("no_longer_checks", []) + rp.get("broken_ties", []):
        if isinstance(b, dict) and isinstance(b.get("first_case"), dict):
            js.append(b["first_case"])
    return [with_prev(j) for j in js if "candidates" in j] or None


def digest(case):
    return repr((case["n"], case["types"], case.get("nocontest", 0), case["tot"], case["winner"], case["bp"],
                 case["order"]))


# ---------------------------------------------------------------- oracles on the implementation alone
def close(a, b, exact):
    if exact:
        return a == b
    a, b = float(a), float(b)
    return abs(a - b) <= 1e-9 * max(abs(a), abs(b), 1e-300)


def failure_kind(o):
    e = o["exc"] or ""
    if e.startswith("ImplTimeout"):
        return "call did not return within 20 s"
    return e.split(":")[0][:60]


def oracle_c04(case, want_brute=True):
    """C04 evaluated by brute force on the implementation's output.  Returns a list of short violation strings."""
    o, n, w = case["impl"], case["n"], case["winner"]
    bt = ballots_of(case)
    if o["out"] is None:
        if (o["exc"] or "").startswith("ImplTimeout: skipped"):
            return []          # not run (earlier calls did not terminate): no verdict on this input; the tie reports it
        return [f"no assertion list returned for a valid contest ({failure_kind(o)})"]
    bad = []
    out = o["out"]
    if out:
        for (kind, aw, al, elim, vw, vl, d), obj in zip(out, o["objs"]):
            # re-tally through the returned object's own predicates, on the CVRs the code was given
            try:
                rw = sum(obj.is_vote_for_winner(r) for r in o["cvrs"].values())
                rl = sum(obj.is_vote_for_loser(r) for r in o["cvrs"].values())
            except Exception as e:  # noqa
                bad.append(f"{kind}: re-tallying through the assertion's own predicates raises {type(e).__name__}")
                continue
            if (rw, rl) != (vw, vl):
                bad.append(f"{kind}: reported tallies differ from the assertion's own predicates summed over the CVRs")
            tw, tl = py_tally((kind, aw, al, elim), bt)
            if (tw, tl) != (vw, vl):
                bad.append(f"{kind}: reported tallies differ from the tallies of the CVRs")
            if not vw > vl:
                bad.append(f"{kind}: reported winner tally not strictly larger")
            if kind == "NEN" and (al in elim or al == aw):
                bad.append("NEN: loser is eliminated or equals winner")
        asr = [(k, aw, al, e) for k, aw, al, e, _, _, _ in out]
        for order in alt_orders(n, w):
            if not any(py_contradicts(a, order) for a in asr):
                bad.append("an elimination order ending in another candidate is contradicted by no returned assertion")
                break
        pw = case.get("possible_winners")
        if pw is None:
            pw = sorted({x[-1] for x in irv_orders(n, bt, limit=500)})
        if pw != [w]:
            bad.append("non-empty output although the reported winner is not the unique possible IRV winner")
    elif want_brute:
        poss, _ = brute(n, bt, case["tot"], w, case["bp"])
        if poss:
            bad.append("empty list although a sufficient set of true assertions exists")
    return bad


def oracle_c15(case):
    """C15: largest returned difficulty vs brute-force minimax over all n! orders and all true assertions."""
    o = case["impl"]
    if o["out"] is None and not (o["exc"] or "").startswith("ImplTimeout: skipped"):
        # raised / did not return / returned something else: a violation of C15 when an audit is possible
        poss, _ = brute(case["n"], ballots_of(case), case["tot"], case["winner"], case["bp"])
        return [f"no assertion list returned although an audit is possible ({failure_kind(o)})"] if poss else []
    if not o["out"]:
        return []
    poss, best = brute(case["n"], ballots_of(case), case["tot"], case["winner"], case["bp"])
    if not poss:
        return []          # C04's business
    got = max(d for *_, d in o["out"])
    if close(got, best, case["exact"]):
        return []
    return ["largest returned difficulty exceeds the least achievable" if float(got) > float(best)
            else "largest returned difficulty is below the least achievable (an assertion reports a wrong difficulty or is untrue)"]


def stats(cases):
    st = {}

    def inc(k):
        st[k] = st.get(k, 0) + 1

    for c in cases:
        inc(f"candidates={c['n']}")
        out = c["impl"]["out"]
        inc("malformed/raised" if out is None else "empty output" if not out else "non-empty output")
        if out:
            inc("has NEB" if any(k == "NEB" for k, *_ in out) else "no NEB")
            inc("has NEN" if any(k == "NEN" for k, *_ in out) else "no NEN")
        for part in (c.get("tag") or "").split("/")[1:]:
            inc(part)
        inc(("bp" if c["bp"] else "cp") + ("/fraction" if c["exact"] else "/float"))
        if c.get("second"):
            inc("second call on the same Contest/cvrs")
        if c.get("log"):
            inc("log=True")
        inc("ranks as " + (c.get("rankrep") or "int"))
        if c.get("cwinner", "same") != "same":
            inc("Contest object records another winner" if c["cwinner"] != "none" else "Contest object records winner None")
        for b in c.get("before") or []:
            inc("preceded in-process by " + b["kind"])
        if c.get("c2types"):
            inc("second IRV contest on the same cards")
        if c.get("nocontest"):
            inc("CVRs lacking the contest")
        if c["tot"] > sum(k for _, k in c["types"]) + c.get("nocontest", 0):
            inc("tot_ballots > CVRs")
    return st
