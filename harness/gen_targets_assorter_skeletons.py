"""Whole-function regenerated ties for the functions property C02 is anchored in (shangrla/core/Audit.py):
CVR.as_vote, CVR.get_vote_for, CVR.has_one_vote, Assertion.make_plurality_assertions,
Assertion.make_supermajority_assertion, Contest.tally, Assertion.find_margin_from_tally.
Every statement of each function must match its exact text below (or be translated arithmetic); otherwise the
translator refuses and every lemma of coq/gen/GenProofs_assorter_skeletons.v counts as a broken obligation.
The `tail`s are the line-by-line Gallina reading of the exact-text lines; the lemma file proves them equal to the
hand model (Ballot.v / Assorter.v) by reflexivity."""

GROUP = "assorter_skeletons"
HEADER = "From SV Require Import Assorter.\n"
AUDIT = "shangrla/core/Audit.py"

TAIL_AS_VOTE = """Definition gen_as_vote_tail (bool_v : bool) : Z :=
  if bool_v then 1%Z else 0%Z.                                                      (* return int(bool(v)) *)
"""
TAIL_GVF = """Definition gen_gvf_tail (votes : list (contest_id * votes_t)) (contest_id0 : contest_id) (candidate : cand) : mark :=
  match assoc contest_id0 votes with
  | None => MBool false                                                              (* False if contest_id not in self.votes *)
  | Some vs => match assoc candidate vs with
               | None => MBool false                                                 (*   or candidate not in self.votes[contest_id] *)
               | Some m => m                                                         (* else self.votes[contest_id][candidate] *)
               end
  end.
"""
TAIL_HOV = """Definition gen_hov_tail (votes : list (contest_id * votes_t)) (contest_id0 : contest_id) (candidates : list cand) : bool :=
  let v := zsum (map (fun c =>                                                       (* v = np.sum([ ... for c in candidates]) *)
                        match assoc contest_id0 votes with
                        | None => 0%Z                                                (* 0 if contest_id not in self.votes *)
                        | Some vs => match assoc c vs with
                                     | None => 0%Z                                   (*   or c not in self.votes[contest_id] *)
                                     | Some m => if truthy m then 1%Z else 0%Z       (* else bool(self.votes[contest_id][c]) *)
                                     end
                        end) candidates) in
  if (v =? 1)%Z then true else false.                                                (* return True if v == 1 else False *)
"""
TAIL_MPA = """(* the lambda handed to Assorter, as a function of the two vote values as_vote(get_vote_for(contest.id, winr / losr)) *)
Definition gen_mpa_assort (vw vl : Z) : Q :=
  inject_Z (vw - vl + 1) / 2.                          (* (CVR.as_vote(..winr)) - CVR.as_vote(..losr)) + 1) / 2 *)
Definition gen_mpa_upper_bound : Q := 1.               (* upper_bound=1 *)
Definition gen_mpa_pairs (winner loser : list cand) : list (cand * cand) :=
  flat_map (fun winr =>                                (* for winr in winner: *)
              map (fun losr => (winr, losr)) loser)    (*     for losr in loser: assertions[winr + ' v ' + losr] = Assertion(.., winner=winr, loser=losr, ..) *)
           winner.
"""
TAIL_MSA = """Definition gen_msa_cands (winner : cand) (loser : list cand) : list cand :=
  let cands := loser in                                (* cands = loser.copy() *)
  cands ++ [winner].                                   (* cands.append(winner) *)
(* the lambda handed to Assorter, as a function of c.has_one_vote(contest.id, cands) and as_vote(get_vote_for(contest.id, winner)) *)
Definition gen_msa_assort (share_to_win : Q) (has_one : bool) (vw : Z) : Q :=
  if has_one then inject_Z vw / (2 * share_to_win)     (* CVR.as_vote(..winner)) / (2 * contest.share_to_win) if c.has_one_vote(contest.id, cands) *)
  else 1 # 2.                                          (* else 1 / 2 *)
Definition gen_msa_upper_bound (share_to_win : Q) : Q :=
  1 / (2 * share_to_win).                              (* upper_bound=1 / (2 * contest.share_to_win) *)
"""
TAIL_TALLY = """(* one contest c of `cons` (the contests are independent of one another), c.tally starting from defaultdict(int) *)
Definition gen_tally_card (enforce_rules : bool) (n_winners : Z) (c_id : contest_id) (cvr : card) (tally : list (Z * Z)) : list (Z * Z) :=
  match assoc c_id (c_votes cvr) with
  | None => tally                                                                   (* if cvr.has_contest(c.id): *)
  | Some vs =>
      let n_votes := zsum (map (fun cv : cand * mark =>                             (* n_votes = 0; for candidate, vote in ...items(): *)
                                  if negb (fst cv =? 0)%Z                           (*     if candidate: *)
                                  then (if truthy (snd cv) then 1 else 0)%Z         (*         n_votes += int(bool(vote)) *)
                                  else 0%Z) vs) in
      if negb enforce_rules || (n_votes <=? n_winners)%Z                            (* if not enforce_rules or n_votes <= c.n_winners: *)
      then fold_left (fun t (cv : cand * mark) =>                                   (*     for candidate, vote in ...items(): *)
                        if negb (fst cv =? 0)%Z                                     (*         if candidate: *)
                        then bump (fst cv) (if truthy (snd cv) then 1 else 0)%Z t   (*             c.tally[candidate] += int(bool(vote)) *)
                        else t) vs tally
      else tally
  end.
Definition gen_tally_tail (enforce_rules : bool) (n_winners : Z) (c_id : contest_id) (cvr_list : list card) : list (Z * Z) :=
  fold_left (fun tally cvr => gen_tally_card enforce_rules n_winners c_id cvr tally) cvr_list [].   (* for cvr in cvr_list: for c in cons: *)
"""
TAIL_FMT = """Definition gen_fmt_tail (tally0 contest_tally : option tally_dict) (choice_function : scf) (winner loser : cand)
    (cards : Z) (share_to_win : Q) (candidates : list cand) : res :=
  let tally := match tally0 with                                                    (* tally = tally if tally else self.contest.tally *)
               | Some t => match t_items t with [] => contest_tally | _ => Some t end
               | None => contest_tally
               end in
  match choice_function with
  | PLURALITY | APPROVAL =>                                                         (* if choice_function == PLURALITY or == APPROVAL: *)
      match tally with
      | None => Err TypeError
      | Some t =>
          match tget t winner, tget t loser with                                    (* tally[self.winner], tally[self.loser] *)
          | Some tw, Some tl =>
              if (cards =? 0)%Z then Err ZeroDivisionError                          (* Python ints: x / 0 raises *)
              else Val (Fin (inject_Z (tw - tl) / inject_Z cards))                  (* self.margin = (tw - tl) / self.contest.cards  [gen_fmt_pl] *)
          | _, _ => Err KeyError
          end
      end
  | SUPERMAJORITY =>                                                                (* elif choice_function == SUPERMAJORITY: *)
      if (winner =? NO_CANDIDATE)%Z || negb (loser =? ALL_OTHERS)%Z                 (* if winner == NO_CANDIDATE or loser != ALL_OTHERS: *)
      then Err NotImplementedError                                                  (*     raise NotImplementedError *)
      else
        match tally with
        | None => Err TypeError
        | Some t =>
            match tsum t candidates with                                            (* valid = np.sum([tally[c] for c in self.contest.candidates]) *)
            | None => Err KeyError
            | Some valid =>
                let q := xdiv (zq valid) (zq cards) in                              (* q = valid / self.contest.cards  [gen_fmt_q] *)
                if (valid =? 0)%Z
                then Val (xmul q (xsub (xdiv (Fin 0) (Fin share_to_win)) (Fin 1)))  (* p = ... if valid else 0  [gen_fmt_p] *)
                else match tget t winner with
                     | None => Err KeyError
                     | Some tw =>
                         let p := xdiv (zq tw) (zq valid) in                        (* p = tally[self.winner] / valid *)
                         Val (xmul q (xsub (xdiv p (Fin share_to_win)) (Fin 1)))    (* self.margin = q * (p / share_to_win - 1)  [gen_fmt_sm] *)
                     end
            end
        end
  | IRV => Err NotImplementedError                                                  (* else: raise NotImplementedError *)
  end.
"""

TAIL_MAA = """(* one contest `con` of the loop `for c, con in contests.items()` (the contests are independent of one another) *)
(* losrs = list(set(con.candidates) - set(winrs)): the order of a Python set is unspecified; this is the enumeration in
   candidate order, and gen_maa_losers_spec (lemma file) is the order-free fact every enumeration shares *)
Definition gen_maa_losers (candidates winrs : list cand) : list cand :=
  filter (fun c => negb (existsb (Z.eqb c) winrs)) (nodup Z.eq_dec candidates).
Inductive maa_made :=
| MAA_plurality (pairs : list (cand * cand))                  (* Assertion.make_plurality_assertions(contest=con, winner=winrs, loser=losrs, ...) *)
| MAA_supermajority (w : option cand) (cands : list cand) (share_to_win : Q)
                                                              (* Assertion.make_supermajority_assertion(contest=con, winner=winrs[0], loser=losrs, share_to_win=con.share_to_win, ...) *)
| MAA_from_json                                               (* Assertion.make_assertions_from_json(contest=con, candidates=con.candidates, json_assertions=con.assertion_json, ...) *)
| MAA_not_implemented.                                        (* raise NotImplementedError *)
Definition gen_maa_tail (choice_function : scf) (candidates winrs : list cand) (share_to_win : Q) : maa_made :=
  let losrs := gen_maa_losers candidates winrs in             (* winrs = con.winner; losrs = list(set(con.candidates) - set(winrs)) *)
  match choice_function with
  | PLURALITY => MAA_plurality (gen_mpa_pairs winrs losrs)    (* if scf == PLURALITY *)
  | SUPERMAJORITY =>                                          (* elif scf == SUPERMAJORITY; winrs[0] raises IndexError on an empty list *)
      MAA_supermajority (hd_error winrs)
        (match hd_error winrs with Some w => gen_msa_cands w losrs | None => [] end) share_to_win
  | IRV => MAA_from_json                                      (* elif scf == IRV *)
  | APPROVAL => MAA_not_implemented                           (* else: raise NotImplementedError *)
  end.
"""

PL_TEST = ("self.contest.choice_function == Contest.SOCIAL_CHOICE_FUNCTION.PLURALITY or "
           "self.contest.choice_function == Contest.SOCIAL_CHOICE_FUNCTION.APPROVAL")

TARGETS = [
    dict(name="as_vote", kind="skeleton", file=AUDIT, func="CVR.as_vote",
         skeleton=[("text", "return int(bool(v))")], tail=TAIL_AS_VOTE),
    dict(name="gvf", kind="skeleton", file=AUDIT, func="CVR.get_vote_for",
         skeleton=[("text", "return False if contest_id not in self.votes or candidate not in self.votes[contest_id] "
                            "else self.votes[contest_id][candidate]")], tail=TAIL_GVF),
    dict(name="hov", kind="skeleton", file=AUDIT, func="CVR.has_one_vote",
         skeleton=[("text", "v = np.sum([0 if contest_id not in self.votes or c not in self.votes[contest_id] "
                            "else bool(self.votes[contest_id][c]) for c in candidates])"),
                   ("text", "return True if v == 1 else False")], tail=TAIL_HOV),
    dict(name="mpa", kind="skeleton", file=AUDIT, func="Assertion.make_plurality_assertions",
         skeleton=[("text", "assertions = {}"),
                   ("text", "test = test if test is not None else contest.test"),
                   ("text", "estim = estim if estim is not None else contest.estim"),
                   ("text", "bet = bet if bet is not None else contest.bet"),
                   ("for", "winr in winner"), ("for", "losr in loser"),
                   ("text", "wl_pair = winr + ' v ' + losr"),
                   ("text", "_test = NonnegMean(test=test, estim=estim, bet=bet, g=contest.g, u=1, N=contest.cards, "
                            "t=1 / 2, random_order=True, **test_kwargs)"),
                   ("text", "assertions[wl_pair] = Assertion(contest, winner=winr, loser=losr, assorter=Assorter("
                            "contest=contest, assort=lambda c, contest_id=contest.id, winr=winr, losr=losr: "
                            "(CVR.as_vote(c.get_vote_for(contest.id, winr)) - CVR.as_vote(c.get_vote_for(contest.id, losr)) + 1) / 2, "
                            "upper_bound=1), test=_test)"),
                   ("endfor",), ("endfor",),
                   ("text", "return assertions")], tail=TAIL_MPA),
    dict(name="msa", kind="skeleton", file=AUDIT, func="Assertion.make_supermajority_assertion",
         skeleton=[("text", "assertions = {}"),
                   ("text", "wl_pair = winner + ' v ' + Contest.CANDIDATES.ALL_OTHERS"),
                   ("text", "cands = loser.copy()"), ("text", "cands.append(winner)"),
                   ("text", "_test = NonnegMean(test=test, estim=estim, bet=bet, u=1 / (2 * contest.share_to_win), "
                            "N=contest.cards, t=1 / 2, random_order=True, **test_kwargs)"),
                   ("text", "assertions[wl_pair] = Assertion(contest, winner=winner, loser=Contest.CANDIDATES.ALL_OTHERS, "
                            "assorter=Assorter(contest=contest, assort=lambda c, contest_id=contest.id: "
                            "CVR.as_vote(c.get_vote_for(contest.id, winner)) / (2 * contest.share_to_win) "
                            "if c.has_one_vote(contest.id, cands) else 1 / 2, "
                            "upper_bound=1 / (2 * contest.share_to_win)), test=_test, estim=estim, bet=bet, test_kwargs=test_kwargs)"),
                   ("text", "return assertions")], tail=TAIL_MSA),
    dict(name="tally", kind="skeleton", file=AUDIT, func="Contest.tally",
         skeleton=[("text", "tallies = {}"), ("text", "cons = []"),
                   ("for", "(id, c) in con_dict.items()"),
                   ("text", "if c.choice_function in [Contest.SOCIAL_CHOICE_FUNCTION.PLURALITY, "
                            "Contest.SOCIAL_CHOICE_FUNCTION.SUPERMAJORITY, Contest.SOCIAL_CHOICE_FUNCTION.APPROVAL]:\n"
                            "    cons.append(c)\n    c.tally = defaultdict(int)\nelse:\n"
                            "    warnings.warn(f'contest {c.id} ({c.name}) has social choice function ' + "
                            "f'{c.choice_function}: not tabulated')"),
                   ("endfor",),
                   ("for", "cvr in cvr_list"), ("for", "c in cons"),
                   ("text", "if cvr.has_contest(c.id):\n    if enforce_rules:\n        n_votes = 0\n"
                            "        for candidate, vote in cvr.votes[c.id].items():\n            if candidate:\n"
                            "                n_votes += int(bool(vote))\n"
                            "    if not enforce_rules or n_votes <= c.n_winners:\n"
                            "        for candidate, vote in cvr.votes[c.id].items():\n            if candidate:\n"
                            "                c.tally[candidate] += int(bool(vote))"),
                   ("endfor",), ("endfor",)], tail=TAIL_TALLY),
    dict(name="fmt", kind="skeleton", file=AUDIT, func="Assertion.find_margin_from_tally",
         skeleton=[("text", "tally = tally if tally else self.contest.tally"),
                   ("if", PL_TEST),
                   ("expr", "self.margin", "pl", ["tw", "tl", "cards"],
                    {"tally[self.winner]": "tw", "tally[self.loser]": "tl", "self.contest.cards": "cards"}),
                   ("else",),
                   ("if", "self.contest.choice_function == Contest.SOCIAL_CHOICE_FUNCTION.SUPERMAJORITY"),
                   ("if", "self.winner == Contest.CANDIDATES.NO_CANDIDATE or self.loser != Contest.CANDIDATES.ALL_OTHERS"),
                   ("text", "raise NotImplementedError(f'TO DO: currently only support super-majority with a winner')"),
                   ("else",),
                   ("text", "valid = np.sum([tally[c] for c in self.contest.candidates])"),
                   ("expr", "q", "q", ["valid", "cards"], {"self.contest.cards": "cards"}),
                   ("expr", "p", "p", ["tw", "valid"], {"tally[self.winner]": "tw"}),
                   ("expr", "self.margin", "sm", ["q", "p", "f"], {"self.contest.share_to_win": "f"}),
                   ("endif",),
                   ("else",),
                   ("text", "raise NotImplementedError(f'social choice function {self.contest.choice_function} not supported')"),
                   ("endif",), ("endif",)], tail=TAIL_FMT),
    dict(name="maa", kind="skeleton", file=AUDIT, func="Assertion.make_all_assertions",
         skeleton=[("for", "(c, con) in contests.items()"),
                   ("text", "scf = con.choice_function"),
                   ("text", "winrs = con.winner"),
                   ("text", "losrs = list(set(con.candidates) - set(winrs))"),
                   ("text", "test = con.test"),
                   ("text", "test_kwargs = con.test_kwargs"),
                   ("text", "estim = con.estim"),
                   ("text", "bet = con.bet"),
                   ("if", "scf == Contest.SOCIAL_CHOICE_FUNCTION.PLURALITY"),
                   ("text", "contests[c].assertions = Assertion.make_plurality_assertions(contest=con, winner=winrs, "
                            "loser=losrs, test=test, test_kwargs=test_kwargs, estim=estim, bet=bet)"),
                   ("else",),
                   ("if", "scf == Contest.SOCIAL_CHOICE_FUNCTION.SUPERMAJORITY"),
                   ("text", "contests[c].assertions = Assertion.make_supermajority_assertion(contest=con, winner=winrs[0], "
                            "loser=losrs, share_to_win=con.share_to_win, test=test, test_kwargs=test_kwargs, estim=estim, bet=bet)"),
                   ("else",),
                   ("if", "scf == Contest.SOCIAL_CHOICE_FUNCTION.IRV"),
                   ("text", "contests[c].assertions = Assertion.make_assertions_from_json(contest=con, "
                            "candidates=con.candidates, json_assertions=con.assertion_json, test=test, "
                            "test_kwargs=test_kwargs, estim=estim, bet=bet)"),
                   ("else",),
                   ("text", "raise NotImplementedError(f'Social choice function {scf} is not implemented.')"),
                   ("endif",), ("endif",), ("endif",),
                   ("endfor",),
                   ("text", "return True")], tail=TAIL_MAA),
]
