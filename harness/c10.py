"""C10 — escalation only ever extends the evidence."""
from . import common as C, sampling as S

ANCHORS = S.ANCHORS + [("shangrla/core/NonnegMean.py", ["NonnegMean.alpha_mart", "NonnegMean.betting_mart",
                                                        "NonnegMean.shrink_trunc", "welford_mean_var"])]
MIN_BASED = ("alpha_shrink", "alpha_shrink_f", "alpha_fixed", "alpha_optcomp", "bet_agrapa", "bet_fixed")   # overall p = min of the history


def viol(res, what, inp, observed=None):
    res.oracle_violations.append({"what": what, "input": inp, "observed": observed, "signature": "C10:" + what})


def filtered(spec, j):
    ty, us = spec["cfg"][j]
    # with a single contest the selection is that contest's own prefix, so even unfiltered data are only appended to
    return (ty != "POLLING" and us) or spec["m"] == 1


def oracle_history(h, runs):
    """runs: dict variant-name -> run_history output (same cards, manual records and sizes; modes differ).
    Only judged while sizes are available and non-decreasing and sample numbers are distinct."""
    bad = []
    spec = h["spec"]
    cnt = S.counts(spec)
    if len(set(spec["nums"])) != len(spec["nums"]):
        return bad
    R = 0
    for r, sizes in enumerate(h["sizes"]):
        if any(k > c for k, c in zip(sizes, cnt)) or (r > 0 and any(a > b for a, b in zip(h["sizes"][r - 1], sizes))):
            break
        R = r + 1
    for name, o in runs.items():
        rounds = o["rounds"][:R]
        if len(rounds) < R and not (rounds and "p_exc" in rounds[-1]):
            last = o["rounds"][len(rounds) - 1] if o["rounds"] else None
            if last is not None and last["sel"][0] != "ok":
                bad.append(f"{name}: round raises {last['sel'][1]} although sizes are available and non-decreasing")
        for a, b in zip(rounds, rounds[1:]):
            if a["sel"][0] != "ok" or b["sel"][0] != "ok":
                break
            sa, sb = a["sel"][1], b["sel"][1]
            if len(set(sb)) != len(sb):
                bad.append(f"{name}: a card appears twice in a round's selection")
            if not set(sa) <= set(sb):
                bad.append(f"{name}: a round's selection does not contain the previous round's")
            for j in range(spec["m"]):
                if not filtered(spec, j) or a["sizes"][j] < 1:
                    continue
                da, db = a["data"][j], b["data"][j]
                if da[0] != "ok" or db[0] != "ok":
                    bad.append(f"{name}: mvrs_to_data raises for a contest with n_c >= 1")
                elif db[1][:len(da[1])] != da[1]:
                    bad.append(f"{name}: a contest's data sequence is not the previous round's with observations appended")
                if a["pdone"] and b["pdone"] and spec["tests"][j] in MIN_BASED:
                    pa, pb = a["p"][j], b["p"][j]
                    if not (pb <= pa * (1 + 1e-9) + 1e-300):
                        bad.append(f"{name}: an assertion's p-value increased from one round to the next ({spec['tests'][j]})")
            if any(x and not y for x, y in zip(a["proved"], b["proved"])):
                bad.append(f"{name}: an assertion that was proved is no longer proved in the next round")
        for rec in rounds:
            if rec["pdone"] and rec.get("con_proved") is not None and rec["con_proved"] != rec["proved"]:
                bad.append(f"{name}: contest.proved differs from the assertions' proved flags")
    names = list(runs)
    base = runs[names[0]]["rounds"][:R]
    for name in names[1:]:
        other = runs[name]["rounds"][:R]
        for r, (a, b) in enumerate(zip(base, other)):
            if a["sel"] != b["sel"]:
                bad.append("continuing from the previous selection gives a different selection than redrawing")
                break
            if a["thr"] != b["thr"]:
                bad.append("continuing from the previous selection gives different thresholds than redrawing")
                break
            if a["data"] != b["data"]:
                bad.append("continuing from the previous selection gives different data sequences than redrawing")
                break
    return bad


def oracle_every_cut(h, out):
    """Any prefix of a contest's data sequence is what some earlier round (with a smaller size for that contest) would have
    seen, so the p-value must be non-increasing along EVERY cut point of the final sequence, not only at the round
    boundaries that happened to be generated.  Uses the assertion's own NonnegMean instance as set_p_values left it."""
    import warnings
    import numpy as np
    spec = h["spec"]
    bad = []
    if not out["rounds"] or not out["rounds"][-1]["pdone"] or len(set(spec["nums"])) != len(spec["nums"]):
        return bad
    rec = out["rounds"][-1]
    for j, asn in enumerate(out["asns"]):
        if not filtered(spec, j) or spec["tests"][j] not in MIN_BASED or rec["data"][j][0] != "ok":
            continue
        d = np.array(rec["data"][j][1])
        last = None
        with warnings.catch_warnings():
            warnings.simplefilter("ignore")
            for k in range(1, len(d) + 1):
                try:
                    p = float(asn.test.test(d[:k])[0])
                except Exception:  # noqa  (well-formedness of p-values is C11's business)
                    break
                if last is not None and not (p <= last * (1 + 1e-9) + 1e-300):
                    bad.append(f"an assertion's p-value increases when one more observation is appended ({spec['tests'][j]})")
                    break
                last = p
    return bad


def run(ctx, res):
    stats = {}
    # 1. consistent_sampling alone (incl. the exhaustive continuation-after-smaller-sizes domain)
    cases = S.corr_single(ctx, res, stats)
    for c in cases:
        for q in c["queries"]:
            if q["prev"] is None:
                continue
            res.oracle_runs += 1
            for what in S.oracle_query(c["spec"], q):
                viol(res, what, {"nums": [str(x) for x in c["spec"]["nums"]], "styles": c["spec"]["styles"],
                                 "sample_num_objects": [repr(v) for v in S.impl_nums(c["spec"])] if "impl_nums" in c["spec"] else None,
                                 "before_these_calls": c.get("prelude"), "pre_seed": c.get("pre_seed"),
                                 "seed": c["spec"].get("seed"), "built_by_from_dict": bool(c["spec"].get("via_dict")),
                                 "query": C.jsonable(q)})
    # 2. round histories
    hcases = S.corr_histories(ctx, res, stats, ctx.n(420, 2400), ctx.n(80, 400))
    S.corr_small(ctx, res, stats, which=("prep",))
    for c in hcases:
        h = c["hist"]
        if not h["valid"]:
            continue
        sd = h["seeds"]
        R = len(h["sizes"])
        runs = {"as generated": c["out"],
                "all redraw": S.run_history(h, modes=[False] * R, votes_seed=sd[0], mvr_seed=sd[1], shuffle_seed=sd[2]),
                "all continue": S.run_history(h, modes=[True] * R, votes_seed=sd[0], mvr_seed=sd[1], shuffle_seed=sd[2] + 1)}
        res.oracle_runs += 3
        for what in oracle_history(h, runs) + oracle_every_cut(h, c["out"]):
            viol(res, what, S.hist_case_json(c))
        rs = c["out"]["rounds"]
        grows = any(a["sel"][0] == "ok" and b["sel"][0] == "ok" and len(b["sel"][1]) > len(a["sel"][1]) > 0 for a, b in zip(rs, rs[1:]))
        if grows and any(r["cont"] for r in rs[1:]):
            res.nontrivial.add(repr((h["spec"]["nums"], h["spec"]["styles"], h["sizes"], h["modes"])))
        if any(a["pdone"] and b["pdone"] and any(y and not x for x, y in zip(a["proved"], b["proved"])) for a, b in zip(rs, rs[1:])):
            stats["histories where an assertion becomes proved after round 1"] = stats.get("histories where an assertion becomes proved after round 1", 0) + 1
        if any(a["pdone"] and b["pdone"] and any(pb > pa for pa, pb in zip(a["p"], b["p"])) for a, b in zip(rs, rs[1:])):
            stats["histories where some p-value goes up (last-entry test / unfiltered data)"] = \
                stats.get("histories where some p-value goes up (last-entry test / unfiltered data)", 0) + 1
    # 3. long samples for the p-value clauses (oracle only)
    for _ in range(ctx.n(150, 600)):
        h = S.gen_long_history(ctx.rng)
        sd = h["seeds"]
        R = len(h["sizes"])
        runs = {"as generated": S.run_history(h, votes_seed=sd[0], mvr_seed=sd[1], shuffle_seed=sd[2]),
                "all continue": S.run_history(h, modes=[True] * R, votes_seed=sd[0], mvr_seed=sd[1], shuffle_seed=sd[2] + 1)}
        res.oracle_runs += 2
        stats["long histories (30-70 cards)"] = stats.get("long histories (30-70 cards)", 0) + 1
        for what in oracle_history(h, runs) + oracle_every_cut(h, runs["as generated"]):
            viol(res, what, S.hist_case_json({"hist": h, "out": runs["as generated"]}))
    res.exhaustive = True
    res.rule = (f"histories: 3-12 cards, 1-4 contests, 2-4 rounds of non-decreasing size vectors (plus a stream with decreasing / "
                f"unavailable sizes, ties, preset thresholds and proved flags for the correspondence only), each round redraw or "
                f"continue (the returned list object itself is handed back), state shared across rounds (cvr.sampled, "
                f"contest.sample_threshold, assertion.proved), real NonnegMean tests through set_p_values; every history re-run "
                f"all-redraw and all-continue; exhaustive: continuation from the selection of every/one smaller-or-equal size "
                f"vector for every style pattern of <= 5 cards x 2 contests; non-trivial = selection grows between "
                f"rounds and a later round continues")
    res.samples = [S.hist_case_json(c) for c in hcases[:3]]
    res.stats = stats
    # regenerated tie: whole-function skeletons of has_contest / consistent_sampling / assign_sample_nums / mvrs_to_data /
    # set_p_values; lemmas identify their line-by-line reading with Sampling.v (coq/gen/GenProofs_sampling_skeletons.v)
    from . import genarith, nnm
    genarith.regenerate(ctx.pid, "sampling_skeletons", res)
    # last clause ("measured risk non-increasing") beyond the sizes of the round histories: appended long samples on the
    # implementation, and the regenerated tie of the statistics the monotonicity theorems are about
    genarith.regenerate(ctx.pid, "nnm_estims", res)
    genarith.regenerate(ctx.pid, "nnm_masks", res)
    bad, runs = nnm.long_monotone_oracle(ctx.rng, ctx.n(18, 180))
    res.oracle_runs += runs
    for what, inp, obs in bad:
        viol(res, what, inp, obs)
    res.assumptions = ["p-value monotonicity is only tested here (oracle); its theorem is C10_p_monotone over the NonnegMean model",
                       "data-prefix is claimed for card-comparison/ONEAudit contests with use_style (the threshold filter); for "
                       "POLLING or use_style=False mvrs_to_data returns the whole multi-contest sample, which is not a prefix",
                       "contests dict key == Contest.id; Python's sort is stable"]
