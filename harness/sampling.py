"""Generators, implementation runner, Coq literal writers and brute-force oracles for the sampling glue of
shangrla/core/Audit.py (CVR.assign_sample_nums, CVR.consistent_sampling, CVR.prep_comparison_sample,
CVR.prep_polling_sample, Assertion.mvrs_to_data's filter, the sticky `proved` flag of Assertion.set_p_values).
Shared by C07 and C10."""
import hashlib
import itertools
import math
import warnings
from fractions import Fraction as F

import numpy as np

from . import common as C

IMPORTS = "From SV Require Import Run_Sampling.\nOpen Scope Z_scope."
ANCHORS = [("shangrla/core/Audit.py",
            ["CVR.has_contest", "CVR.assign_sample_nums", "CVR.consistent_sampling", "CVR.prep_comparison_sample",
             "CVR.prep_polling_sample", "Assertion.mvrs_to_data", "Assertion.set_p_values"])]
EXN = ("IndexError", "TypeError", "KeyError", "AssertionError", "ValueError", "NotImplementedError")
BIG = 2 ** 200
NEAR = 2 ** 255      # 2**255 + k == 2**255 as a double for every k < 2**202


def impl_nums(spec):
    """The sample_num objects handed to the implementation (ints, floats, numpy integers); spec['nums'] are their exact
    integer keys (value * spec['scale']), which is what the model and the oracles order by."""
    return spec.get("impl_nums", spec["nums"])


def zkey(spec, v):
    """Exact integer key of a sample number / threshold read back from the implementation."""
    if v is None or spec is None or "scale" not in spec:
        return v
    f = F(int(v)) if isinstance(v, (int, np.integer)) else F(v)
    k = f * spec["scale"]
    return int(k) if k.denominator == 1 else v


def mixed_type_pool(rng, n):
    """n distinct numbers of mixed Python types that numpy would coerce to float64 if asked to put them into one array:
    ints just above 2**53 / 2**63 / 2**64 (consecutive), float-valued numbers, negative ints; in float-free worlds some ints
    arrive as np.int64 / np.uint64.  All are legal keys for sorted(); every pairwise comparison Python makes is exact
    (checked below; otherwise plain Python ints are used)."""
    base = rng.choice([2 ** 53, 2 ** 63, 2 ** 64 - 2, 2 ** 62])
    ints = [base + k for k in range(n + 2)] + [-1, -7, -(2 ** 63), 3, 2 ** 53 - 1]
    floats = [0.5, 1e18, float(2 ** 60), 1.5, -2.5, float(2 ** 53), 7.0]
    with_floats = rng.random() < 0.6
    pool = ints[:n + 2] + rng.sample(ints[n + 2:], 2) + (rng.sample(floats, 3) if with_floats else [])
    vals, seen = [], set()
    for v in [base, base + 1] + rng.sample(pool, len(pool)):
        if F(v) not in seen and len(vals) < n:
            seen.add(F(v))
            vals.append(v)
    if not with_floats:
        wrapped = []
        for v in vals:
            r = rng.random()
            if r < 0.35 and -(2 ** 63) <= v < 2 ** 63:
                wrapped.append(np.int64(v))
            elif r < 0.6 and 0 <= v < 2 ** 64:
                wrapped.append(np.uint64(v))
            else:
                wrapped.append(v)
        exact = all((a < b) == (F(int(a)) < F(int(b))) and (a <= b) == (F(int(a)) <= F(int(b))) for a in wrapped for b in wrapped)
        if exact:
            vals = wrapped
    return vals


def A():
    import shangrla.core.Audit as Au
    return Au


def NM():
    from shangrla.core.NonnegMean import NonnegMean
    return NonnegMean


def exn_name(e):
    n = type(e).__name__
    return n if n in EXN else "OtherError"


# ---------------------------------------------------------------- Coq literals
def natl(l):
    return C.listlit([C.natlit(i) for i in l])


def zl(l):
    return C.listlit([C.zlit(i) for i in l])


def thrl(l):
    return C.listlit([C.optlit(t, C.zlit) for t in l])


def bl(l):
    return C.listlit([C.blit(b) for b in l])


def ql(l):
    return C.listlit([C.qlit(x) for x in l])


def resl(r, f):
    """r = ('ok', value) | ('err', name)"""
    return f"(Ok {f(r[1])})" if r[0] == "ok" else f"(Err {r[1]})"


def cards_lit(nums, styles):
    return C.listlit([f"({C.zlit(nm)}, {zl(st)})" for nm, st in zip(nums, styles)])


# ---------------------------------------------------------------- building implementation objects
VOTE_DICTS = [lambda: {}, lambda: {"A": 1}, lambda: {"B": True}, lambda: {"A": 0, "B": "marked"},
              lambda: {"A": 1, "B": 0, "C": ""}, lambda: {"A": 2, "B": 1}, lambda: {"B": 5}, lambda: {"A": True, "B": True},
              lambda: {"C": 1}, lambda: {"A": "", "B": 0}]
ID_STYLES = ["dominion", "str", "int", "tuple"]


def card_id(kind, i):
    if kind == "dominion":
        return f"{1 + i // 7}-{3 + i % 5}-{10 + i}"
    if kind == "str":
        return f"card_{i:03d}"
    if kind == "int":
        return 1000 + 7 * i
    return ("b", i)


def contest_key(kind, j):
    return {"str": f"con{j}", "int": 40 + j, "tuple": ("county", j)}[kind]


def mk_cvrs(spec, votes_rng):
    """Fresh CVR objects for a card-list spec; the vote contents are drawn from votes_rng (styles are fixed)."""
    Au = A()
    cvrs = []
    for i, (nm, st) in enumerate(zip(impl_nums(spec), spec["styles"])):
        ph = spec["phantom"][i]
        votes = {}
        for c in st:
            votes[spec["keys"][c] if c < len(spec["keys"]) else f"other{c}"] = {} if ph else votes_rng.choice(VOTE_DICTS)()
        tp = votes_rng.choice([None, "p1"])
        if spec.get("via_dict"):     # the record arrives as a dict that already carries a sample_num key
            cv = Au.CVR.from_dict([{"id": spec["cardids"][i], "votes": votes, "phantom": ph, "sample_num": nm,
                                    "tally_pool": tp, "pool": False}])[0]
        else:
            cv = Au.CVR(id=spec["cardids"][i], votes=votes, phantom=ph, sample_num=nm, tally_pool=tp, pool=False)
        cv.aval = [votes_rng.randint(0, 64) / 64 for _ in range(spec["m"])]   # read by the "table" assorter only
        cvrs.append(cv)
    return cvrs


PRELUDES = ("same_list", "reseed", "new_list", "refill")


def rehearse(cvrs, spec, pre):
    """A short unrelated audit on this list: fresh contests, other sizes, one draw (sometimes continued once)."""
    Au = A()
    with warnings.catch_warnings():
        warnings.simplefilter("ignore")
        contests = mk_contests(spec)
    cnt = counts(spec)
    for key, c in zip(contests, cnt):
        contests[key].sample_size = pre.randint(0, c)
    try:
        got = Au.CVR.consistent_sampling(cvrs, contests)
        if pre.random() < 0.4:
            for key, c in zip(contests, cnt):
                contests[key].sample_size = pre.randint(contests[key].sample_size, c)
            Au.CVR.consistent_sampling(cvrs, contests, got)
    except Exception:  # noqa
        pass
    for c in cvrs:
        c.sampled = False            # the user starts the next audit from a clean slate


def build_cvrs(spec, votes_rng, prelude=None, pre_seed=0):
    """The CVR list for the audit under test.  With a prelude it is NOT the first thing that happens in the process:
      same_list  the same list object and CVR objects were sampled from before, under other (explicit) sample numbers
      reseed     ... under the numbers of another seed; then assign_sample_nums with the audit's seed (spec['seed'])
      new_list   another list of the same length was sampled from and deleted (CPython often reuses its id)
      refill     the same list object was sampled from and then refilled with new CVR objects
    Afterwards every card carries spec['nums']; all oracles and the model apply as to a fresh list."""
    import random
    if prelude is None:
        return mk_cvrs(spec, votes_rng)
    from cryptorandom.cryptorandom import SHA256
    Au = A()
    pre = random.Random(pre_seed)
    n = len(spec["nums"])
    other = dict(spec)
    other.pop("impl_nums", None)
    other["nums"] = pre.sample(range(1, 10 * n + 10), n)
    if prelude in ("same_list", "reseed"):
        cvrs = mk_cvrs(other, votes_rng)
        if prelude == "reseed":
            Au.CVR.assign_sample_nums(cvrs, SHA256(pre.randint(0, 10 ** 9)))
        rehearse(cvrs, spec, pre)
        if prelude == "reseed":
            Au.CVR.assign_sample_nums(cvrs, SHA256(spec["seed"]))
        else:
            for c, nm in zip(cvrs, impl_nums(spec)):
                c.sample_num = nm
        return cvrs
    first = mk_cvrs(other, pre)
    rehearse(first, spec, pre)
    if prelude == "refill":
        first[:] = mk_cvrs(spec, votes_rng)
        return first
    del first
    return mk_cvrs(spec, votes_rng)


def add_prelude(rng, h, spec, share=0.4, kinds=PRELUDES):
    """Decide (in the generator) whether this audit runs after an earlier use of its list; 'reseed' fixes the numbers to
    the SHA-256 stream of a seed so that assign_sample_nums can produce them."""
    h["prelude"], h["pre_seed"] = None, rng.randint(0, 10 ** 9)
    if rng.random() < share and len(spec["nums"]) > 0:
        h["prelude"] = rng.choice(kinds)
        if h["prelude"] == "reseed":
            if len(set(spec["nums"])) != len(spec["nums"]):
                h["prelude"] = "same_list"          # tied numbers cannot come from the generator
            else:
                spec["seed"] = rng.randint(0, 10 ** 12)
                spec["nums"] = sha_stream(spec["seed"], len(spec["nums"]))
                spec.pop("impl_nums", None)
                spec.pop("scale", None)
    if rng.random() < 0.25:
        spec["via_dict"] = True


def mk_contests(spec, tests=None):
    """Fresh Contest objects (dict key == id) in spec['keys'] order, with one plurality-style assertion each."""
    Au, NonnegMean = A(), NM()
    contests = {}
    ncards = max(len(spec["nums"]), 1)
    for j, key in enumerate(spec["keys"]):
        ty, us = spec["cfg"][j]
        con = Au.Contest(id=key, name=str(key), risk_limit=float(spec["risk"][j]), cards=ncards,
                         choice_function=Au.Contest.SOCIAL_CHOICE_FUNCTION.PLURALITY, n_winners=1,
                         candidates=["A", "B", "C"], winner=["A"], audit_type=ty, use_style=us,
                         sample_size=0, sample_threshold=spec["thr0"][j])
        margin = float(spec["margin"][j])
        u = 2 / (2 - margin) if ty != "POLLING" else 1.0
        kind = (tests or spec["tests"])[j]
        kw = dict(u=u, N=ncards, t=0.5)
        if kind == "alpha_shrink":
            tst = NonnegMean(test=NonnegMean.alpha_mart, estim=NonnegMean.shrink_trunc, eta=(0.5 + u) / 2, **kw)
        elif kind == "alpha_shrink_f":   # the estimate uses the running standard deviation (f > 0)
            tst = NonnegMean(test=NonnegMean.alpha_mart, estim=NonnegMean.shrink_trunc, eta=(0.5 + u) / 2, f=0.5, d=10, **kw)
        elif kind == "alpha_fixed":
            tst = NonnegMean(test=NonnegMean.alpha_mart, estim=NonnegMean.fixed_alternative_mean, eta=(0.5 + u) / 2, **kw)
        elif kind == "alpha_optcomp":
            tst = NonnegMean(test=NonnegMean.alpha_mart, estim=NonnegMean.optimal_comparison, rate_error_2=1 / 64, **kw)
        elif kind == "bet_agrapa":
            tst = NonnegMean(test=NonnegMean.betting_mart, bet=NonnegMean.agrapa, lam=0.5, **kw)
        elif kind == "bet_fixed":
            tst = NonnegMean(test=NonnegMean.betting_mart, bet=NonnegMean.fixed_bet, lam=0.75, **kw)
        else:   # "kw_last": Kaplan-Wald with random_order False reports the LAST history entry (can go up)
            tst = NonnegMean(test=NonnegMean.kaplan_wald, g=0.1, random_order=False, **kw)
        if spec["assorter"][j] == "plurality":
            asns = Au.Assertion.make_plurality_assertions(con, winner=["A"], loser=["B"], test=NonnegMean.alpha_mart,
                                                          estim=NonnegMean.shrink_trunc)
            asn = asns["A v B"]
            asn.test = tst
        else:   # a card-specific assorter value, so a data sequence identifies the cards it came from
            asn = Au.Assertion(con, winner="A", loser="B", test=tst,
                               assorter=Au.Assorter(contest=con, assort=lambda c, j=j: c.aval[j], upper_bound=1))
            asns = {"A v B": asn}
        asn.margin = margin
        asn.proved = bool(spec["proved0"][j])
        con.assertions = asns
        contests[key] = con
    return contests


def mk_mvrs(spec, mvr_rng, cvrs=None):
    """Manual records: the same ids, contents and contest sets varied independently of the CVRs."""
    Au = A()
    mvrs = []
    for i, st in enumerate(spec["styles"]):
        r = mvr_rng.random()
        agree = spec.get("mvr_agree", 0.5)
        if r < 0.08:
            m = Au.CVR(id=spec["cardids"][i], votes={}, phantom=True)      # card not found
        else:
            votes = {}
            for c in st:
                key = spec["keys"][c] if c < len(spec["keys"]) else f"other{c}"
                if mvr_rng.random() < 0.12:
                    continue                                              # manual reading lacks the contest
                votes[key] = {"A": 1} if mvr_rng.random() < agree else mvr_rng.choice(VOTE_DICTS)()
            if mvr_rng.random() < 0.15 and spec["keys"]:
                votes.setdefault(mvr_rng.choice(spec["keys"]), mvr_rng.choice(VOTE_DICTS)())   # an extra contest
            m = Au.CVR(id=spec["cardids"][i], votes=votes, phantom=False)
        m.aval = [mvr_rng.randint(0, 64) / 64 for _ in range(spec["m"])]
        if cvrs is not None and mvr_rng.random() < agree:
            m.aval = list(cvrs[i].aval)        # manual reading agrees with the CVR
        mvrs.append(m)
    return mvrs


# ---------------------------------------------------------------- card-list specs
def gen_spec(rng, n=None, m=None, ties=False, nums=None, styles=None, plain=False):
    """A card list with styles, sample numbers, contests and per-contest configuration (everything but vote contents)."""
    m = m if m is not None else rng.randint(1, 4)
    n = n if n is not None else rng.randint(3, 12)
    extra = 0 if plain else rng.choice([0, 0, 1, 2])            # contests on the cards that are not under audit
    mixed = None
    if styles is None:
        dens = rng.choice([0.3, 0.5, 0.7, 0.9])
        styles = []
        for _ in range(n):
            st = [c for c in range(m + extra) if rng.random() < dens]
            rng.shuffle(st)                                      # dict key order on the card
            styles.append(st)
    if nums is None:
        if ties:
            nums = [rng.randint(1, max(2, n // 2)) for _ in range(n)]
        else:
            mode = rng.choice(["small", "small", "small", "small", "big", "near", "near_rev", "mixed", "types"])
            vals = rng.sample(range(0, 4 * n + 4), n)
            if mode == "types" and not plain and n:
                mixed = mixed_type_pool(rng, n)
                if rng.random() < 0.4:
                    mixed.sort(key=lambda v: F(int(v)) if isinstance(v, (int, np.integer)) else F(v), reverse=True)
                nums = [int(F(int(v) if isinstance(v, (int, np.integer)) else v) * 2) for v in mixed]
            elif mode == "small" or mode == "types":
                nums = vals
            elif mode == "big":
                nums = [v * BIG + rng.randint(0, 9) for v in vals]
            elif mode == "near":       # distinct 256-bit integers that coincide once converted to a double
                nums = [NEAR + v for v in vals]
            elif mode == "near_rev":   # ... listed in the opposite order to their true order
                nums = [NEAR + v for v in sorted(vals, reverse=True)]
            else:                      # clusters of near-collisions among ordinary 256-bit numbers
                bases = [rng.randint(1, 5) * BIG * 2 ** 40 for _ in range(3)]
                nums = [rng.choice(bases) + v for v in vals]
    ck = "str" if plain else rng.choice(["str", "str", "int", "tuple"])
    ik = "dominion" if plain else rng.choice(ID_STYLES)
    order = list(range(m))
    if not plain:
        rng.shuffle(order)            # key order of the contests dict differs from the numbering on the cards
    spec = {
        "n": n, "m": m, "nums": nums, "styles": styles,
        "phantom": [(not plain) and rng.random() < 0.15 for _ in range(n)],
        "keys": [contest_key(ck, j) for j in range(m)], "dict_order": order,
        "cardids": [card_id(ik, i) for i in range(n)],
        "cfg": [(("CARD_COMPARISON", True) if plain or rng.random() < 0.6 else
                 rng.choice([("CARD_COMPARISON", True), ("ONEAUDIT", True), ("CARD_COMPARISON", False), ("POLLING", True),
                             ("POLLING", False), ("ONEAUDIT", False)])) for _ in range(m)],
        "risk": [rng.choice([F(1, 20), F(1, 10), F(1, 4), F(1, 2), F(3, 4)]) for _ in range(m)],
        "margin": [rng.choice([F(1, 2), F(1, 4), F(1, 8), F(3, 4)]) for _ in range(m)],
        "tests": [rng.choice(["alpha_shrink", "alpha_shrink_f", "alpha_fixed", "alpha_optcomp", "bet_agrapa", "bet_fixed", "kw_last"])
                  for _ in range(m)],
        "assorter": [rng.choice(["plurality", "table"]) for _ in range(m)],
        "thr0": [None] * m, "proved0": [False] * m,
    }
    spec["mvr_agree"] = rng.choice([0.5, 0.9, 0.97, 1.0])
    if mixed is not None:
        spec["impl_nums"], spec["scale"] = mixed, 2
    return spec


def reorder(spec, xs):
    """per-contest list in spec numbering -> contests-dict order"""
    return [xs[j] for j in spec["dict_order"]]


def spec_in_dict_order(spec):
    """The same spec with contests renumbered in dict (iteration) order — what the model sees."""
    o = spec["dict_order"]
    inv = {old: new for new, old in enumerate(o)}
    m = spec["m"]
    s = dict(spec)
    for k in ("keys", "cfg", "risk", "margin", "tests", "assorter", "thr0", "proved0"):
        s[k] = [spec[k][j] for j in o]
    s["styles"] = [[inv[c] if c < m else c for c in st] for st in spec["styles"]]
    s["dict_order"] = list(range(m))
    return s


def counts(spec):
    return [sum(1 for st in spec["styles"] if j in st) for j in range(spec["m"])]


# ---------------------------------------------------------------- reference (brute force, independent of the Coq model)
def ref_order(nums):
    return sorted(range(len(nums)), key=lambda i: (nums[i], i))


def ref_first(spec, j, k):
    return [i for i in ref_order(spec["nums"]) if j in spec["styles"][i]][:k]


def ref_selection(spec, sizes):
    firsts = [set(ref_first(spec, j, k)) for j, k in enumerate(sizes)]
    return [i for i in ref_order(spec["nums"]) if any(i in f for f in firsts)]


# ---------------------------------------------------------------- 1. single calls of consistent_sampling
def run_query(cvrs, contests, sizes, prev, prev_sizes=None, spec=None):
    Au = A()
    keys = list(contests)
    for key, k in zip(keys, sizes):
        contests[key].sample_size = k
    thr0 = [zkey(spec, contests[key].sample_threshold) for key in keys]
    flags0 = [bool(c.sampled) for c in cvrs]
    try:
        got = Au.CVR.consistent_sampling(cvrs, contests, None if prev is None else list(prev))
        sel = ("ok", [int(i) for i in got])
    except Exception as e:  # noqa
        sel = ("err", exn_name(e))
    return {"sizes": list(sizes), "thr0": thr0, "prev": None if prev is None else list(prev), "flags0": flags0,
            "prev_sizes": None if prev_sizes is None else list(prev_sizes),
            "sel": sel, "thr1": [zkey(spec, contests[key].sample_threshold) for key in keys],
            "flags1": [bool(c.sampled) for c in cvrs]}


def query_lit(q):
    return (f"mkqry {natl(q['sizes'])} {thrl(q['thr0'])} {C.optlit(q['prev'], natl)} {bl(q['flags0'])} "
            f"{resl(q['sel'], natl)} {thrl(q['thr1'])} {bl(q['flags1'])}")


def cs_case_lit(case):
    s = case["spec"]
    return (f"mkcsc {cards_lit(s['nums'], s['styles'])} {zl(range(s['m']))} "
            f"{C.listlit([query_lit(q) for q in case['queries']])}")


def cs_case_json(case):
    s = case["spec"]
    return {"nums": [str(x) for x in s["nums"]], "sample_num_objects": [repr(v) for v in impl_nums(s)] if "impl_nums" in s else None,
            "styles": s["styles"], "queries": C.jsonable(case["queries"]), "tag": case.get("tag"),
            "before_these_calls": case.get("prelude"), "pre_seed": case.get("pre_seed"), "seed": s.get("seed"),
            "built_by_from_dict": bool(s.get("via_dict"))}


def oracle_query(spec, q, cvrs=None, contests=None, mvrs=None):
    """C07 on one call (only where the property speaks: distinct numbers, 0 <= n_c <= available).  Returns list of str."""
    bad = []
    cnt = counts(spec)
    if len(set(spec["nums"])) != len(spec["nums"]) or any(k > c for k, c in zip(q["sizes"], cnt)):
        return bad
    if q["sel"][0] != "ok":
        return [f"raises {q['sel'][1]} although every sample size is available"]
    sel = q["sel"][1]
    want = ref_selection(spec, q["sizes"])
    if q["prev"] is None:
        if sel != want:
            if len(set(sel)) != len(sel):
                bad.append("fresh draw: a card is selected twice")
            elif sorted(sel) != sorted(want):
                bad.append("fresh draw: selection is not the union of each contest's first n_c cards")
            else:
                bad.append("fresh draw: selection not reported in sample-number order")
    elif q.get("prev_sizes") is not None and all(a <= b for a, b in zip(q["prev_sizes"], q["sizes"])):
        # continued from a genuine earlier selection with sizes that did not decrease: C10 demands the redraw result
        if len(set(sel)) != len(sel):
            bad.append("continuation: a card is selected twice")
        elif not set(q["prev"]) <= set(sel):
            bad.append("continuation: a previously selected card was dropped")
        elif sorted(sel) != sorted(want):
            bad.append("continuation: selection is not the union of each contest's first n_c cards")
        elif sel != want:
            bad.append("continuation: selection not reported in sample-number order (differs from a redraw)")
    else:
        return bad        # arbitrary `sampled_cvr_indices`: the properties do not say what must happen
    for j, k in enumerate(q["sizes"]):
        if k >= 1:
            t = spec["nums"][ref_first(spec, j, k)[-1]]
            if q["thr1"][j] != t:
                bad.append("threshold is not the sample number of the contest's n_c-th card")
                break
    for i, (f0, f1) in enumerate(zip(q["flags0"], q["flags1"])):
        if f1 != (f0 or i in sel):
            bad.append("cvr.sampled flags do not match the returned selection")
            break
    return bad


def exhaustive_cases(rng, nmax, all_orders_upto, cont_all=False, stats=None):
    """All style patterns over 2 contests for <= nmax cards x all size vectors 0..available (fresh draw), each followed by
    a continuation from the selection of a smaller-or-equal size vector (all of them if cont_all).  Sample numbers: all
    orders for <= all_orders_upto cards, one random order per pattern above.  Objects are reused between queries."""
    cases = []
    for n in range(0, nmax + 1):
        perms = list(itertools.permutations(range(n))) if n <= all_orders_upto else None
        for pat in itertools.product(range(4), repeat=n):
            styles = [[c for c in (0, 1) if (b >> c) & 1] for b in pat]
            for perm in (perms if perms is not None else [None]):
                nums = [3 * p + 1 for p in perm] if perm is not None else [3 * p + 1 for p in rng.sample(range(n), n)]
                if rng.random() < 0.08:
                    nums = [NEAR + v for v in nums]       # same order, but indistinguishable as doubles
                spec = gen_spec(rng, n=n, m=2, nums=nums, styles=styles, plain=True)
                if n >= 2 and rng.random() < 0.04:     # the same ranks, carried by numbers of mixed types
                    pool = sorted(mixed_type_pool(rng, n), key=lambda v: F(int(v)) if isinstance(v, (int, np.integer)) else F(v))
                    ranks = sorted(range(n), key=lambda i: nums[i])
                    mixed = [None] * n
                    for r_, i_ in enumerate(ranks):
                        mixed[i_] = pool[r_]
                    spec["impl_nums"], spec["scale"] = mixed, 2
                    spec["nums"] = [int(F(int(v) if isinstance(v, (int, np.integer)) else v) * 2) for v in mixed]
                    if stats is not None:
                        stats["mixed-type sample numbers"] = stats.get("mixed-type sample numbers", 0) + 1
                hp = {}
                add_prelude(rng, hp, spec, share=0.12, kinds=("same_list", "new_list", "refill"))
                cvrs = build_cvrs(spec, rng, hp["prelude"], hp["pre_seed"])
                contests = mk_contests(spec)
                cnt = counts(spec)
                qs = []
                fresh = {}
                for sizes in itertools.product(range(cnt[0] + 1), range(cnt[1] + 1)):
                    q = run_query(cvrs, contests, sizes, None, spec=spec)
                    fresh[sizes] = q["sel"][1] if q["sel"][0] == "ok" else None
                    qs.append(q)
                for sizes in itertools.product(range(cnt[0] + 1), range(cnt[1] + 1)):
                    subs = [s for s in itertools.product(range(sizes[0] + 1), range(sizes[1] + 1))]
                    for sub in (subs if cont_all else [rng.choice(subs)]):
                        if fresh.get(sub) is not None:
                            qs.append(run_query(cvrs, contests, sizes, fresh[sub], prev_sizes=sub, spec=spec))
                cases.append({"spec": spec, "queries": qs, "tag": "exhaustive", "prelude": hp["prelude"], "pre_seed": hp["pre_seed"]})
                if stats is not None and hp["prelude"]:
                    stats["list used before: " + hp["prelude"]] = stats.get("list used before: " + hp["prelude"], 0) + 1
                if stats is not None:
                    stats["exhaustive card lists"] = stats.get("exhaustive card lists", 0) + 1
    return cases


def random_cs_cases(rng, ncases, stats=None):
    """Larger random card lists, 1-4 contests, unaudited contests on cards, phantoms, ties, oversize requests (IndexError),
    arbitrary prior thresholds and `sampled_cvr_indices` (duplicates, out of range, not a previous selection)."""
    cases = []
    for _ in range(ncases):
        ties = rng.random() < 0.2
        spec = spec_in_dict_order(gen_spec(rng, n=rng.choice([0, 1, 2, 6, 8, 10, 14]), ties=ties))
        spec["thr0"] = [rng.choice([None, None, 5, -1]) for _ in range(spec["m"])]
        hp = {}
        add_prelude(rng, hp, spec, share=0.4)
        cvrs = build_cvrs(spec, rng, hp["prelude"], hp["pre_seed"])
        contests = mk_contests(spec)
        cnt = counts(spec)
        qs = []
        prev_sel, prev_sizes = None, None
        for _q in range(rng.randint(2, 5)):
            r = rng.random()
            if r < 0.12:
                sizes = [rng.choice([c + 1, c + 3, c]) for c in cnt]          # more than available -> IndexError
            else:
                sizes = [rng.randint(0, c) for c in cnt]
            r = rng.random()
            ps = None
            if r < 0.35:
                prev = None
            elif r < 0.7 and prev_sel is not None:
                prev, ps = prev_sel, prev_sizes                               # the previously returned list itself
            else:
                prev = [rng.randint(0, spec["n"] + 2) for _ in range(rng.randint(0, 5))]
            q = run_query(cvrs, contests, sizes, prev, prev_sizes=ps, spec=spec)
            if q["sel"][0] == "ok":
                prev_sel = q["sel"][1]
                prev_sizes = sizes if prev is None else None                  # only fresh draws are "genuine" here
            elif stats is not None:
                stats["IndexError (size exceeds cards)"] = stats.get("IndexError (size exceeds cards)", 0) + 1
            qs.append(q)
        if stats is not None and ties:
            stats["tied sample numbers"] = stats.get("tied sample numbers", 0) + 1
        if stats is not None and "impl_nums" in spec:
            stats["mixed-type sample numbers"] = stats.get("mixed-type sample numbers", 0) + 1
        cases.append({"spec": spec, "queries": qs, "tag": "random", "prelude": hp["prelude"], "pre_seed": hp["pre_seed"]})
        if stats is not None and hp["prelude"]:
            stats["list used before: " + hp["prelude"]] = stats.get("list used before: " + hp["prelude"], 0) + 1
    return cases


# ---------------------------------------------------------------- 2. multi-round histories
def gen_history(rng, valid=True):
    """A card list, contests, and 2-4 rounds of (size vector, continue?)."""
    spec = spec_in_dict_order(gen_spec(rng, ties=(not valid) and rng.random() < 0.5))
    cnt = counts(spec)
    R = rng.randint(2, 4)
    if valid:
        first = [rng.randint(0 if rng.random() < 0.25 else min(1, c), c) for c in cnt]
        sizes = [first]
        for _ in range(R - 1):
            sizes.append([rng.randint(k, c) if rng.random() < 0.8 else k for k, c in zip(sizes[-1], cnt)])
    else:   # sizes may decrease or exceed what is available; prior thresholds / proved flags set
        sizes = [[rng.randint(0, c + (1 if rng.random() < 0.1 else 0)) for c in cnt] for _ in range(R)]
        spec["thr0"] = [rng.choice([None, 7, 0]) for _ in range(spec["m"])]
        spec["proved0"] = [rng.random() < 0.3 for _ in range(spec["m"])]
    modes = [rng.random() < 0.5 for _ in range(R)]
    h = {"spec": spec, "sizes": sizes, "modes": modes, "valid": valid}
    add_prelude(rng, h, spec)
    return h


def gen_long_history(rng):
    """One or two contests on 30-70 cards, 2-4 rounds of growing samples, manual records that often disagree, tests whose
    bets / estimates use running means and variances: for the p-value clauses of C10 (oracle only, no Coq case)."""
    n, m = rng.randint(30, 70), rng.choice([1, 1, 2])
    dens = rng.choice([0.6, 0.8, 1.0])
    styles = [[c for c in range(m) if rng.random() < dens] for _ in range(n)]
    spec = gen_spec(rng, n=n, m=m, styles=styles, plain=True)
    spec["cfg"] = [rng.choice([("CARD_COMPARISON", True), ("ONEAUDIT", True)] + ([("POLLING", True), ("POLLING", False)] if m == 1 else []))
                   for _ in range(m)]
    spec["tests"] = [rng.choice(["bet_agrapa", "alpha_shrink_f", "alpha_shrink", "bet_agrapa", "alpha_optcomp", "kw_last"]) for _ in range(m)]
    spec["assorter"] = [rng.choice(["plurality", "table"]) for _ in range(m)]
    spec["mvr_agree"] = rng.choice([0.5, 0.7, 0.9])
    spec["phantom"] = [rng.random() < 0.05 for _ in range(n)]
    cnt = counts(spec)
    R = rng.randint(2, 4)
    sizes = [[rng.randint(min(3, c), max(min(3, c), c // 2)) for c in cnt]]
    for _ in range(R - 1):
        sizes.append([rng.randint(k, c) for k, c in zip(sizes[-1], cnt)])
    h = {"spec": spec, "sizes": sizes, "modes": [rng.random() < 0.5 for _ in range(R)], "valid": True,
         "seeds": [rng.randint(0, 10 ** 9) for _ in range(3)]}
    add_prelude(rng, h, spec)
    return h


def run_history(hist, modes=None, votes_seed=0, mvr_seed=0, shuffle_seed=0, tests=None):
    """Run the real code through the rounds on fresh objects.  Returns list of per-round dicts (stops after an exception
    in consistent_sampling or set_p_values) plus the per-card f/g tables."""
    Au = A()
    spec = hist["spec"]
    modes = hist["modes"] if modes is None else modes
    import random
    cvrs = build_cvrs(spec, random.Random(votes_seed), hist.get("prelude"), hist.get("pre_seed", 0))
    mvrs = mk_mvrs(spec, random.Random(mvr_seed), cvrs)
    shuf = random.Random(shuffle_seed)
    with warnings.catch_warnings():
        warnings.simplefilter("ignore")
        contests = mk_contests(spec, tests=tests)
    keys = list(contests)
    asns = [contests[k].assertions["A v B"] for k in keys]
    ftab, gtab = [], []
    for j, asn in enumerate(asns):
        fr, gr = [], []
        for i in range(spec["n"]):
            try:
                fr.append(float(asn.overstatement_assorter(mvrs[i], cvrs[i], use_style=contests[keys[j]].use_style)))
            except Exception:  # noqa
                fr.append(-1.0)
            try:
                gr.append(float(asn.assorter.assort(mvrs[i])))
            except Exception:  # noqa
                gr.append(-1.0)
        ftab.append(fr)
        gtab.append(gr)
    rounds = []
    prev = []
    for r, (sizes, cont) in enumerate(zip(hist["sizes"], modes)):
        for key, k in zip(keys, sizes):
            contests[key].sample_size = k
        rec = {"sizes": list(sizes), "cont": bool(cont)}
        try:
            got = Au.CVR.consistent_sampling(cvrs, contests, prev if cont else None)
            sel = [int(i) for i in got]
            rec["sel"] = ("ok", sel)
        except Exception as e:  # noqa
            rec["sel"] = ("err", exn_name(e))
            got = None
        rec["thr"] = [zkey(spec, contests[k].sample_threshold) for k in keys]
        rec["flags"] = [bool(c.sampled) for c in cvrs]
        if got is None:
            rec.update({"mshuf": [], "cshuf": [], "prep": ("ok", ([], [])), "poll": ("ok", []), "data": [], "pdone": False,
                        "p": [], "proved": [bool(a.proved) for a in asns], "ids": ([], [])})
            rounds.append(rec)
            break
        prev = got                         # the returned list object itself is handed back in the next round
        mshuf = list(sel)
        shuf.shuffle(mshuf)
        cshuf = list(sel)
        if shuf.random() < 0.3:
            shuf.shuffle(cshuf)
        mvr_sample = [mvrs[i] for i in mshuf]
        cvr_sample = [cvrs[i] for i in cshuf]
        sample_order = {}
        for k, i in enumerate(sel):       # as Dominion/Hart.sample_from_cvrs build it
            sample_order[cvrs[i].id] = {"selection_order": k, "serial": i + 1}
        idnum = {cid: i for i, cid in enumerate(spec["cardids"])}
        try:
            Au.CVR.prep_comparison_sample(mvr_sample, cvr_sample, sample_order)
            rec["prep"] = ("ok", ([idnum[m.id] for m in mvr_sample], [idnum[c.id] for c in cvr_sample]))
        except Exception as e:  # noqa
            rec["prep"] = ("err", exn_name(e))
        mvr2 = [mvrs[i] for i in reversed(mshuf)]
        try:
            Au.CVR.prep_polling_sample(mvr2, sample_order)
            rec["poll"] = ("ok", [idnum[m.id] for m in mvr2])
        except Exception as e:  # noqa
            rec["poll"] = ("err", exn_name(e))
        rec["mshuf"], rec["cshuf"] = mshuf, cshuf
        rec["ids"] = ([idnum[m.id] for m in mvr_sample], [idnum[c.id] for c in cvr_sample])
        data, ok = [], rec["prep"][0] == "ok"
        with warnings.catch_warnings():
            warnings.simplefilter("ignore")
            for asn in asns:
                try:
                    d, _u = asn.mvrs_to_data(mvr_sample, cvr_sample)
                    data.append(("ok", [float(v) for v in d]))
                except Exception as e:  # noqa
                    data.append(("err", exn_name(e)))
                    ok = False
            rec["data"] = data
            rec["pdone"] = False
            rec["p"] = []
            stop = False
            if ok and all(len(d[1]) > 0 for d in data):
                try:
                    Au.Assertion.set_p_values(contests, mvr_sample, cvr_sample)
                    rec["pdone"] = True
                    rec["p"] = [float(a.p_value) for a in asns]
                    rec["con_proved"] = [bool(contests[k].proved["A v B"]) for k in keys]
                except Exception as e:  # noqa
                    rec["p_exc"] = exn_name(e)
                    stop = True          # assertions were updated only in part: the history ends here
        rec["proved"] = [bool(a.proved) for a in asns]
        rounds.append(rec)
        if stop:
            rounds.pop()
            break
    return {"rounds": rounds, "f": ftab, "g": gtab, "asns": asns}


def hround_lit(r):
    pair = lambda p: f"({zl(p[0])}, {zl(p[1])})"   # noqa
    return (f"mkhr {natl(r['sizes'])} {C.blit(r['cont'])} {resl(r['sel'], natl)} {thrl(r['thr'])} {bl(r['flags'])} "
            f"{natl(r['mshuf'])} {natl(r['cshuf'])} {resl(r['prep'], pair)} {resl(r['poll'], zl)} "
            f"{C.listlit([resl(d, ql) for d in r['data']])} {C.blit(r['pdone'])} "
            f"{C.listlit([C.xlit(p) for p in r['p']])} {bl(r['proved'])}")


TYMAP = {"CARD_COMPARISON": "Comparison", "ONEAUDIT": "OneAudit", "POLLING": "Polling"}


def hist_case_lit(case):
    s, out = case["hist"]["spec"], case["out"]
    cfg = C.listlit([f"({TYMAP.get(ty, 'OtherType')}, {C.blit(us)})" for ty, us in s["cfg"]])
    return (f"mkhc {cards_lit(s['nums'], s['styles'])} {zl(range(s['n']))} {zl(range(s['m']))} {cfg} "
            f"{C.listlit([ql(t) for t in out['f']])} {C.listlit([ql(t) for t in out['g']])} {ql(s['risk'])} "
            f"{thrl([zkey(s, t) for t in s['thr0']])} {bl(s['proved0'])} {C.listlit([hround_lit(r) for r in out['rounds']])}")


def hist_case_json(case):
    s = case["hist"]["spec"]
    return {"nums": [str(x) for x in s["nums"]], "sample_num_objects": [repr(v) for v in impl_nums(s)] if "impl_nums" in s else None,
            "styles": s["styles"], "phantom": s["phantom"], "cfg": s["cfg"],
            "sizes": case["hist"]["sizes"], "modes": case["hist"]["modes"], "tests": s["tests"],
            "before_this_audit": case["hist"].get("prelude"), "pre_seed": case["hist"].get("pre_seed"),
            "seed": s.get("seed"), "built_by_from_dict": bool(s.get("via_dict")),
            "rounds": C.jsonable([{k: v for k, v in r.items() if k not in ("ids",)} for r in case["out"]["rounds"]])}


# ---------------------------------------------------------------- 3. assign_sample_nums
def sha_stream(seed, upto):
    """int_from_hash of the first `upto` outputs of cryptorandom's SHA256(seed), recomputed with hashlib only:
    the state is sha256(str(seed) + ','), each draw reads the digest and then appends one zero byte."""
    h = hashlib.sha256((str(seed) + ",").encode())
    out = []
    for _ in range(upto):
        out.append(int.from_bytes(h.digest(), "big"))
        h.update(b"\x00")
    return out


def asn_cases(rng, ncases):
    from cryptorandom.cryptorandom import SHA256
    Au = A()
    cases = []
    for _ in range(ncases):
        seed = rng.choice([rng.randint(0, 10 ** 18), str(rng.randint(0, 10 ** 6)) + "abc", 12345678901234567890])
        k0, n1, n2 = rng.randint(0, 4), rng.randint(0, 7), rng.randint(0, 4)
        outs = []
        for variant in range(2):       # the same positions with different records: numbers must not move
            prng = SHA256(seed)
            for _k in range(k0):
                prng.nextRandom()
            spec1 = gen_spec(rng, n=n1)
            spec2 = gen_spec(rng, n=n2)
            spec1["via_dict"], spec2["via_dict"] = rng.random() < 0.4, rng.random() < 0.4
            l1, l2 = mk_cvrs(spec1, rng), mk_cvrs(spec2, rng)
            for lst in (l1, l2):       # identifiers are not positions: repeated ids (un-merged rows), missing ids, ids shared across lists
                kind = rng.choice(["distinct", "dups", "none", "rows", "allsame"])
                for i, cv in enumerate(lst):
                    if kind == "dups" and i and rng.random() < 0.5:
                        cv.id = lst[rng.randrange(i)].id
                    elif kind == "none" and rng.random() < 0.6:
                        cv.id = None
                    elif kind == "rows":
                        cv.id = lst[i - i % 2].id          # two consecutive per-contest rows per card id
                    elif kind == "allsame":
                        cv.id = "same"
            if l1 and l2 and rng.random() < 0.5:
                l2[0].id = l1[-1].id
            if rng.random() < 0.5:     # the objects were numbered before (another seed, or a sample_num key in from_dict)
                Au.CVR.assign_sample_nums(rng.sample(l1 + l2, len(l1) + len(l2)), SHA256(rng.randint(0, 10 ** 9)))
            r1 = Au.CVR.assign_sample_nums(l1, prng)
            got1 = [int(c.sample_num) for c in l1]
            r2 = Au.CVR.assign_sample_nums(l2, prng)
            outs.append((got1, [int(c.sample_num) for c in l2], r1, r2))
        cases.append({"seed": seed, "k0": k0, "n1": n1, "n2": n2, "stream": sha_stream(seed, k0 + n1 + n2 + 1),
                      "nums1": outs[0][0], "nums2": outs[0][1], "variant": (outs[1][0], outs[1][1]),
                      "ret": [outs[0][2], outs[0][3]]})
    return cases


def asn_case_lit(c):
    return (f"({zl(c['stream'])}, {C.natlit(c['k0'])}, {C.natlit(c['n1'])}, {C.natlit(c['n2'])}, "
            f"{zl(c['nums1'])}, {zl(c['nums2'])})")


def asn_case_json(c):
    return {k: (str(v) if k in ("stream", "nums1", "nums2", "variant") else v) for k, v in c.items()}


def oracle_asn(c):
    bad = []
    want1 = c["stream"][c["k0"]:c["k0"] + c["n1"]]
    want2 = c["stream"][c["k0"] + c["n1"]:c["k0"] + c["n1"] + c["n2"]]
    if c["nums1"] != want1 or c["nums2"] != want2:
        bad.append("sample numbers are not the seed's SHA-256 stream read by position")
    if (c["nums1"], c["nums2"]) != c["variant"]:
        bad.append("sample numbers depend on the records' contents")
    return bad


# ---------------------------------------------------------------- 4. mvrs_to_data alone (boundary stream)
def m2d_cases(rng, ncases):
    Au = A()
    cases = []
    for _ in range(ncases):
        spec = spec_in_dict_order(gen_spec(rng, n=rng.randint(0, 7), m=rng.randint(1, 3), ties=rng.random() < 0.3))
        spec.pop("impl_nums", None)
        spec.pop("scale", None)
        j = rng.randrange(spec["m"])
        ty = rng.choice(["CARD_COMPARISON", "CARD_COMPARISON", "ONEAUDIT", "POLLING", "BATCH"])
        us = rng.random() < 0.75
        spec["cfg"][j] = (ty if ty != "BATCH" else "CARD_COMPARISON", us)
        cvrs = mk_cvrs(spec, rng)
        mvrs = mk_mvrs(spec, rng, cvrs)
        with warnings.catch_warnings():
            warnings.simplefilter("ignore")
            contests = mk_contests(spec)
        con = contests[spec["keys"][j]]
        con.audit_type = ty
        asn = con.assertions["A v B"]
        thr = rng.choice([None, None] + spec["nums"] + [min(spec["nums"] + [0]) - 1, max(spec["nums"] + [0]) + 1])
        con.sample_threshold = thr
        use_all = rng.random() < 0.2
        nm = rng.choice([spec["n"], spec["n"], spec["n"], max(0, spec["n"] - 1), spec["n"] + 1])
        msample = (mvrs + mk_mvrs(spec, rng))[:nm]
        csample = cvrs if rng.random() < 0.85 else cvrs[:max(0, spec["n"] - 1)]
        f, g = [], []
        for i in range(max(len(msample), len(csample))):
            try:
                f.append(float(asn.overstatement_assorter(msample[i], csample[i], use_style=us)))
            except Exception:  # noqa
                f.append(-1.0)
            try:
                g.append(float(asn.assorter.assort(msample[i])))
            except Exception:  # noqa
                g.append(-1.0)
        try:
            with warnings.catch_warnings():
                warnings.simplefilter("ignore")
                d, _u = asn.mvrs_to_data(msample, csample, use_all=use_all) if use_all or rng.random() < 0.5 else \
                    asn.mvrs_to_data(msample, csample)
            out = ("ok", [float(v) for v in d])
        except Exception as e:  # noqa
            out = ("err", exn_name(e))
        cases.append({"ty": ty, "us": us, "all": use_all, "cid": j, "thr": thr, "nm": len(msample),
                      "nums": [c.sample_num for c in csample], "styles": spec["styles"][:len(csample)], "f": f, "g": g, "out": out,
                      "mvr_has": [m.has_contest(spec["keys"][j]) for m in msample]})
    return cases


def m2d_case_lit(c):
    return (f"mkmc {TYMAP.get(c['ty'], 'OtherType')} {C.blit(c['us'])} {C.blit(c['all'])} {C.zlit(c['cid'])} "
            f"{C.optlit(c['thr'], C.zlit)} {C.natlit(c['nm'])} {cards_lit(c['nums'], c['styles'])} {ql(c['f'])} {ql(c['g'])} "
            f"{resl(c['out'], ql)}")


def m2d_case_json(c):
    d = C.jsonable(c)
    d["nums"] = [str(x) for x in c["nums"]]
    d["thr"] = None if c["thr"] is None else str(c["thr"])
    return d


# ---------------------------------------------------------------- 5. prep_* alone (boundary stream)
def prep_cases(rng, ncases):
    Au = A()
    cases = []
    for _ in range(ncases):
        n = rng.randint(0, 6)
        ids = list(range(n))
        order_ids = list(ids)
        kind = rng.choice(["ok", "ok", "dup_order", "missing_key", "len", "mismatch", "dup_ids"])
        sel_order = {i: k for k, i in enumerate(rng.sample(ids, n))}
        if kind == "dup_order" and n:
            sel_order = {i: rng.randint(0, 2) for i in ids}            # ties in selection_order: the sort must be stable
        mids, cids = rng.sample(ids, n), rng.sample(ids, n)
        if kind == "missing_key" and n:
            sel_order.pop(rng.choice(order_ids))
        if kind == "len" and n:
            (mids if rng.random() < 0.5 else cids).pop()
        if kind == "mismatch" and n:
            mids[rng.randrange(n)] = rng.choice(ids)
        if kind == "dup_ids" and n:
            x = rng.choice(ids)
            mids.append(x)
            cids.append(x)
        so = {f"id{i}": {"selection_order": k, "serial": i + 1} for i, k in sel_order.items()}
        ms = [Au.CVR(id=f"id{i}", votes={}) for i in mids]
        cs = [Au.CVR(id=f"id{i}", votes={}) for i in cids]
        ms2 = list(ms)
        try:
            Au.CVR.prep_comparison_sample(ms, cs, so)
            out = ("ok", ([int(m.id[2:]) for m in ms], [int(c.id[2:]) for c in cs]))
        except Exception as e:  # noqa
            out = ("err", exn_name(e))
        try:
            Au.CVR.prep_polling_sample(ms2, so)
            pout = ("ok", [int(m.id[2:]) for m in ms2])
        except Exception as e:  # noqa
            pout = ("err", exn_name(e))
        cases.append({"order": sorted(sel_order.items()), "mids": mids, "cids": cids, "out": out, "pout": pout, "kind": kind})
    return cases


def prep_case_lit(c):
    pair = lambda p: f"({zl(p[0])}, {zl(p[1])})"   # noqa
    order = C.listlit([f"({C.zlit(i)}, {C.zlit(k)})" for i, k in c["order"]])
    return f"({order}, {zl(c['mids'])}, {zl(c['cids'])}, {resl(c['out'], pair)}, {resl(c['pout'], zl)})"


# ---------------------------------------------------------------- shared correspondence runs
def corr_single(ctx, res, stats):
    """consistent_sampling alone: exhaustive small domain + random stream."""
    if ctx.quick:   # <= 5 cards: every style pattern x size vector (+ one continuation each); all orders for <= 3 cards
        cases = exhaustive_cases(ctx.rng, 5, all_orders_upto=3, cont_all=False, stats=stats)
    else:           # all orders for <= 4 cards; and, for <= 5 cards, continuation from EVERY smaller-or-equal size vector
        cases = exhaustive_cases(ctx.rng, 4, all_orders_upto=4, cont_all=False, stats=stats)
        cases += exhaustive_cases(ctx.rng, 5, all_orders_upto=0, cont_all=True, stats=stats)
    cases += random_cs_cases(ctx.rng, ctx.n(250, 2000), stats=stats)
    cr = C.run_corr(ctx.pid, "cs", IMPORTS, "cs_case", cases, cs_case_lit, "agree_cs", shard=120, show="show_cs")
    res.corr.append(("CVR.consistent_sampling (fresh and continued; thresholds; sampled flags) vs Sampling.consistent_sampling",
                     cr, cs_case_json))
    res.evaluations += sum(len(c["queries"]) for c in cases)
    return cases


def corr_histories(ctx, res, stats, n_valid, n_invalid):
    hists = [gen_history(ctx.rng, valid=True) for _ in range(n_valid)] + \
            [gen_history(ctx.rng, valid=False) for _ in range(n_invalid)]
    cases = []
    for h in hists:
        seeds = [ctx.rng.randint(0, 10 ** 9) for _ in range(3)]
        h["seeds"] = seeds
        out = run_history(h, votes_seed=seeds[0], mvr_seed=seeds[1], shuffle_seed=seeds[2])
        cases.append({"hist": h, "out": out})
        if "impl_nums" in h["spec"]:
            stats["histories with mixed-type sample numbers"] = stats.get("histories with mixed-type sample numbers", 0) + 1
        if h.get("prelude"):
            stats["history after earlier use: " + h["prelude"]] = stats.get("history after earlier use: " + h["prelude"], 0) + 1
        for r in out["rounds"]:
            stats["rounds: continue" if r["cont"] else "rounds: redraw"] = stats.get("rounds: continue" if r["cont"] else "rounds: redraw", 0) + 1
            if r["pdone"]:
                stats["rounds with set_p_values"] = stats.get("rounds with set_p_values", 0) + 1
            if any(d[0] == "err" for d in r["data"]):
                stats["mvrs_to_data raised (unset threshold)"] = stats.get("mvrs_to_data raised (unset threshold)", 0) + 1
    cr = C.run_corr(ctx.pid, "hist", IMPORTS, "hist_case", cases, hist_case_lit, "agree_hist", shard=60, show="show_hist")
    res.corr.append(("round histories: consistent_sampling (redraw/continue) -> prep_comparison_sample/prep_polling_sample -> "
                     "mvrs_to_data -> set_p_values.proved, vs the Sampling.v state machine", cr, hist_case_json))
    res.evaluations += sum(len(c["out"]["rounds"]) for c in cases)
    return cases


def corr_small(ctx, res, stats, which=("asn", "m2d", "prep")):
    out = {}
    if "asn" in which:
        cases = asn_cases(ctx.rng, ctx.n(120, 800))
        cr = C.run_corr(ctx.pid, "asn", IMPORTS, "list Z * nat * nat * nat * list Z * list Z", cases, asn_case_lit, "agree_asn", shard=100)
        res.corr.append(("CVR.assign_sample_nums vs Sampling.assign_sample_nums over the independently recomputed SHA-256 stream",
                         cr, asn_case_json))
        res.evaluations += len(cases)
        out["asn"] = cases
    if "m2d" in which:
        cases = m2d_cases(ctx.rng, ctx.n(300, 4000))
        cr = C.run_corr(ctx.pid, "m2d", IMPORTS, "m2d_case", cases, m2d_case_lit, "agree_m2d", shard=150, show="model_m2d")
        res.corr.append(("Assertion.mvrs_to_data (filter, boundary stream) vs Sampling.mvrs_to_data", cr, m2d_case_json))
        res.evaluations += len(cases)
        for c in cases:
            k = "mvrs_to_data: " + (c["out"][1] if c["out"][0] == "err" else c["ty"] + ("" if c["us"] else "/style off"))
            stats[k] = stats.get(k, 0) + 1
        out["m2d"] = cases
    if "prep" in which:
        cases = prep_cases(ctx.rng, ctx.n(150, 1500))
        cr = C.run_corr(ctx.pid, "prep", IMPORTS, "list (Z * Z) * list Z * list Z * res (list Z * list Z) * res (list Z)",
                        cases, prep_case_lit, "agree_prep", shard=150, show="show_prep")
        res.corr.append(("CVR.prep_comparison_sample / prep_polling_sample vs Sampling.prep_*", cr, C.jsonable))
        res.evaluations += len(cases)
        for c in cases:
            k = "prep: " + (c["out"][1] if c["out"][0] == "err" else "ok")
            stats[k] = stats.get(k, 0) + 1
        out["prep"] = cases
    return out
