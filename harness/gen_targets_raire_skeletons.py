"""Whole-function skeletons for the code C04 and C15 are anchored in (group "raire_skeletons", see BUILDING_skeletons.md):
shangrla/raire/raire.py compute_raire_assertions and shangrla/raire/raire_utils.py find_best_audit, perform_dive, manage_node,
NEBAssertion.subsumes, NENAssertion.subsumes, RaireFrontier.insert_node / replace_descendents, RaireNode.is_descendent_of,
is_suffix.  EVERY statement of each function is listed as exact `ast.unparse` text (if / for opened in place; a `while` loop is
one text item containing its whole body), so any edit of these functions makes the fail-closed translator refuse and every
obligation of coq/gen/GenProofs_raire_skeletons.v count as broken.  The `tail` of a target is the line-by-line Gallina reading
of its decisive statements (source line in the comment), emitted only when the whole function matched; the lemma file proves
each tail equal to the corresponding definition of the executable model coq/theories/RaireAlgo.v (which is compared
output-for-output with the implementation by Run_Raire.agree_algo and about which C04 / C15 are proved)."""

GROUP = "raire_skeletons"
HEADER = "From SV Require Import RaireAlgo.\n"

TAIL_ISDESC = """Local Open Scope nat_scope.
Definition gen_isdesc_tail (self_tail node_tail : list cand) : bool :=
  let l1 := length self_tail in                                              (* l1 = len(self.tail) *)
  let l2 := length node_tail in                                              (* l2 = len(node.tail) *)
  if Nat.leb l1 l2 then false                                                (* if l1 <= l2: return False *)
  else list_eqb (skipn (l1 - l2) self_tail) node_tail.                       (* return self.tail[l1 - l2:] == node.tail *)
"""
TAIL_ISSUFFIX = """Local Open Scope nat_scope.
Definition gen_issuffix_tail (lista listb : list cand) : bool :=
  let len_lista := length lista in                                           (* len_lista = len(lista) *)
  let len_listb := length listb in                                           (* len_listb = len(listb) *)
  if Nat.ltb len_listb len_lista then false                                  (* if len_listb < len_lista: return False *)
  else list_eqb (skipn (len_listb - len_lista) listb) lista.                 (* return listb[len_listb - len_lista:] == lista *)
"""
TAIL_INSERT = """Local Open Scope nat_scope.
(* i = 0; while i < len(self.nodes): n_est = self.nodes[i].estimate; if n_est <= node.estimate: break; i += 1; self.nodes.insert(i, node) *)
Fixpoint gen_insert_scan (est : Q) (x : fentry) (nodes : list fentry) : list fentry :=
  match nodes with
  | [] => [x]
  | y :: r => if ole (fe_est y) (Some est) then x :: nodes else y :: gen_insert_scan est x r
  end.
Definition gen_insert_tail (nodes : list fentry) (nd : node) : list fentry :=
  if negb (n_exp nd) then nodes ++ [fe_of nd]                                (* if not node.expandable: self.nodes.append(node) *)
  else match n_est nd with
       | None => fe_of nd :: nodes                                           (* elif node.estimate == np.inf: self.nodes.insert(0, node) *)
       | Some e => gen_insert_scan e (fe_of nd) nodes                        (* else: (the scan above) *)
       end.
"""
TAIL_REPLACE = """Local Open Scope nat_scope.
Definition gen_replace_tail (nodes : list fentry) (nd : node) : list fentry :=
  let kept := filter (fun node_at_i =>                                       (* for i in range(len(self.nodes)): node_at_i = self.nodes[i] *)
                        negb (gen_isdesc_tail (fe_tail node_at_i) (n_tail nd)))   (*   if node_at_i.is_descendent_of(node): descendents.append(i) *)
                     nodes in                                                (* for i in reversed(descendents): del self.nodes[i] *)
  gen_insert_tail kept nd.                                                   (* self.insert_node(node) *)
"""
TAIL_MANAGE = """Local Open Scope nat_scope.
Definition gen_manage_tail (h : heap) (frontier : list fentry) (lowerbound : Q) (newn : node) : bool * list fentry * Q * bool :=
  if negb (n_exp newn) then                                                  (* if not newn.expandable: *)
    let best_ancestor := match n_anc newn with Some a => get h a | None => dummy_node end in
    match n_est newn, n_est best_ancestor with
    | None, None => (true, frontier, lowerbound, true)                       (*   if newn.estimate == np.inf and newn.best_ancestor.estimate == np.inf: return (True, np.inf, True) *)
    | _, _ =>
        if ole (n_est best_ancestor) (n_est newn) then                       (*   if newn.best_ancestor.estimate <= newn.estimate: *)
          (false, gen_replace_tail frontier best_ancestor,                   (*     frontier.replace_descendents(newn.best_ancestor, ...) *)
           match n_est best_ancestor with Some e => Qmaxb lowerbound e | None => lowerbound end,   (*     next_lowerbound = max(lowerbound, newn.best_ancestor.estimate) *)
           true)                                                             (*     return (False, next_lowerbound, True) *)
        else
          (false, gen_insert_tail frontier newn,                             (*     frontier.insert_node(newn) *)
           match n_est newn with Some e => Qmaxb lowerbound e | None => lowerbound end,            (*     next_lowerbound = max(lowerbound, newn.estimate) *)
           true)                                                             (*     return (False, next_lowerbound, True) *)
    end
  else (false, gen_insert_tail frontier newn, lowerbound, false).            (* else: frontier.insert_node(newn); return (False, lowerbound, False) *)
"""
TAIL_NEBSUB = """Local Open Scope nat_scope.
Definition gen_nebsub_tail (self_winner self_loser : cand) (other : asr) : bool :=
  match a_as other with
  | NEB _ _ => false                                                         (* if type(other) == NEBAssertion: return False *)
  | NEN other_winner other_loser other_eliminated =>
      if Nat.eqb self_winner other_winner && Nat.eqb self_loser other_loser then true            (* if self.winner == other.winner and self.loser == other.loser: return True *)
      else if Nat.eqb self_winner other_winner && negb (mem self_loser other_eliminated) then true   (* if self.winner == other.winner and (not self.loser in other.eliminated): return True *)
      else if mem self_winner other_eliminated && negb (mem self_loser other_eliminated) then true   (* elif self.winner in other.eliminated and (not self.loser in other.eliminated): return True *)
      else forallb (fun ro =>                                                (* else: for ro in other.rules_out: *)
             let idxw := index_of self_winner ro in                          (*   idxw = -1 if not self.winner in ro else ro.index(self.winner) *)
             let idxl := index_of self_loser ro in                           (*   idxl = -1 if not self.loser in ro else ro.index(self.loser) *)
             match idxw, idxl with                                           (*   if idxw == idxl or idxl < idxw: return False *)
             | None, None => false
             | Some _, None => false
             | None, Some _ => true
             | Some i, Some j => negb (Nat.eqb i j || Nat.ltb j i)
             end) (a_ro other)                                               (* return True *)
  end.
"""
TAIL_NENSUB = """Local Open Scope nat_scope.
Definition gen_nensub_tail (self_rules_out : list (list cand)) (other : asr) : bool :=
  match a_as other with
  | NEB _ _ => false                                                         (* if type(other) == NEBAssertion: return False *)
  | NEN _ _ _ =>
      match self_rules_out with                                              (* other_ro = set(other.rules_out) *)
      | [] => false                                                          (* (no iteration: other_ro stays a set, and set == [] is False) *)
      | _ => forallb (fun o => existsb (fun ro => gen_issuffix_tail ro o) self_rules_out)   (* for ro in self.rules_out: other_ro = [o for o in other_ro if not is_suffix(ro, o)] *)
                     (a_ro other)                                            (* return other_ro == [] *)
      end
  end.
"""
TAIL_DIVE = """Local Open Scope nat_scope.
(* next_cand = rem_cands[0]; if contest.outcome != []: npos = contest.outcome.index(next_cand);
   for i in range(1, len(rem_cands)): c = rem_cands[i]; ipos = contest.outcome.index(c); if ipos > npos: next_cand = c; npos = ipos *)
Definition gen_dive_next (outcome : list cand) (rem0 : cand) (rest : list cand) : cand :=
  match outcome with
  | [] => rem0
  | _ => fst (fold_left (fun bn c => let ipos := pos_in c outcome 0 in
                                     if Nat.ltb (snd bn) ipos then (c, ipos) else bn)
                        rest (rem0, pos_in rem0 outcome 0))
  end.
(* newn.best_ancestor = node.best_ancestor if node.best_ancestor != None and node.best_ancestor.estimate <= node.estimate else node *)
Definition gen_dive_ancestor (h : heap) (nd : node) : option nat :=
  match n_anc nd with
  | Some a => if ole (n_est (get h a)) (n_est nd) then Some a else Some (n_id nd)
  | None => Some (n_id nd)
  end.
"""
TAIL_FBA = """Local Open Scope nat_scope.
Definition gen_fba_tail (dfun : nat -> nat -> nat -> Q) (candidates : list cand) (ballots : profile) (tot_ballots : nat)
    (neb_matrix : list (cand * cand * option asr)) (tail : list cand) : option asr :=
  match tail with
  | [] => None
  | first_in_tail :: later =>                                                (* first_in_tail = node.tail[0]; best_asrtn = None *)
      let best_asrtn := fold_left (fun best later_cand =>                    (* for later_cand in node.tail[1:]: *)
            better best (lookup neb_matrix first_in_tail later_cand))        (*   neb = neb_matrix[first_in_tail][later_cand]; if neb != None and (best_asrtn is None or neb.difficulty < best_asrtn.difficulty): best_asrtn = neb *)
          later None in
      let eliminated := filter (fun c => negb (mem c tail)) candidates in    (* eliminated = [c for c in contest.candidates if not c in node.tail] *)
      let best_asrtn := fold_left (fun best cand =>                          (* for cand in eliminated: *)
            fold_left (fun best cand_in_tail =>                              (*   for cand_in_tail in node.tail: *)
               better best (lookup neb_matrix cand cand_in_tail)) tail best) (*     neb = neb_matrix[cand][cand_in_tail]; (same test) *)
          eliminated best_asrtn in
      let firsts := map (first_standing eliminated) ballots in
      let tally_first_in_tail := count_for firsts first_in_tail in           (* tally_first_in_tail = sum([vote_for_cand(first_in_tail, eliminated, blt) for blt in ballots]) *)
      fold_left (fun best later_cand =>                                      (* for later_cand in node.tail[1:]: *)
            let tally_later_cand := count_for firsts later_cand in           (*   tally_later_cand = sum([vote_for_cand(later_cand, eliminated, blt) for blt in ballots]) *)
            if Nat.ltb tally_later_cand tally_first_in_tail then             (*   if tally_first_in_tail > tally_later_cand: *)
              let estimate := dfun tally_first_in_tail tally_later_cand tot_ballots in   (*     estimate = asn_func(tally_first_in_tail, tally_later_cand, tot - (..), tot) *)
              let nen := mkasr (NEN first_in_tail later_cand eliminated)     (*     nen = NENAssertion(contest.name, first_in_tail, later_cand, eliminated) *)
                               tally_first_in_tail tally_later_cand estimate [tail] in   (*     nen.rules_out.add(tuple(node.tail)); difficulty, votes_for_winner / loser *)
              match best with                                                (*     if best_asrtn is None or estimate < best_asrtn.difficulty: best_asrtn = nen *)
              | None => Some nen
              | Some b => if Qlt_bool estimate (a_d b) then Some nen else best
              end
            else best) later best_asrtn                                      (* node.best_assertion = best_asrtn; if best_asrtn != None: node.estimate = best_asrtn.difficulty *)
  end.
"""
TAIL_COMPUTE = """Local Open Scope nat_scope.
(* the NEB matrix entry for (c, d): tallies over all CVRs, kept only when tally_c > tally_d *)
Definition gen_compute_neb (dfun : nat -> nat -> nat -> Q) (cvrs : profile) (tot_ballots : nat) (c d : cand) : option asr :=
  let tally_c := count (neb_vote_w c) cvrs in                                (* tally_c += asrn.is_vote_for_winner(r) *)
  let tally_d := count (neb_vote_l c d) cvrs in                              (* tally_d += asrn.is_vote_for_loser(r) *)
  if Nat.ltb tally_d tally_c                                                 (* if tally_c > tally_d: *)
  then Some (mkasr (NEB c d) tally_c tally_d (dfun tally_c tally_d tot_ballots) [])   (* asrn.difficulty = asn_func(...); votes_for_winner / loser; nebs[c][d] = asrn *)
  else None.
(* the initial frontier: one node [d, c] for every c other than the reported winner ARGUMENT and every d other than c *)
Definition gen_compute_initial (dfun : nat -> nat -> nat -> Q) (candidates : list cand) (ballots : profile) (tot : nat)
    (nebs : list (cand * cand * option asr)) (winner : cand) : heap * list fentry :=
  fold_left (fun st c =>                                                     (* for c in contest.candidates: *)
     if Nat.eqb c winner then st                                             (*   if c == winner: continue *)
     else fold_left (fun st d =>                                             (*   for d in contest.candidates: *)
            if Nat.eqb c d then st                                           (*     if c == d: continue *)
            else let newn := new_node dfun candidates ballots tot nebs (length (fst st)) [d; c] None false in   (*     newn = RaireNode([d, c]); newn.expandable = True if ncands > 2 else False; find_best_audit(...) *)
                 (newn :: fst st, gen_insert_tail (snd st) newn))            (*     frontier.insert_node(newn) *)
          candidates st)
    candidates ([], []).
(* the two tests made on the popped node, before and after the dive *)
Definition gen_compute_prune_ancestor (h : heap) (to_expand : node) (lowerbound : Q) : option node :=
  match n_anc to_expand with                                                 (* if to_expand.best_ancestor != None and to_expand.best_ancestor.estimate <= lowerbound: *)
  | Some a => let an := get h a in if ole (n_est an) (Some lowerbound) then Some an else None   (*   frontier.replace_descendents(to_expand.best_ancestor, ...); continue *)
  | None => None
  end.
Definition gen_compute_prune_self (to_expand : node) (lowerbound : Q) : bool :=
  ole (n_est to_expand) (Some lowerbound).                                   (* if to_expand.estimate <= lowerbound: to_expand.expandable = False; frontier.insert_node(to_expand); continue *)
(* the lower bound after a dive *)
Definition gen_compute_lb_after_dive (lowerbound dive_lb : Q) : Q := Qmaxb lowerbound dive_lb.   (* lowerbound = max(lowerbound, dive_lb) *)
(* the final passes *)
Definition gen_compute_final (h : heap) (frontier : list fentry) : option (list asr) :=
  match dedup h frontier [] with                                             (* for node in frontier.nodes: if node.best_assertion is None: return [] ... same_as ... rules_out.update *)
  | None => None
  | Some assertions => Some (prune_subsumed (sorted_asr assertions))         (* sorted_assertions = sorted(assertions); final_audit = [pop(0)]; for assertion ...: if fasrtn.subsumes(assertion): ... *)
  end.
"""

SKEL = {'compute': [('text', 'ncands = len(contest.candidates)'),
             ('text', 'nebs = {c: {d: None for d in contest.candidates} for c in contest.candidates}'),
             ('for', 'c in contest.candidates'),
             ('for', 'd in contest.candidates'),
             ('if', 'c == d'),
             ('text', 'continue'),
             ('endif',),
             ('text', 'asrn = NEBAssertion(contest.name, c, d)'),
             ('text', 'tally_c = 0'),
             ('text', 'tally_d = 0'),
             ('for', '(_, r) in cvrs.items()'),
             ('text', 'tally_c += asrn.is_vote_for_winner(r)'),
             ('text', 'tally_d += asrn.is_vote_for_loser(r)'),
             ('endfor',),
             ('if', 'tally_c > tally_d'),
             ('text', 'asrn.difficulty = asn_func(tally_c, tally_d, contest.tot_ballots - (tally_c + tally_d), contest.tot_ballots)'),
             ('text', 'asrn.votes_for_winner = tally_c'),
             ('text', 'asrn.votes_for_loser = tally_d'),
             ('text', 'nebs[c][d] = asrn'),
             ('endif',),
             ('endfor',),
             ('endfor',),
             ('text', 'ballots = [blt[contest.name] for _, blt in cvrs.items() if contest.name in blt]'),
             ('text', 'lowerbound = -10'),
             ('text', 'frontier = RaireFrontier()'),
             ('for', 'c in contest.candidates'),
             ('if', 'c == winner'),
             ('text', 'continue'),
             ('endif',),
             ('for', 'd in contest.candidates'),
             ('if', 'c == d'),
             ('text', 'continue'),
             ('endif',),
             ('text', 'newn = RaireNode([d, c])'),
             ('text', 'newn.expandable = True if ncands > 2 else False'),
             ('text', 'find_best_audit(contest, ballots, nebs, newn, asn_func)'),
             ('if', 'log'),
             ('text', "print('TESTED ', file=stream, end='')"),
             ('text', 'newn.display(stream=stream)'),
             ('if', 'newn.best_assertion != None'),
             ('text', "print('   Best audit ', file=stream, end='')"),
             ('text', 'newn.best_assertion.display(stream=stream)'),
             ('endif',),
             ('endif',),
             ('text', 'frontier.insert_node(newn)'),
             ('endfor',),
             ('endfor',),
             ('text', 'audit_not_possible = False'),
             ('if', 'log'),
             ('text', "print('===============================================', file=stream)"),
             ('text', "print('Initial Frontier', file=stream)"),
             ('text', 'frontier.display(stream=stream)'),
             ('text', "print('===============================================', file=stream)"),
             ('endif',),
             ('text',
              'while not audit_not_possible:\n'
              '    max_on_frontier = max([node.estimate for node in frontier.nodes])\n'
              '    if agap > 0 and lowerbound > 0 and (max_on_frontier - lowerbound <= agap):\n'
              '        break\n'
              '    to_expand = frontier.nodes[0]\n'
              '    if not to_expand.expandable:\n'
              '        break\n'
              '    frontier.nodes.pop(0)\n'
              '    if to_expand.best_ancestor != None and to_expand.best_ancestor.estimate <= lowerbound:\n'
              '        frontier.replace_descendents(to_expand.best_ancestor, log, stream=stream)\n'
              '        continue\n'
              '    if to_expand.estimate <= lowerbound:\n'
              '        to_expand.expandable = False\n'
              '        frontier.insert_node(to_expand)\n'
              '        continue\n'
              '    if not to_expand.dive_node:\n'
              '        dive_lb = perform_dive(to_expand, contest, ballots, nebs, asn_func, lowerbound, frontier, log, stream=stream)\n'
              '        if dive_lb == np.inf:\n'
              '            audit_not_possible = True\n'
              '            if log:\n'
              "                print('Diving finds that audit is not possible', file=stream)\n"
              '            break\n'
              '        if log:\n'
              "            print('Diving LB {}, Current LB {}'.format(dive_lb, lowerbound), file=stream)\n"
              '        lowerbound = max(lowerbound, dive_lb)\n'
              '        if to_expand.best_ancestor != None and to_expand.best_ancestor.estimate <= lowerbound:\n'
              '            frontier.replace_descendents(to_expand.best_ancestor, log, stream=stream)\n'
              '            continue\n'
              '        if to_expand.estimate <= lowerbound:\n'
              '            to_expand.expandable = False\n'
              '            frontier.insert_node(to_expand)\n'
              '            continue\n'
              '    if log:\n'
              "        print('  Expanding node ', file=stream, end='')\n"
              '        to_expand.display(stream=stream)\n'
              '    for c in contest.candidates:\n'
              '        if not c in to_expand.tail and (not c in to_expand.explored):\n'
              '            newn = RaireNode([c] + to_expand.tail)\n'
              '            newn.expandable = False if len(newn.tail) == ncands else True\n'
              '            newn.best_ancestor = to_expand.best_ancestor if to_expand.best_ancestor != None and to_expand.best_ancestor.estimate <= '
              'to_expand.estimate else to_expand\n'
              '            find_best_audit(contest, ballots, nebs, newn, asn_func)\n'
              '            if log:\n'
              "                print('TESTED ', file=stream, end='')\n"
              '                newn.display(stream=stream)\n'
              '            audit_not_possible, lowerbound, _ = manage_node(newn, frontier, lowerbound, log, stream=stream)\n'
              '        if audit_not_possible:\n'
              '            break\n'
              '    if log:\n'
              "        print('Size of frontier {}, current lower bound {}'.format(len(frontier.nodes), lowerbound))\n"
              '    if audit_not_possible:\n'
              '        break'),
             ('if', 'audit_not_possible'),
             ('if', 'log'),
             ('text', "print('AUDIT NOT POSSIBLE', file=stream)"),
             ('endif',),
             ('text', 'return []'),
             ('endif',),
             ('text', 'assertions = []'),
             ('for', 'node in frontier.nodes'),
             ('if', 'node.best_assertion is None'),
             ('text', 'return []'),
             ('endif',),
             ('text', 'skip = False'),
             ('for', 'assrtn in assertions'),
             ('if', 'node.best_assertion.same_as(assrtn)'),
             ('text', 'assrtn.rules_out.update(node.best_assertion.rules_out)'),
             ('text', 'skip = True'),
             ('text', 'break'),
             ('endif',),
             ('endfor',),
             ('if', 'not skip'),
             ('text', 'assertions.append(node.best_assertion)'),
             ('endif',),
             ('endfor',),
             ('text', 'sorted_assertions = sorted(assertions)'),
             ('text', 'len_assertions = len(sorted_assertions)'),
             ('text', 'final_audit = []'),
             ('if', 'sorted_assertions != []'),
             ('text', 'final_audit = [sorted_assertions.pop(0)]'),
             ('for', 'assertion in sorted_assertions'),
             ('text', 'subsumed = False'),
             ('for', 'fasrtn in final_audit'),
             ('if', 'fasrtn.subsumes(assertion)'),
             ('text', 'fasrtn.rules_out.update(assertion.rules_out)'),
             ('if', 'log'),
             ('text', "print('{} SUBSUMES {}'.format(fasrtn.to_str(), assertion.to_str()), file=stream)"),
             ('endif',),
             ('text', 'subsumed = True'),
             ('text', 'break'),
             ('endif',),
             ('endfor',),
             ('if', 'not subsumed'),
             ('text', 'final_audit.append(assertion)'),
             ('endif',),
             ('endfor',),
             ('endif',),
             ('if', 'log'),
             ('text', "print('===============================================', file=stream)"),
             ('text', "print('ASSERTIONS:', file=stream)"),
             ('for', 'assertion in final_audit'),
             ('text', 'assertion.display(stream=stream)'),
             ('endfor',),
             ('text', "print('===============================================', file=stream)"),
             ('endif',),
             ('text', 'return final_audit')],
 'dive': [('text', 'ncands = len(contest.candidates)'),
          ('text', 'rem_cands = [c for c in contest.candidates if not c in node.tail]'),
          ('text', 'next_cand = rem_cands[0]'),
          ('if', 'contest.outcome != []'),
          ('text', 'npos = contest.outcome.index(next_cand)'),
          ('for', 'i in range(1, len(rem_cands))'),
          ('text', 'c = rem_cands[i]'),
          ('text', 'ipos = contest.outcome.index(c)'),
          ('if', 'ipos > npos'),
          ('text', 'next_cand = c'),
          ('text', 'npos = ipos'),
          ('endif',),
          ('endfor',),
          ('endif',),
          ('text', 'newn = RaireNode([next_cand] + node.tail)'),
          ('text', 'newn.expandable = False if len(newn.tail) == ncands else True'),
          ('text', 'newn.dive_node = True'),
          ('text', 'node.explored.append(next_cand)'),
          ('text',
           'newn.best_ancestor = node.best_ancestor if node.best_ancestor != None and node.best_ancestor.estimate <= node.estimate else node'),
          ('text', 'find_best_audit(contest, ballots, neb_matrix, newn, asn_func)'),
          ('if', 'log'),
          ('text', "print('DIVE TESTED ', file=stream, end='')"),
          ('text', 'newn.display(stream=stream)'),
          ('endif',),
          ('text', 'audit_not_possible, next_lowerbound, dive_complete = manage_node(newn, frontier, lower_bound, log, stream=stream)'),
          ('if', 'audit_not_possible'),
          ('text', 'return np.inf'),
          ('endif',),
          ('if', 'dive_complete'),
          ('text', 'return next_lowerbound'),
          ('endif',),
          ('text', 'return perform_dive(newn, contest, ballots, neb_matrix, asn_func, next_lowerbound, frontier, log, stream=stream)')],
 'fba': [('text', 'ntail = len(node.tail)'),
         ('text', 'first_in_tail = node.tail[0]'),
         ('text', 'best_asrtn = None'),
         ('for', 'later_cand in node.tail[1:]'),
         ('text', 'neb = neb_matrix[first_in_tail][later_cand]'),
         ('if', 'neb != None and (best_asrtn is None or neb.difficulty < best_asrtn.difficulty)'),
         ('text', 'best_asrtn = neb'),
         ('endif',),
         ('endfor',),
         ('text', 'eliminated = [c for c in contest.candidates if not c in node.tail]'),
         ('for', 'cand in eliminated'),
         ('for', 'cand_in_tail in node.tail'),
         ('text', 'neb = neb_matrix[cand][cand_in_tail]'),
         ('if', 'neb != None and (best_asrtn is None or neb.difficulty < best_asrtn.difficulty)'),
         ('text', 'best_asrtn = neb'),
         ('endif',),
         ('endfor',),
         ('endfor',),
         ('text', 'tally_first_in_tail = sum([vote_for_cand(first_in_tail, eliminated, blt) for blt in ballots])'),
         ('for', 'later_cand in node.tail[1:]'),
         ('text', 'tally_later_cand = sum([vote_for_cand(later_cand, eliminated, blt) for blt in ballots])'),
         ('if', 'tally_first_in_tail > tally_later_cand'),
         ('text',
          'estimate = asn_func(tally_first_in_tail, tally_later_cand, contest.tot_ballots - (tally_first_in_tail + tally_later_cand), '
          'contest.tot_ballots)'),
         ('if', 'best_asrtn is None or estimate < best_asrtn.difficulty'),
         ('text', 'nen = NENAssertion(contest.name, first_in_tail, later_cand, eliminated)'),
         ('text', 'nen.rules_out.add(tuple(node.tail))'),
         ('text', 'nen.difficulty = estimate'),
         ('text', 'nen.votes_for_winner = tally_first_in_tail'),
         ('text', 'nen.votes_for_loser = tally_later_cand'),
         ('text', 'best_asrtn = nen'),
         ('endif',),
         ('endif',),
         ('endfor',),
         ('text', 'node.best_assertion = best_asrtn'),
         ('if', 'best_asrtn != None'),
         ('text', 'node.estimate = best_asrtn.difficulty'),
         ('endif',)],
 'insert': [('if', 'not node.expandable'),
            ('text', 'self.nodes.append(node)'),
            ('else',),
            ('if', 'node.estimate == np.inf'),
            ('text', 'self.nodes.insert(0, node)'),
            ('else',),
            ('text', 'i = 0'),
            ('text', 'while i < len(self.nodes):\n    n_est = self.nodes[i].estimate\n    if n_est <= node.estimate:\n        break\n    i += 1'),
            ('text', 'self.nodes.insert(i, node)'),
            ('endif',),
            ('endif',)],
 'isdesc': [('text', 'l1 = len(self.tail)'),
            ('text', 'l2 = len(node.tail)'),
            ('if', 'l1 <= l2'),
            ('text', 'return False'),
            ('endif',),
            ('text', 'return self.tail[l1 - l2:] == node.tail')],
 'issuffix': [('text', 'len_lista = len(lista)'),
              ('text', 'len_listb = len(listb)'),
              ('if', 'len_listb < len_lista'),
              ('text', 'return False'),
              ('endif',),
              ('text', 'return listb[len_listb - len_lista:] == lista')],
 'manage': [('if', 'not newn.expandable'),
            ('if', 'newn.estimate == np.inf and newn.best_ancestor.estimate == np.inf'),
            ('if', 'log'),
            ('text', "print('Found branch that cannot be pruned.', file=stream)"),
            ('endif',),
            ('text', 'return (True, np.inf, True)'),
            ('endif',),
            ('if', 'newn.best_ancestor.estimate <= newn.estimate'),
            ('text', 'next_lowerbound = max(lowerbound, newn.best_ancestor.estimate)'),
            ('text', 'frontier.replace_descendents(newn.best_ancestor, log, stream=stream)'),
            ('text', 'return (False, next_lowerbound, True)'),
            ('else',),
            ('text', 'next_lowerbound = max(lowerbound, newn.estimate)'),
            ('text', 'frontier.insert_node(newn)'),
            ('if', 'log'),
            ('text', "print('    Best audit ', file=stream, end='')"),
            ('text', 'newn.best_assertion.display(stream=stream)'),
            ('endif',),
            ('text', 'return (False, next_lowerbound, True)'),
            ('endif',),
            ('else',),
            ('text', 'frontier.insert_node(newn)'),
            ('if', 'log'),
            ('if', 'newn.best_assertion != None'),
            ('text', "print('    Best audit ', file=stream, end='')"),
            ('text', 'newn.best_assertion.display(stream=stream)'),
            ('else',),
            ('text', "print('    Cannot be disproved', file=stream)"),
            ('endif',),
            ('endif',),
            ('text', 'return (False, lowerbound, False)'),
            ('endif',)],
 'nebsub': [('if', 'type(other) == NEBAssertion'),
            ('text', 'return False'),
            ('endif',),
            ('if', 'self.winner == other.winner and self.loser == other.loser'),
            ('text', 'return True'),
            ('endif',),
            ('if', 'self.winner == other.winner and (not self.loser in other.eliminated)'),
            ('text', 'return True'),
            ('else',),
            ('if', 'self.winner in other.eliminated and (not self.loser in other.eliminated)'),
            ('text', 'return True'),
            ('else',),
            ('for', 'ro in other.rules_out'),
            ('text', 'idxw = -1 if not self.winner in ro else ro.index(self.winner)'),
            ('text', 'idxl = -1 if not self.loser in ro else ro.index(self.loser)'),
            ('if', 'idxw == idxl or idxl < idxw'),
            ('text', 'return False'),
            ('endif',),
            ('endfor',),
            ('text', 'return True'),
            ('endif',),
            ('endif',),
            ('text', 'return False')],
 'nensub': [('if', 'type(other) == NEBAssertion'),
            ('text', 'return False'),
            ('endif',),
            ('text', 'other_ro = set(other.rules_out)'),
            ('for', 'ro in self.rules_out'),
            ('text', 'other_ro = [o for o in other_ro if not is_suffix(ro, o)]'),
            ('endfor',),
            ('text', 'return other_ro == []')],
 'replace': [('text', 'descendents = []'),
             ('if', 'log'),
             ('text', "print('Replacing descendents of ', file=stream, end='')"),
             ('text', 'node.display(stream=stream)'),
             ('endif',),
             ('for', 'i in range(len(self.nodes))'),
             ('text', 'node_at_i = self.nodes[i]'),
             ('if', 'node_at_i.is_descendent_of(node)'),
             ('text', 'descendents.append(i)'),
             ('endif',),
             ('endfor',),
             ('for', 'i in reversed(descendents)'),
             ('if', 'log'),
             ('text', "print('Removing node: ', file=stream, end='')"),
             ('text', 'self.nodes[i].display(stream=stream)'),
             ('endif',),
             ('text', 'del self.nodes[i]'),
             ('endfor',),
             ('text', 'self.insert_node(node)')]}

# order matters: a tail may use the tails of earlier targets
TARGETS = [
    dict(name="isdesc", kind="skeleton", file="shangrla/raire/raire_utils.py", func="RaireNode.is_descendent_of", skeleton=SKEL["isdesc"], tail=TAIL_ISDESC),
    dict(name="issuffix", kind="skeleton", file="shangrla/raire/raire_utils.py", func="is_suffix", skeleton=SKEL["issuffix"], tail=TAIL_ISSUFFIX),
    dict(name="insert", kind="skeleton", file="shangrla/raire/raire_utils.py", func="RaireFrontier.insert_node", skeleton=SKEL["insert"], tail=TAIL_INSERT),
    dict(name="replace", kind="skeleton", file="shangrla/raire/raire_utils.py", func="RaireFrontier.replace_descendents", skeleton=SKEL["replace"], tail=TAIL_REPLACE),
    dict(name="manage", kind="skeleton", file="shangrla/raire/raire_utils.py", func="manage_node", skeleton=SKEL["manage"], tail=TAIL_MANAGE),
    dict(name="nebsub", kind="skeleton", file="shangrla/raire/raire_utils.py", func="NEBAssertion.subsumes", skeleton=SKEL["nebsub"], tail=TAIL_NEBSUB),
    dict(name="nensub", kind="skeleton", file="shangrla/raire/raire_utils.py", func="NENAssertion.subsumes", skeleton=SKEL["nensub"], tail=TAIL_NENSUB),
    dict(name="dive", kind="skeleton", file="shangrla/raire/raire_utils.py", func="perform_dive", skeleton=SKEL["dive"], tail=TAIL_DIVE),
    dict(name="fba", kind="skeleton", file="shangrla/raire/raire_utils.py", func="find_best_audit", skeleton=SKEL["fba"], tail=TAIL_FBA),
    dict(name="compute", kind="skeleton", file="shangrla/raire/raire.py", func="compute_raire_assertions", skeleton=SKEL["compute"], tail=TAIL_COMPUTE),
]
