import numpy as np, warnings, traceback
warnings.simplefilter("ignore")
from shangrla.core.Audit import *
from shangrla.core.NonnegMean import NonnegMean
from shangrla.raire import raire, raire_utils, sample_estimator
def tryit(name, f):
    try:
        print(name, "->", f())
    except Exception as e:
        print(name, "RAISED", type(e).__name__, e)
# merge pool
a = CVR(id=1, votes={'a':{'x':1}}, pool=False); b = CVR(id=1, votes={'b':{'y':1}}, pool=False)
m = CVR.merge_cvrs([a,b]); print("merge pool:", type(m[0].pool), bool(m[0].pool))
# consistent sampling continuation
def mk():
    cv = [CVR(id='b', votes={}, sample_num=1), CVR(id='a', votes={'c1':{}}, sample_num=2), CVR(id='c', votes={'c1':{}}, sample_num=3)]
    return cv
con = {'c1': Contest(id='c1', sample_size=1)}
cv = mk(); s1 = CVR.consistent_sampling(cv, con); print("round1", s1, con['c1'].sample_threshold)
con['c1'].sample_size=2
s2 = CVR.consistent_sampling(cv, con, sampled_cvr_indices=list(s1)); print("round2 cont", s2, con['c1'].sample_threshold)
s2b = CVR.consistent_sampling(mk(), con); print("round2 redraw", s2b, con['c1'].sample_threshold)
# RAIRE 2 cands wrong winner
C = raire_utils.Contest('1', ['A','B'], 'A', 3)
cvrs = {0:{'1':{'B':0}},1:{'1':{'B':0,'A':1}},2:{'1':{'A':0}}}
tryit("raire 2 cand wrong", lambda: raire.compute_raire_assertions(C, cvrs, 'A', sample_estimator.cp_estimate, False))
C = raire_utils.Contest('1', ['A','B','C'], 'A', 5)
cvrs = {0:{'1':{'A':0,'B':1}},1:{'1':{'A':0}},2:{'1':{'B':0,'A':1}},3:{'1':{'C':0,'A':1}},4:{'1':{'A':0,'C':1}}}
out = raire.compute_raire_assertions(C, cvrs, 'A', sample_estimator.cp_estimate, False)
for o in out:
    print(o.to_str(), o.votes_for_winner, o.votes_for_loser, "recount:", sum(o.is_vote_for_winner(r) for r in cvrs.values()), sum(o.is_vote_for_loser(r) for r in cvrs.values()), type(o.contest))
# supermajority missing contest
con_s = Contest.from_dict({'id':'AvB','cards':10,'choice_function':'SUPERMAJORITY','share_to_win':2/3,'candidates':['Alice','Bob'],'winner':['Alice'],'test':NonnegMean.alpha_mart,'use_style':False,'audit_type':'POLLING'})
asn = Assertion.make_supermajority_assertion(contest=con_s, winner='Alice', loser=['Bob'])
A = list(asn.values())[0]
tryit("supermaj missing contest", lambda: A.assorter.assort(CVR(id=1, votes={'other':{}})))
# polling sample size
con_p = Contest.from_dict({'id':'AvB','cards':100,'risk_limit':.05,'choice_function':'PLURALITY','candidates':['Alice','Bob'],'winner':['Alice'],'test':NonnegMean.alpha_mart,'estim':NonnegMean.shrink_trunc, 'bet':None,'g':0.1,'test_kwargs':{},'use_style':False,'audit_type':'POLLING','tally':{'Alice':60,'Bob':30}})
asn = Assertion.make_plurality_assertions(con_p, ['Alice'],['Bob'])
A = list(asn.values())[0]; A.find_margin_from_tally()
tryit("polling find_sample_size", lambda: A.find_sample_size())
tryit("interleave n_big=0", lambda: Assertion.interleave_values(2,1,0))
