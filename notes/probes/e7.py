import numpy as np, warnings, itertools
warnings.simplefilter("ignore")
from shangrla.core.NonnegMean import NonnegMean
def dist(tst,pop):
    out=[]
    for perm in itertools.permutations(pop):
        p,ph=tst.test(np.array(perm,dtype=float)); out.append((perm,p,list(np.round(ph,8))))
    return out
for p2 in (1e-4, 1e-2):
    tst=NonnegMean(test=NonnegMean.alpha_mart, estim=NonnegMean.optimal_comparison, N=3, t=.5, u=1.05, rate_error_2=p2)
    print("p2",p2,"eta",tst.estim(np.zeros(1)))
    for r in dist(tst,[.45,2e-6,0.0]): print(r)
# shrink_trunc similar? eta=min(u(1-eps), max(w, m+e)) >= m unless m>u(1-eps): fine
# betting with fixed bet lam: 1+lam(x-m): lam>=0 const: valid if lam<=1/m ; m can exceed 1/lam? lam=0.5,u=1: m<=1 ok
# agrapa: lam in [0, c/m]: valid
