import itertools, random
from shangrla.core.IRVVisualisationUtils import buildRemainingTreeAsLists, treeListToTuple, LeafNode
random.seed(3)
def has_unpruned(t):
    if len(t)==1:
        n=t[0]; return not (n.NEBTagList or n.IRVTagList)
    return any(has_unpruned(b) for b in t[1])
def contradicted(order, WO, IRV):  # order: elimination order, last = winner
    for (l,w,_) in WO:
        if l in order and w in order and order.index(w) < order.index(l): return True
    for (x,E,_) in IRV:
        if x in order and set(order[:order.index(x)])==E: return True
    return False
bad=0
for it in range(3000):
    nc=random.randint(2,5); cands=[str(i) for i in range(nc)]
    WO=[(random.choice(cands),random.choice(cands),random.random()<.5) for _ in range(random.randint(0,4))]
    IRV=[]
    for _ in range(random.randint(0,4)):
        x=random.choice(cands); E=set(random.sample([c for c in cands if c!=x], random.randint(0,nc-1)))
        IRV.append((x,E,random.random()<.5))
    c=random.choice(cands); S=set(cands)-{c}
    t=buildRemainingTreeAsLists(c,S,WO,IRV)
    spec=any(not contradicted(list(p)+[c],WO,IRV) for p in itertools.permutations(sorted(S)))
    if has_unpruned(t)!=spec: bad+=1; print("MISMATCH",c,S,WO,IRV)
print("bad",bad)
print(buildRemainingTreeAsLists('a',{'b','c'},[('a','b',True)],[('c',{'b'},False)]))
