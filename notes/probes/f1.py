import numpy as np, warnings, itertools, random, sys
warnings.simplefilter("ignore")
from shangrla.core.NonnegMean import NonnegMean as NM
random.seed(int(sys.argv[1]))
def worst_ratio(tst, pop):
    ps=[]
    for perm in itertools.permutations(range(len(pop))):
        x=np.array([pop[i] for i in perm],dtype=float)
        p,ph=tst.test(x)
        if np.isnan(p) or np.any(np.isnan(ph)) or p<0 or p>1 or np.any(ph<0) or np.any(ph>1): return ('BAD', x.tolist(), p, ph.tolist())
        ps.append(min(p, ph.min()))
    ps=np.array(ps); w=0; wa=None
    for a in sorted(set(ps)):
        if 0<a<1:
            r=np.mean(ps<=a*(1+1e-12))/a
            if r>w: w=r; wa=a
    return (w,wa)
cfgs=[]
def mk(name,**kw): cfgs.append((name,kw))
mk('alpha_fixed',test=NM.alpha_mart,estim=NM.fixed_alternative_mean)
mk('alpha_shrink',test=NM.alpha_mart,estim=NM.shrink_trunc)
mk('alpha_opt',test=NM.alpha_mart,estim=NM.optimal_comparison)
mk('bet_fixed',test=NM.betting_mart,bet=NM.fixed_bet)
mk('bet_agrapa',test=NM.betting_mart,bet=NM.agrapa)
mk('kk',test=NM.kaplan_kolmogorov)
mk('sprt',test=NM.wald_sprt)
best={}
for it in range(int(sys.argv[2])):
    N=random.choice([3,4,5,6]); u=random.choice([1,1,1.0625,1.25,2]); t=random.choice([.5,.5,.25,.75]) 
    if t>=u: continue
    grid=[0,u/4,u/2,u,t,t/2,u-1/64, 1/64, t+1/8 if t+1/8<=u else t]
    pop=[random.choice(grid) for _ in range(N)]
    if sum(pop)>N*t: continue
    name,kw=random.choice(cfgs)
    if name=='alpha_opt' and u==1: continue
    extra={}
    if 'estim' in kw or name=='sprt': extra['eta']=random.choice([t+(u-t)/2, u-1/64, t+1/64, u])
    if name=='alpha_shrink': extra.update(c=random.choice([.5,.1,1]), d=random.choice([1,10,100]), f=random.choice([0,0,.1,1]), minsd=1e-6)
    if name=='alpha_opt': extra['rate_error_2']=random.choice([1e-4,1e-2,.1,.3])
    if name.startswith('bet'): extra['lam']=random.choice([.5/u, 1/u, .1])
    if name=='bet_agrapa': extra.update(c_grapa_0=random.choice([.5,.9,1-2**-52]), c_grapa_max=1-2**-52, c_grapa_grow=random.choice([0,1]))
    if name=='kk': extra['g']=random.choice([0,.1,.5])
    tst=NM(N=N,t=t,u=u,**kw,**extra)
    r=worst_ratio(tst,pop)
    if r[0]=='BAD': print("BAD",name,N,u,t,extra,r[1:]); continue
    if r[0]>best.get(name,0): best[name]=r[0]
    if r[0]>1+1e-9: print("VIOL",name,"ratio",r,"N",N,"u",u,"t",t,extra,"pop",pop)
print(best)
