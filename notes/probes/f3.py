import numpy as np, warnings, random, sys, math
warnings.simplefilter("ignore")
from shangrla.core.NonnegMean import NonnegMean as NM
random.seed(int(sys.argv[1])); bad=0; n=0
def cfg():
    u=random.choice([1,1,1.0625,1.25,2,1+2**-20]); t=random.choice([.5,.5,.25,.75]); 
    if t>=u: t=.5
    N=random.choice([np.inf,np.inf,1,2,3,5,8,12,40])
    kind=random.choice(['alpha_fixed','alpha_shrink','alpha_opt','bet_fixed','bet_agrapa','kk','km','kw','sprt'])
    kw={}
    if kind=='alpha_fixed': kw=dict(test=NM.alpha_mart,estim=NM.fixed_alternative_mean,eta=random.choice([t+(u-t)/2,u-1/64,t+1/64,u]))
    if kind=='alpha_shrink': kw=dict(test=NM.alpha_mart,estim=NM.shrink_trunc,eta=random.choice([t+(u-t)/2,u-1/64,t+1/64]),c=random.choice([.5,.1,1]),d=random.choice([1,10,100]),f=random.choice([0,0,.1,1]),minsd=random.choice([1e-6,.1]))
    if kind=='alpha_opt':
        if u==1: u=1.0625
        kw=dict(test=NM.alpha_mart,estim=NM.optimal_comparison,rate_error_2=random.choice([0,1e-4,1e-2,.1,.3]))
    if kind=='bet_fixed': kw=dict(test=NM.betting_mart,bet=NM.fixed_bet,lam=random.choice([.5/u,1/u,.1,0]))
    if kind=='bet_agrapa': kw=dict(test=NM.betting_mart,bet=NM.agrapa,lam=random.choice([.5/u,1/u]),c_grapa_0=random.choice([.5,.9,1-2**-52]),c_grapa_max=1-2**-52,c_grapa_grow=random.choice([0,1]))
    if kind=='kk':
        if N==np.inf: N=7
        kw=dict(test=NM.kaplan_kolmogorov,g=random.choice([0,.1,.5]))
    if kind=='km': N=np.inf; kw=dict(test=NM.kaplan_markov,g=random.choice([0,.1,.5]))
    if kind=='kw': N=np.inf; kw=dict(test=NM.kaplan_wald,g=random.choice([0,.1,.5]))
    if kind=='sprt': kw=dict(test=NM.wald_sprt,eta=random.choice([t+(u-t)/2,u-1/64,t+1/64]))
    ro=True if (kind in('sprt',) and N!=np.inf) else random.choice([True,True,False])
    return kind,dict(N=N,t=t,u=u,random_order=ro,**kw)
def sample(u,t,N):
    L=random.randint(1,14) if N==np.inf else random.randint(1,N)
    grid=[0,u,t,u/2,u/4,1/64,u-1/64,t+1/8 if t+1/8<=u else t]
    mode=random.random()
    if mode<.15: return [0.]*L
    if mode<.3: return [float(u)]*L
    if mode<.4: return [float(t)]*L
    return [float(random.choice(grid)) for _ in range(L)]
for it in range(int(sys.argv[2])):
    kind,kw=cfg(); x=sample(kw['u'],kw['t'],kw['N']); n+=1
    try:
        T=NM(**kw); p,ph=T.test(np.array(x))
    except Exception as e:
        print("EXC",kind,kw,x,type(e).__name__,e); bad+=1; continue
    ph=np.asarray(ph,dtype=float)
    ok = len(ph)==len(x) and not np.isnan(p) and not np.any(np.isnan(ph)) and 0<=p<=1 and np.all(ph>=0) and np.all(ph<=1) and not np.any(np.signbit(ph))
    exp = ph.min() if (kw['random_order'] or kind.startswith('alpha') or kind.startswith('bet')) else ph[-1]
    if kind=='sprt' and not kw['random_order']: exp=ph[-1]
    if not ok or abs(p-exp)>1e-12: print("C11",kind,{k:v for k,v in kw.items() if k not in('test','estim','bet')},x,p,ph.tolist()); bad+=1
    # C13
    if kind.startswith('alpha'):
        e=np.broadcast_to(np.asarray(T.estim(np.array(x)),dtype=float),(len(x),))
        if np.any(np.isnan(e)) or np.any(e<0) or np.any(e>kw['u']): print("C13 estim",kind,kw,x,e); bad+=1
    if kind.startswith('bet'):
        lam=np.asarray(T.bet(np.array(x)),dtype=float); m=np.broadcast_to(T.sjm(kw['N'],kw['t'],np.array(x))[3],(len(x),))
        msk=(m>0)&(m<=kw['u'])
        if np.any(np.isnan(lam)) or np.any(lam[msk]<0) or np.any(lam[msk]>1/m[msk]*(1+1e-12)): print("C13 bet",kind,kw,x,lam,m); bad+=1
    # C05
    k=random.randint(1,len(x))
    if kw['N']==np.inf or len(x)+2<=kw['N']:
        y=x[:k]+sample(kw['u'],kw['t'],np.inf)[:2]; z=x[:k]+sample(kw['u'],kw['t'],np.inf)[:2]
        if len(y)==len(z) and len(y)>k:
            a=np.asarray(NM(**kw).test(np.array(y))[1]); b=np.asarray(NM(**kw).test(np.array(z))[1])
            if not np.array_equal(a[:k],b[:k]): print("C05 tail",kind,kw,y,z,a,b); bad+=1
    a=np.asarray(NM(**kw).test(np.array(x[:k]))[1])
    if not np.array_equal(a[:k-1],ph[:k-1]) or a[k-1]>ph[k-1]: print("C05 prefix",kind,kw,x,k,a,ph); bad+=1
print("runs",n,"bad",bad)
