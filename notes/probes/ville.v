From Coq Require Import QArith List Lia Lra Psatz.
Import ListNotations.
Open Scope Q_scope.

Fixpoint remove_nth {A} (i:nat) (l:list A) : list A :=
  match l, i with
  | [], _ => []
  | _ :: t, O => t
  | x :: t, S k => x :: remove_nth k t
  end.
Definition qsum (l:list Q) : Q := fold_right Qplus 0 l.
Definition qn (n:nat) : Q := inject_Z (Z.of_nat n).

Lemma qsum_le_pointwise {A} (f g : A -> Q) (l : list A) :
  (forall a, In a l -> f a <= g a) -> qsum (map f l) <= qsum (map g l).
Proof. induction l as [|a l IH]; simpl; intros H; [lra|].
  assert (f a <= g a) by (apply H; now left).
  assert (qsum (map f l) <= qsum (map g l)) by (apply IH; intros; apply H; now right). lra. Qed.
Lemma qsum_scale (c:Q) (l:list Q) : qsum (map (fun x => x * c) l) == qsum l * c.
Proof. induction l as [|a l IH]; simpl; [ring| rewrite IH; ring]. Qed.

Section Ville.
Variable T : list Q -> Q.
Variable thr : Q.
Hypothesis thr_pos : 0 < thr.
Variable Inv : list Q -> list Q -> Prop.
Hypothesis Inv_step : forall p rem i, Inv p rem -> (i < length rem)%nat ->
   Inv (p ++ [nth i rem 0]) (remove_nth i rem).
Hypothesis T_nonneg : forall p rem, Inv p rem -> 0 <= T p.
Hypothesis T_super : forall p rem, Inv p rem -> rem <> [] ->
   qsum (map (fun i => T (p ++ [nth i rem 0])) (seq 0 (length rem))) <= qn (length rem) * T p.

Fixpoint pcross (n:nat) (p rem : list Q) : Q :=
  if Qle_bool thr (T p) then 1 else
  match n with
  | O => 0
  | S n' =>
    match rem with
    | [] => 0
    | _ => qsum (map (fun i => pcross n' (p ++ [nth i rem 0]) (remove_nth i rem)) (seq 0 (length rem)))
           / qn (length rem)
    end
  end.

Theorem ville : forall n p rem, Inv p rem -> pcross n p rem * thr <= T p.
Proof.
  induction n as [|n IH]; intros p rem HI; simpl.
  - destruct (Qle_bool thr (T p)) eqn:E.
    + apply Qle_bool_iff in E. lra.
    + pose proof (T_nonneg _ _ HI). lra.
  - destruct (Qle_bool thr (T p)) eqn:E.
    + apply Qle_bool_iff in E. lra.
    + destruct rem as [|r rem'] eqn:Er.
      * pose proof (T_nonneg _ _ HI). lra.
      * rewrite <- Er in *. 
        set (k := length rem).
        assert (Hk : 0 < qn k). { unfold qn, k. rewrite Er. simpl length. unfold inject_Z, Qlt. simpl. lia. }
        set (S1 := qsum (map (fun i => pcross n (p ++ [nth i rem 0]) (remove_nth i rem)) (seq 0 k))).
        assert (HS : S1 * thr <= qn k * T p).
        { unfold S1. rewrite <- qsum_scale. rewrite map_map.
          eapply Qle_trans; [| apply T_super; auto; rewrite Er; discriminate].
          apply qsum_le_pointwise. intros i Hi. apply in_seq in Hi. apply IH. apply Inv_step; auto. unfold k in Hi. lia. }
        assert (S1 / qn k * thr == S1 * thr / qn k) by (field; lra).
        rewrite H. apply Qle_shift_div_r; auto. lra.
Qed.
End Ville.
Print Assumptions ville.
