import numpy as np, warnings, itertools, random, sys, copy
warnings.simplefilter("ignore")
from shangrla.core.Audit import CVR, Contest
random.seed(int(sys.argv[1])); bad=0; n=0
for it in range(3000):
    nc=random.randint(1,3); cons=[f"c{i}" for i in range(nc)]
    ncards=random.randint(1,9)
    nums=random.sample(range(100),ncards)
    styles=[[c for c in cons if random.random()<.6] for _ in range(ncards)]
    def mk(): return [CVR(id=str(i),votes={c:{} for c in styles[i]},sample_num=nums[i]) for i in range(ncards)]
    avail={c:sum(1 for s in styles if c in s) for c in cons}
    rounds=random.randint(1,3); sizes=[]
    cur={c:0 for c in cons}
    for r in range(rounds):
        cur={c:random.randint(cur[c],avail[c]) for c in cons}; sizes.append(dict(cur))
    # spec
    order=sorted(range(ncards),key=lambda i:nums[i])
    def spec(sz):
        sel=set(); thr={}
        for c in cons:
            cc=[i for i in order if c in styles[i]][:sz[c]]
            sel|=set(cc); 
            if cc: thr[c]=nums[cc[-1]]
        return [i for i in order if i in sel], thr
    # redraw each round
    prev_sel=None; cont=None; cl=mk(); contests_c={c:Contest(id=c,sample_size=0) for c in cons}
    prev_data=None
    for r,sz in enumerate(sizes):
        contests={c:Contest(id=c,sample_size=sz[c]) for c in cons}
        sel=CVR.consistent_sampling(mk(),contests)
        ssel,sthr=spec(sz); n+=1
        if sel!=ssel or any(contests[c].sample_threshold!=sthr[c] for c in sthr): bad+=1; print("REDRAW MISMATCH",nums,styles,sz,sel,ssel)
        for c in cons: contests_c[c].sample_size=sz[c]
        cont=CVR.consistent_sampling(cl,contests_c,sampled_cvr_indices=cont)
        if cont!=ssel: bad+=1; print("CONT MISMATCH",nums,styles,sizes,r,cont,ssel)
        if any(contests_c[c].sample_threshold!=sthr[c] for c in sthr): bad+=1; print("CONT THR",nums,styles,sizes,r)
        data={c:[i for i in cont if c in styles[i] and c in sthr and nums[i]<=contests_c[c].sample_threshold] for c in cons}
        if prev_data:
            for c in cons:
                if data[c][:len(prev_data[c])]!=prev_data[c]: bad+=1; print("NOT APPEND",c,prev_data[c],data[c])
        prev_data=data; cont=list(cont)
print("runs",n,"bad",bad)
