import itertools, random, sys, io
import numpy as np
from shangrla.raire import raire, raire_utils, sample_estimator
from shangrla.raire.raire_utils import NEBAssertion, NENAssertion, vote_for_cand, ranking
random.seed(int(sys.argv[1]) if len(sys.argv)>1 else 0)
def contradicts(a, order):
    # order: elimination order list, last = winner
    if isinstance(a, NEBAssertion):
        # winner never eliminated before loser: contradicted if winner appears before loser in order
        return order.index(a.winner) < order.index(a.loser)
    else:
        # NEN: when exactly a.eliminated are gone, a.winner is not next eliminated
        k=len(a.eliminated)
        return set(order[:k])==set(a.eliminated) and order[k]==a.winner and k < len(order)-1
def all_true_assertions(cands, ballots, tot, fn):
    out=[]
    for w in cands:
        for l in cands:
            if w==l: continue
            tw=sum(1 for b in ballots if ranking(w,b)==0)
            tl=sum(1 for b in ballots if ranking(l,b)!=-1 and (ranking(w,b)==-1 or ranking(l,b)<ranking(w,b)))
            if tw>tl:
                a=NEBAssertion('1',w,l); a.difficulty=fn(tw,tl,tot-tw-tl,tot); out.append(a)
    for r in range(0,len(cands)-1):
        for elim in itertools.combinations(cands,r):
            rem=[c for c in cands if c not in elim]
            for w in rem:
                for l in rem:
                    if w==l: continue
                    tw=sum(vote_for_cand(w,list(elim),b) for b in ballots); tl=sum(vote_for_cand(l,list(elim),b) for b in ballots)
                    if tw>tl:
                        a=NENAssertion('1',w,l,list(elim)); a.difficulty=fn(tw,tl,tot-tw-tl,tot); out.append(a)
    return out
def sufficient(asrts, cands, winner):
    for order in itertools.permutations(cands):
        if order[-1]==winner: continue
        if not any(contradicts(a,list(order)) for a in asrts): return False
    return True
def opt(cands,ballots,tot,fn,winner):
    A=all_true_assertions(cands,ballots,tot,fn)
    for d in sorted(set(a.difficulty for a in A)):
        if sufficient([a for a in A if a.difficulty<=d],cands,winner): return d
    return None
bad=0; n=0; stats={}
for it in range(int(sys.argv[2]) if len(sys.argv)>2 else 300):
    nc=random.choice([2,3,3,4,4,5]); cands=[chr(65+i) for i in range(nc)]
    nb=random.randint(1,40)
    ballots=[]
    for _ in range(nb):
        k=random.randint(0,nc); p=random.sample(cands,k); ballots.append({c:i for i,c in enumerate(p)})
    cvrs={i:{'1':b} for i,b in enumerate(ballots)}
    winner=random.choice(cands)
    if random.random()<.8:
        from shangrla.raire.simp_assertions import sim_irv
        winner=sim_irv(raire_utils.Contest('1',cands,None,nb),cvrs)[0]
    order=[] if random.random()<.5 else random.sample(cands,nc)
    fn=random.choice([sample_estimator.cp_estimate, sample_estimator.bp_estimate])
    C=raire_utils.Contest('1',cands,winner,nb,order=order)
    try:
        out=raire.compute_raire_assertions(C,cvrs,winner,fn,False)
    except Exception as e:
        print("EXC",type(e).__name__,e,cands,ballots,winner,order); bad+=1; continue
    o=opt(cands,ballots,nb,fn,winner)
    n+=1
    if out==[]:
        stats['empty']=stats.get('empty',0)+1
        if o is not None: print("EMPTY but possible opt",o,cands,ballots,winner,order,fn.__name__); bad+=1
    else:
        stats['nonempty']=stats.get('nonempty',0)+1
        if None in out: print("NONE in out"); bad+=1; continue
        for a in out:
            assert a.contest=='1'
            assert a.votes_for_winner==sum(a.is_vote_for_winner(r) for r in cvrs.values()) and a.votes_for_loser==sum(a.is_vote_for_loser(r) for r in cvrs.values()), 'retally'
        if not sufficient(out,cands,winner): print("INSUFFICIENT",cands,ballots,winner,order,[a.to_str() for a in out]); bad+=1
        m=max(a.difficulty for a in out)
        if o is None or abs(m-o)>1e-9: print("NONOPT got",m,"opt",o,cands,ballots,winner,order,fn.__name__); bad+=1
print("runs",n,"bad",bad,stats)
