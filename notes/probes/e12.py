import numpy as np, warnings
warnings.simplefilter("ignore")
from shangrla.core.NonnegMean import NonnegMean
t=NonnegMean(test=NonnegMean.wald_sprt, N=4, t=.5, u=1, eta=.75)
print(t.test(np.zeros(4)))
print(t.test(np.zeros(3)))
t=NonnegMean(test=NonnegMean.wald_sprt, N=6, t=.5, u=1, eta=.75)
print(t.test(np.zeros(6)))
