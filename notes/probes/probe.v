From Coq Require Import QArith List Lia Lra Psatz.
Import ListNotations.
Open Scope Q_scope.
(* factor identity and supermartingale inequality feasibility *)
Lemma alpha_factor_affine u m eta x : ~ m == 0 -> ~ u - m == 0 -> ~ u == 0 ->
  (x*eta/m + (u-x)*(u-eta)/(u-m))/u == 1 + (x-m)*(eta-m)/(m*(u-m)).
Proof. intros. field. repeat split; auto. Qed.
Lemma alpha_eq_betting u m lam x : ~ m == 0 -> ~ u - m == 0 -> ~ u == 0 ->
  (x*(m*(1+lam*(u-m)))/m + (u-x)*(u-(m*(1+lam*(u-m))))/(u-m))/u == 1 + lam*(x-m).
Proof. intros. field. repeat split; auto. Qed.
Lemma step_le_one u m eta a : 0 < m -> m < u -> m <= eta -> a <= m ->
  1 + (a-m)*(eta-m)/(m*(u-m)) <= 1.
Proof. intros. assert (0 < m*(u-m)) by nra.
  assert (Hp: (a-m)*(eta-m) <= 0) by nra.
  assert (Hi: 0 < / (m*(u-m))) by (apply Qinv_lt_0_compat; auto).
  unfold Qdiv. set (p := (a-m)*(eta-m)) in *. set (i := / (m*(u-m))) in *.
  assert (p * i <= 0) by nra. lra. Qed.
(* speed probe *)
Fixpoint cumprod (acc:Q) (l:list Q) : list Q := match l with [] => [] | x::t => let a := Qred (acc*x) in a :: cumprod a t end.
Definition xs := map (fun k => (Z.of_nat (k mod 7) + 1) # 8) (seq 0 30).
Definition facs := map (fun x => Qred ((x * (7#10) / (1#2) + (1 - x) * (3#10) / (1#2)) / 1)) xs.
Time Eval vm_compute in (last (cumprod 1 facs) 0).
Definition many := map (fun s => last (cumprod 1 (map (fun x => Qred (x + (Z.of_nat s # 1000))) facs)) 0) (seq 0 1000).
Time Eval vm_compute in (length (filter (fun q => Qle_bool q 1) many)).
