import numpy as np, warnings, random, sys, copy
warnings.simplefilter("ignore")
from shangrla.core.Audit import *
from shangrla.core.NonnegMean import NonnegMean as NM
random.seed(int(sys.argv[1])); bad=0; n=0
def rand_vote(cands,kind):
    if kind=='IRV':
        k=random.randint(0,len(cands)); p=random.sample(cands,k); return {c:i+1 for i,c in enumerate(p)}
    marks=[True,1,5,"x",False,0,""]
    return {c:random.choice(marks) for c in cands if random.random()<.5}
for it in range(int(sys.argv[2])):
    kind=random.choice(['PLURALITY','SUPERMAJORITY','IRV']); use_style=random.random()<.5
    cands=['A','B','C'][:random.randint(2,3)]
    con=Contest.from_dict({'id':'k','name':'k','risk_limit':.05,'cards':50,'choice_function':kind,'n_winners':1,'share_to_win':random.choice([.5,.6,2/3]),
        'candidates':cands,'winner':['A'],'audit_type':Audit.AUDIT_TYPE.CARD_COMPARISON,'test':NM.alpha_mart,'estim':NM.optimal_comparison,'bet':None,'use_style':use_style,'test_kwargs':{},'g':.1})
    if kind=='PLURALITY': asn=Assertion.make_plurality_assertions(con,['A'],cands[1:])
    elif kind=='SUPERMAJORITY': asn=Assertion.make_supermajority_assertion(contest=con,winner='A',loser=cands[1:],share_to_win=con.share_to_win)
    else:
        js=[{'winner':'A','loser':'B','assertion_type':'WINNER_ONLY','already_eliminated':''},{'winner':'A','loser':'B','assertion_type':'IRV_ELIMINATION','already_eliminated':cands[2:]}]
        asn=Assertion.make_assertions_from_json(contest=con,candidates=cands,json_assertions=js)
    ncards=random.randint(1,12); cvrs=[]
    for i in range(ncards):
        ph=random.random()<.15; pool=random.random()<.4
        votes={} 
        if ph or random.random()<.8: votes['k']={} if ph else rand_vote(cands,kind)
        if random.random()<.3: votes['other']={}
        cvrs.append(CVR(id=str(i),votes=votes,phantom=ph,pool=pool,tally_pool=random.choice(['p1','p2'])))
    pools=CVR.pool_contests(cvrs); CVR.add_pool_contests(cvrs,pools)
    audit=Audit.from_dict({'strata':{'s':{'max_cards':50,'use_style':use_style}}})
    pop=[c for c in cvrs if (not use_style) or c.has_contest('k')]
    if not pop: continue
    mvrs=[]
    for c in pop:
        r=random.random()
        if r<.2: m=CVR(id=c.id,votes={},phantom=True)
        elif r<.35: m=CVR(id=c.id,votes={'other':{}})
        elif r<.7: m=CVR(id=c.id,votes=copy.deepcopy(c.votes))
        else: m=CVR(id=c.id,votes={'k':rand_vote(cands,kind)})
        mvrs.append(m)
    for a in asn.values():
        n+=1
        a.assorter.set_tally_pool_means(cvr_list=cvrs,tally_pools=pools,use_style=use_style) if random.random()<.7 else None
        a.set_margin_from_cvrs(audit,cvrs)
        u=a.assorter.upper_bound; v=a.margin
        B=[a.overstatement_assorter(m,c,use_style=use_style) for m,c in zip(mvrs,pop)]
        def Abar(m): 
            if m.phantom or (use_style and not m.has_contest('k')): return 0
            return a.assorter.assort(m)
        lhs=np.mean(B)-.5; rhs=(2*np.mean([Abar(m) for m in mvrs])-1)/(2*(2*u-v))
        if abs(lhs-rhs)>1e-9: bad+=1; print("C03",kind,use_style,lhs,rhs,[str(c) for c in pop][:3])
        ut=2/(2-v/u)
        if min(B)<-1e-12 or max(B)>ut+1e-12: bad+=1; print("C06",kind,B,ut)
        # C08 phantom mvr never increases
        for m,c in zip(mvrs,pop):
            if a.overstatement_assorter(CVR(id=c.id,votes={},phantom=True),c,use_style=use_style) > a.overstatement_assorter(m,c,use_style=use_style)+1e-12: bad+=1; print("C08")
print("runs",n,"bad",bad)
