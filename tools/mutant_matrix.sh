#!/bin/bash
# tools/mutant_matrix.sh [ID ...] : run the quick check of each seeded change's property on a scratch worktree with the
# change applied; one line per change: detected (failing input) / detected (no-failing-input-found) / MISSED
cd /verif
sel="$@"
for d in seeded/C*/; do
  name=$(basename $d); id=${name%_*}
  if [ -n "$sel" ] && ! echo " $sel " | grep -q " $id "; then continue; fi
  echo "$name $id"
done | xargs -P 6 -L 1 bash -c '
  name=$0; id=$1; wt=/tmp/mm_$name
  git -C /repo worktree add --detach $wt HEAD >/dev/null 2>&1
  if ! git -C $wt apply /verif/seeded/$name/patch.diff 2>/dev/null; then echo "$name APPLY-FAILED"; git -C /repo worktree remove --force $wt; exit 0; fi
  out=$(VERIF_REPO=$wt VERIF_SKIP_MAKE=1 /verif/check $id quick 2>&1)
  git -C /repo worktree remove --force $wt
  if echo "$out" | grep -q "^VIOLATION.*no-failing-input-found"; then r="detected: correspondence/proof broken, no-failing-input-found"
  elif echo "$out" | grep -q "^VIOLATION"; then r="detected: concrete failing input"
  else r="MISSED"; fi
  echo "$name -> $id: $r | $(echo "$out" | grep "quick:" | cut -c1-140)"
' | sort
